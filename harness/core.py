"""Core of the forsys verification harness.

Everything that *judges* is TLA+ evaluated by TLC; this module only
  * runs TLC (model-checking jobs `MC_*` and trace-validation jobs `Trace_*`),
  * shards traces, collects TLC's per-event verdicts (`VJ {...}` lines),
  * relays verdicts (VIOLATION / KNOWN-FINDING lines, exit codes),
  * writes the evidence file from measured counts.

Exit codes of a check: 0 = held on everything explored, 1 = violation, 2 = machinery failure.
"""
import concurrent.futures as cf
import hashlib
import json
import os
import re
import shutil
import subprocess
import sys
import time

VERIF = os.path.dirname(os.path.dirname(os.path.abspath(__file__)))
REPO = os.environ.get("VERIF_REPO", "/repo")
SPEC = os.path.join(VERIF, "spec")
TLA_CP = "/opt/veriftools/tla/tla2tools.jar:/opt/veriftools/tla/CommunityModules-deps.jar"
NCPU = min(16, os.cpu_count() or 1)


class MachineryFailure(Exception):
    pass


def import_forsys():
    """Import forsys from REPO's current working tree (never from a copy)."""
    os.environ.setdefault("FORSYS_VERIF", "1")
    if REPO not in sys.path:
        sys.path.insert(0, REPO)
    import warnings
    warnings.filterwarnings("ignore")
    import forsys  # noqa
    here = os.path.realpath(os.path.dirname(forsys.__file__))
    want = os.path.realpath(os.path.join(REPO, "forsys"))
    if here != want:
        raise MachineryFailure(f"forsys imported from {here}, expected {want}")
    return forsys


# ----------------------------------------------------------------------------------------
# TLC
# ----------------------------------------------------------------------------------------
class TLCResult:
    def __init__(self, out, rc, wall):
        self.out = out
        self.rc = rc
        self.wall = wall
        m = re.search(r"(\d+) states generated, (\d+) distinct states found", out)
        self.generated = int(m.group(1)) if m else 0
        self.distinct = int(m.group(2)) if m else 0
        m = re.search(r"depth of the complete state graph search is (\d+)", out)
        self.depth = int(m.group(1)) if m else 0
        self.completed = "Model checking completed. No error has been found." in out
        self.invariant_violated = re.findall(r"Invariant (\S+) is violated", out)
        self.vj = []
        self.printed = []
        for line in out.splitlines():
            if line.startswith('"VJ '):
                try:
                    self.vj.append(json.loads(json.loads(line)[3:]))
                except Exception as exc:  # pragma: no cover
                    raise MachineryFailure(f"unparsable verdict line: {line[:200]} ({exc})")
            elif line.startswith('"EJ '):
                self.printed.append(json.loads(json.loads(line)[3:]))

    def error_text(self):
        lines = self.out.splitlines()
        keep = [l for l in lines if "rror" in l or "xception" in l or "violated" in l]
        return "\n".join(keep[:20]) or "\n".join(lines[-25:])


def run_tlc(module, cfg=None, workers=1, env=None, timeout=3600, metadir=None, extra=(),
            xss="512m", heap=None, cwd=SPEC, simulate=None, depth=None, seed=None):
    """Run TLC on spec/<module>.tla with spec/<cfg>; returns TLCResult. Raises on timeout."""
    cfg = cfg or module + ".cfg"
    metadir = metadir or os.path.join(VERIF, "run", "_meta", f"{module}-{os.getpid()}-{time.time_ns()}")
    os.makedirs(metadir, exist_ok=True)
    jvm = ["java", "-XX:+UseParallelGC", f"-Xss{xss}"]
    if heap:
        jvm.append(f"-Xmx{heap}")
    cmd = jvm + ["-cp", TLA_CP, "tlc2.TLC", "-workers", str(workers), "-metadir", metadir,
                 "-noGenerateSpecTE", "-config", cfg]
    if simulate:
        cmd += ["-simulate", simulate]
    if depth:
        cmd += ["-depth", str(depth)]
    if seed is not None:
        cmd += ["-seed", str(seed)]
    cmd += list(extra) + [module]
    e = dict(os.environ)
    e.pop("JAVA_TOOL_OPTIONS", None)
    if env:
        e.update({k: str(v) for k, v in env.items()})
    t0 = time.time()
    try:
        p = subprocess.run(cmd, cwd=cwd, env=e, stdout=subprocess.PIPE, stderr=subprocess.STDOUT,
                           timeout=timeout, text=True)
    except subprocess.TimeoutExpired:
        shutil.rmtree(metadir, ignore_errors=True)
        raise MachineryFailure(f"TLC timeout after {timeout}s on {module}")
    shutil.rmtree(metadir, ignore_errors=True)
    return TLCResult(p.stdout, p.returncode, time.time() - t0)


# ----------------------------------------------------------------------------------------
# Context of one check run
# ----------------------------------------------------------------------------------------
class Ctx:
    def __init__(self, pid, tier, seed, level, replaying=False):
        self.pid = pid
        self.tier = tier
        self.seed = seed
        self.level = level
        self.t0 = time.time()
        # a replay must not wipe the run directory that holds the replay file it was given
        # runs against another tree (VERIF_REPO, used for seeded changes) must not disturb the run directory and the
        # evidence file of the real check
        alt = "" if REPO == "/repo" else "-alt-" + hashlib.sha1(REPO.encode()).hexdigest()[:6]
        self.rundir = os.path.join(VERIF, "run", pid + alt + ("-replay" if replaying else ""))
        shutil.rmtree(self.rundir, ignore_errors=True)
        os.makedirs(os.path.join(self.rundir, "replay"), exist_ok=True)
        self.states = 0
        self.transitions = 0
        self.mc_jobs = []
        self.traces_validated = 0
        self.events_validated = 0
        self.evaluations = 0
        self.distinct = set()
        self.nontrivial = 0
        self.samples = []
        self.clause_hits = {}
        self.rejected_inputs = 0
        self.violations = []   # (case_id, clause, replay_path)
        self.known = {}        # matcher -> count
        self.notes = []
        self.assumptions = []
        self.rule = ""
        self.exhaustive = False
        self.extra = {}
        kf_path = os.path.join(VERIF, "known_findings.json")
        self.kf = {}
        if os.path.exists(kf_path):
            for ent in json.load(open(kf_path)).get("findings", []):
                if ent.get("status", "open") == "open" and ent["property"] == pid:
                    self.kf[ent["matcher"]] = ent

    @property
    def quick(self):
        return self.tier == "quick"

    def pick(self, quick, thorough):
        return quick if self.quick else thorough

    def note(self, msg):
        if msg not in self.notes:
            self.notes.append(msg)
            print(f"NOTE: {msg}")

    # ---- model-checking jobs -------------------------------------------------------------
    def mc(self, module, cfg=None, workers=NCPU, timeout=3600, env=None, expect_complete=True, **kw):
        """Run an MC_* job; its invariants are design-level properties of the model. A violated
        invariant is reported as a machinery failure unless the caller handles it (returns res)."""
        kw.setdefault("heap", "12g")
        res = run_tlc(module, cfg, workers=workers, timeout=timeout, env=env, **kw)
        self.states += res.distinct
        self.transitions += res.generated
        print(f"  [mc] {module}/{cfg}: {res.distinct} distinct states, {res.wall:.1f}s", file=sys.stderr)
        self.mc_jobs.append({"module": module, "cfg": cfg or module + ".cfg", "distinct": res.distinct,
                             "generated": res.generated, "depth": res.depth, "wall_s": round(res.wall, 1),
                             "completed": res.completed})
        if expect_complete and not res.completed:
            raise MachineryFailure(f"MC job {module}/{cfg} did not complete cleanly:\n{res.error_text()}")
        return res

    # ---- trace validation ----------------------------------------------------------------
    def validate(self, module, cases, cfg=None, shards=None, timeout=3600, env=None, heap=None):
        """cases: list of (case_id, [event dicts]). Every event must carry "case" and "ev".
        Returns {case_id: [verdict dicts in event order]}. Every event must produce exactly one
        verdict (VJ line) or the run is a machinery failure."""
        if not cases:
            return {}
        shards = shards or min(NCPU, max(1, len(cases)))
        sizes = [0] * shards
        buckets = [[] for _ in range(shards)]
        for cid, evs in sorted(cases, key=lambda c: -sum(len(json.dumps(e)) for e in c[1])):
            k = sizes.index(min(sizes))
            buckets[k].append((cid, evs))
            sizes[k] += sum(len(json.dumps(e)) for e in evs) + 1
        tdir = os.path.join(self.rundir, "traces")
        os.makedirs(tdir, exist_ok=True)
        jobs = []
        for k, b in enumerate(buckets):
            if not b:
                continue
            path = os.path.join(tdir, f"{module}-{k}-{time.time_ns()}.ndjson")
            n = 0
            with open(path, "w") as f:
                for cid, evs in b:
                    for e in evs:
                        assert e["case"] == cid and "ev" in e
                        f.write(json.dumps(e, separators=(",", ":")) + "\n")
                        n += 1
            jobs.append((path, n))

        def one(job):
            path, n = job
            e = {"TRACE_FILE": path}
            if env:
                e.update(env)
            # 16 JVMs run side by side: bound each heap (the JVM default is a quarter of the machine's memory each)
            r = run_tlc(module, cfg, workers=1, env=e, timeout=timeout, heap=heap or "3g")
            if not r.completed or len(r.vj) != n:
                tail = "\n".join(l for l in r.out.splitlines()[-30:] if not l.startswith('"VJ'))[-600:]
                raise MachineryFailure(
                    f"trace job {module} on {path}: completed={r.completed} verdicts={len(r.vj)}/{n} rc={r.rc}\n{r.error_text()}\n{tail}")
            return r

        out = {}
        with cf.ThreadPoolExecutor(max_workers=NCPU) as ex:
            for (path, n), r in zip(jobs, ex.map(one, jobs)):
                for v in r.vj:
                    out.setdefault(v["case"], []).append(v)
                self.events_validated += n
                os.remove(path)
        self.traces_validated += len(out)
        print(f"  [trace] {module}: {len(out)} cases / {sum(n for _, n in jobs)} events validated", file=sys.stderr)
        return out

    # ---- verdict relay -------------------------------------------------------------------
    def judge(self, verdicts, payloads=None):
        """verdicts: {case: [vj,...]}. Each vj has `fails` (list of clause names), optional `kf`
        (list of "Matcher:clause" strings for failing instances matched by a known-finding predicate),
        optional `hits` (clauses exercised), `rejected` (premise failed)."""
        payloads = payloads or {}
        for cid, vjs in sorted(verdicts.items(), key=lambda kv: str(kv[0])):
            for vj in vjs:
                for h in vj.get("hits", []):
                    self.clause_hits[h] = self.clause_hits.get(h, 0) + 1
                if vj.get("rejected"):
                    self.rejected_inputs += 1
                for k in vj.get("kf", []):
                    matcher = k.split(":")[0]
                    if matcher in self.kf:
                        self.known[matcher] = self.known.get(matcher, 0) + 1
                    else:
                        self._violation(cid, k, payloads.get(cid), vj)
                for clause in vj.get("fails", []):
                    self._violation(cid, clause, payloads.get(cid), vj)

    def _violation(self, cid, clause, payload, vj=None):
        path = os.path.join(self.rundir, "replay", f"case-{cid}.json")
        if not os.path.exists(path):
            with open(path, "w") as f:
                json.dump({"property": self.pid, "case": cid, "clause": clause, "seed": self.seed,
                           "tier": self.tier, "verdict": vj, "input": payload}, f)
        self.violations.append((cid, clause, path))

    def violation(self, cid, clause, payload=None):
        self._violation(cid, clause, payload)

    def add_case(self, payload, nontrivial=True, sample=True):
        """account one executed case (abstract input as JSON-able payload)"""
        self.evaluations += 1
        h = hashlib.sha1(json.dumps(payload, sort_keys=True, default=str).encode()).hexdigest()
        if h not in self.distinct:
            self.distinct.add(h)
            if nontrivial:
                self.nontrivial += 1
            if sample and len(self.samples) < 3:
                s = json.dumps(payload, default=str)
                self.samples.append(payload if len(s) < 4000 else {"truncated": s[:4000]})

    # ---- finish ------------------------------------------------------------------------------
    def finish(self):
        cov = {
            "evaluations": self.evaluations,
            "distinct_nontrivial": self.nontrivial,
            "rule": self.rule,
            "samples": self.samples,
            "states": self.states,
            "transitions": self.transitions,
            "traces_validated_against_impl": self.traces_validated,
            "events_validated": self.events_validated,
            "exhaustive": self.exhaustive,
            "mc_jobs": self.mc_jobs,
            "clause_hits": self.clause_hits,
            "rejected_inputs": self.rejected_inputs,
            "known_findings_matched": self.known,
            "notes": self.notes,
        }
        cov.update(self.extra)
        seen = set()
        nviol = 0
        for cid, clause, path in self.violations:
            if (cid, clause) in seen:
                continue
            seen.add((cid, clause))
            nviol += 1
            if nviol <= 40:
                print(f"VIOLATION property={self.pid} replay={path} clause={clause} case={cid}")
        for matcher, n in sorted(self.known.items()):
            ent = self.kf[matcher]
            print(f"KNOWN-FINDING: property={self.pid} {matcher}: {ent['what']} ({n} instance(s) this run)")
        ev = {
            "property_id": self.pid, "tier": self.tier, "seed": self.seed, "level": self.level,
            "coverage": cov, "assumptions": self.assumptions, "wall_s": round(time.time() - self.t0, 2),
            "violations": nviol,
        }
        evdir = os.path.join(VERIF, "evidence") if REPO == "/repo" else os.path.join(self.rundir, "evidence")
        os.makedirs(evdir, exist_ok=True)
        with open(os.path.join(evdir, f"{self.pid}.json"), "w") as f:
            json.dump(ev, f, indent=1)
        shutil.rmtree(os.path.join(self.rundir, "traces"), ignore_errors=True)
        print(f"{self.pid} {self.tier}: evaluations={self.evaluations} distinct_nontrivial={self.nontrivial} "
              f"states={self.states} traces={self.traces_validated} events={self.events_validated} "
              f"violations={nviol} known={sum(self.known.values())} rejected={self.rejected_inputs} "
              f"wall={ev['wall_s']}s")
        return 1 if nviol else 0


def _quiet():
    """forsys prints diagnostics on stdout; keep the check's stdout for verdict lines only"""
    devnull = os.open(os.devnull, os.O_WRONLY)
    os.dup2(devnull, 1)


class quiet_stdout:
    def __enter__(self):
        sys.stdout.flush()
        self._saved = os.dup(1)
        self._dn = os.open(os.devnull, os.O_WRONLY)
        os.dup2(self._dn, 1)

    def __exit__(self, *a):
        sys.stdout.flush()
        os.dup2(self._saved, 1)
        os.close(self._saved)
        os.close(self._dn)


def parallel_map(fn, items, procs=NCPU, chunksize=1):
    """Run fn over items in worker processes (fork), preserving order."""
    import multiprocessing as mp
    if procs <= 1 or len(items) <= 1:
        with quiet_stdout():
            return [fn(x) for x in items]
    ctx = mp.get_context("fork")
    with ctx.Pool(min(procs, len(items)), initializer=_quiet) as pool:
        return pool.map(fn, items, chunksize=chunksize)

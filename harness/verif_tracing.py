"""pytest plug-in (DESIGN §3.3): traces the repository's OWN test-suite from outside the repository.
Usage: PYTHONPATH=/verif:/verif/harness VERIF_TRACE_DIR=<dir> pytest -p verif_tracing ...
Every distinct mesh handed to / produced by the public construction steps exercised by the tests
(parsers, generate_mesh, Frame construction) is projected and appended as `Mesh` / `Frame` events for Trace_Mesh.tla.
The wrappers copy numbers only and keep no reference to mesh objects."""
import hashlib
import json
import os

_seen = set()


def _out():
    d = os.environ.get("VERIF_TRACE_DIR")
    if not d:
        return None
    os.makedirs(d, exist_ok=True)
    return os.path.join(d, f"trace-{os.getpid()}.ndjson")


def _emit(events):
    path = _out()
    if path:
        with open(path, "a") as f:
            for e in events:
                f.write(json.dumps(e, separators=(",", ":")) + "\n")


def _case_of(m, extra=""):
    h = hashlib.sha1((json.dumps(m, sort_keys=True) + extra).encode()).hexdigest()
    return h, int(h[:7], 16)


def pytest_configure(config):
    from harness import project
    import forsys.frames as fframes
    import forsys.virtual_edges as fve

    orig_post = fframes.Frame.__post_init__

    def post(self):
        orig_post(self)
        try:
            m, vi, ei, ci = project.project_mesh(self.vertices, self.edges, self.cells)
            h, case = _case_of(m, "frame")
            if h in _seen or m["nv"] == 0:
                return
            _seen.add(h)
            f = project.project_frame(self, vi, ei, ci, lookups=len(self.big_edges_list) < 400)
            _emit([{"case": case, "ev": "Mesh", "mesh": m, "raised": "", "src": "suite:Frame"},
                   {"case": case, "ev": "Frame", "f": f, "raised": ""}])
        except Exception as exc:  # tracing must never change the outcome of a test
            _emit([{"case": 0, "ev": "TraceError", "what": repr(exc)[:200]}])

    fframes.Frame.__post_init__ = post

    orig_gm = fve.generate_mesh

    def gm(vertices, edges, cells, ne=4, **kwargs):
        out = orig_gm(vertices, edges, cells, ne=ne, **kwargs)
        try:
            m, _, _, _ = project.project_mesh(out[0], out[1], out[2])
            h, case = _case_of(m, "gm")
            if h not in _seen:
                _seen.add(h)
                _emit([{"case": case, "ev": "Mesh", "mesh": m, "raised": "", "src": f"suite:generate_mesh(ne={ne})"}])
        except Exception as exc:
            _emit([{"case": 0, "ev": "TraceError", "what": repr(exc)[:200]}])
        return out

    fve.generate_mesh = gm
    import forsys
    forsys.virtual_edges.generate_mesh = gm

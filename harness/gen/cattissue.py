"""Catalogue tissues (integer model coordinates) in the format of gen.equilibrium (complex positions,
per-edge truth: tension, unit tangents, arc geometry, left/right cells). Tensions are arbitrary
(these tissues are not in force balance); edges may be bent into exact circular arcs."""
import cmath
import math

from harness.gen import catalogue


def _cells_stay_valid(t, min_ratio=0.35):
    """steering only: with the edges bent into arcs every cell must keep the orientation and a fair share of the area of its
    straight polygon (strong bulges turn the small triangles / quadrilaterals of the irregular tissue inside out; such an
    input is not a tissue)"""
    for cyc in t["cells"]:
        n = len(cyc)
        straight = sum((t["pos"][cyc[i]].conjugate() * t["pos"][cyc[(i + 1) % n]]).imag for i in range(n)) / 2
        pts = []
        for i in range(n):
            a, b = cyc[i], cyc[(i + 1) % n]
            rec = t["edges"][(min(a, b), max(a, b))]
            za, zb = t["pos"][min(a, b)], t["pos"][max(a, b)]
            seg = []
            for j in range(8):
                u = j / 8
                if rec["centre"] is None:
                    seg.append(za + u * (zb - za))
                else:
                    a0 = cmath.phase(za - rec["centre"])
                    seg.append(rec["centre"] + rec["R"] * cmath.exp(1j * (a0 + u * rec["theta"])))
            if a > b:
                seg = [zb] + seg[:0:-1]
            pts += seg
        m = len(pts)
        bent = sum((pts[i].conjugate() * pts[(i + 1) % m]).imag for i in range(m)) / 2
        if straight == 0 or bent / straight < min_ratio:
            return False
    return True


def make(base_name, cells=None, sagitta=None, rng=None, tension=None, jitter=0.0):
    """as _make; a uniform sagitta fraction is halved (at most four times) until every cell stays a valid cell"""
    if sagitta and not callable(sagitta):
        state = rng.getstate() if rng is not None else None
        s = float(sagitta)
        for _ in range(5):
            if rng is not None:
                rng.setstate(state)
            t = _make(base_name, cells, s, rng, tension, jitter)
            if _cells_stay_valid(t):
                return t
            s /= 2
        if rng is not None:
            rng.setstate(state)
        return _make(base_name, cells, None, rng, tension, jitter)
    return _make(base_name, cells, sagitta, rng, tension, jitter)


def _make(base_name, cells=None, sagitta=None, rng=None, tension=None, jitter=0.0):
    """cells: list of base-vertex cycles (default: all cells of the base tissue);
    sagitta: None (straight), a float s (every edge bent with sagitta s*|chord|, alternating side by a
    deterministic rule), or a callable (a, b) -> signed fraction."""
    base = catalogue.load(base_name) if isinstance(base_name, str) else base_name
    pos = {i + 1: complex(p[0], p[1]) for i, p in enumerate(base["pos"])}
    cells = [list(c) for c in (cells if cells is not None else base["cells"])]
    used = {v for c in cells for v in c}
    pos = {v: z for v, z in pos.items() if v in used}
    if jitter and rng is not None:
        # distort the regular geometry: every junction-level vertex moves by up to `jitter` model units
        pos = {v: z + complex(rng.uniform(-jitter, jitter), rng.uniform(-jitter, jitter)) for v, z in sorted(pos.items())}
    left, right = {}, {}
    for ci, cyc in enumerate(cells):
        n = len(cyc)
        for i in range(n):
            a, b = cyc[i], cyc[(i + 1) % n]
            if a < b:
                left[(a, b)] = ci
            else:
                right[(b, a)] = ci
    edges = {}
    for e in sorted(set(left) | set(right)):
        a, b = e
        za, zb = pos[a], pos[b]
        if callable(sagitta):
            s = sagitta(a, b)
        elif sagitta:
            s = sagitta if (a * 7 + b * 3) % 2 == 0 else -sagitta
        else:
            s = 0.0
        T = tension(a, b) if tension else (rng.uniform(0.5, 1.5) if rng else 1.0)
        rec = {"T": T, "left": left.get(e, -1), "right": right.get(e, -1)}
        chord = zb - za
        L = abs(chord)
        if abs(s) < 1e-12:
            d = chord / L
            rec.update(ta=d, tb=-d, centre=None, R=float("inf"), theta=0.0)
        else:
            h = s * L                      # signed sagitta, positive = bulging to the left of a->b
            R = (L * L / 4 + h * h) / (2 * abs(h))
            nrm = 1j * chord / L          # left normal
            sgn = 1.0 if h > 0 else -1.0
            centre = (za + zb) / 2 - sgn * nrm * (R - abs(h))
            # bulging left means the centre is on the right: travelling a->b the curve turns right (theta < 0)
            half = math.asin(min(1.0, L / (2 * R)))
            if abs(h) > L / 2:
                half = math.pi - half
            theta = -sgn * 2 * half
            # tangent at a: perpendicular to radius, oriented along the travel direction
            ra = za - centre
            ta = (1j * ra if theta > 0 else -1j * ra)
            rb = zb - centre
            tb = (-1j * rb if theta > 0 else 1j * rb)
            rec.update(ta=ta / abs(ta), tb=tb / abs(tb), centre=centre, R=R, theta=theta)
        edges[e] = rec
    return {"pos": pos, "cells": cells, "edges": edges, "sites": None, "mobius": None, "base": base["name"]}

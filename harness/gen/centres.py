"""Cell-centre sets for the tessellation check (C19): the families named by the property's quantifier.

Every generator returns a list of (x, y) Python floats with |coordinate| <= 100 and is deterministic in
(gen, n, seed). Nothing here judges anything; whether a set satisfies the premise of the property is
decided by TLC from the logged Voronoi output."""
import math
import random

FAMILIES = ["random", "jitter", "square", "square_rot", "hex_pointy", "hex_flat", "hex_rot"]
# exact lattices: spacing and origin are multiples of 1/8 (exact in binary) or deliberately not (0.73)
SPACINGS = [1.0, 2.5, 4.0, 0.75, 0.73, 3.3]
# 3-4-5 rotation: exactly representable direction cosines
COS, SIN = 0.6, 0.8


def _grid_shape(n):
    nx = max(2, int(round(math.sqrt(n))))
    ny = max(2, n // nx)
    return nx, ny


def _fit_spacing(rng, nx, ny):
    s = rng.choice(SPACINGS)
    while s * (max(nx, ny) + 1) > 90:
        s /= 2.0
    return s


def centres(gen, n, seed):
    rng = random.Random(f"{gen}:{n}:{seed}")
    if gen == "random":
        box = rng.choice([10.0, 40.0, 100.0])
        ox, oy = rng.choice([(0.0, 0.0), (-box / 2, -box / 2), (-box, 0.0)])
        return [(ox + rng.uniform(0, box), oy + rng.uniform(0, box)) for _ in range(n)]
    nx, ny = _grid_shape(n)
    s = _fit_spacing(rng, nx, ny)
    ox, oy = rng.choice([(0.0, 0.0), (0.25, -0.5), (-s * nx / 2, -s * ny / 2), (-7.125, 3.5)])
    ij = [(i, j) for j in range(ny) for i in range(nx)]
    if gen == "jitter":
        amp = rng.choice([0.1, 0.2, 0.3, 0.45]) * s
        pts = [(i * s + rng.uniform(-amp, amp), j * s + rng.uniform(-amp, amp)) for i, j in ij]
    elif gen in ("square", "square_rot"):
        pts = [(i * s, j * s) for i, j in ij]
    elif gen in ("hex_pointy", "hex_flat", "hex_rot"):
        h = s * math.sqrt(3.0) / 2.0
        pts = [((i + 0.5 * (j % 2)) * s, j * h) for i, j in ij]   # pointy-top cells: two vertical sides
        if gen == "hex_flat":
            pts = [(y, x) for x, y in pts]
    else:
        raise ValueError(gen)
    if gen.endswith("_rot"):
        pts = [(COS * x - SIN * y, SIN * x + COS * y) for x, y in pts]
    out = [(float(x + ox), float(y + oy)) for x, y in pts]
    if max(max(abs(x), abs(y)) for x, y in out) > 100.0:   # keep the advertised bound |coordinate| <= 100
        out = [(float(x), float(y)) for x, y in pts]
    return out

"""Catalogue of small base tissues in integer model coordinates (committed as JSON under
models/catalogue so that TLC can JsonDeserialize them). Deterministic.

A base tissue is a junction-level cell complex: vertices with integer coordinates, cells as
vertex cycles (counter-clockwise, y up). Interior sample points per base edge are added by the
driver (straight or on circular arcs), which is part of the embedding, not of the oracle."""
import json
import os

HERE = os.path.dirname(os.path.abspath(__file__))
OUT = os.path.join(os.path.dirname(os.path.dirname(HERE)), "models", "catalogue")


def complex_from_polygons(name, polys, note=""):
    pos, idx, cells = [], {}, []
    for poly in polys:
        cyc = []
        for p in poly:
            p = (int(p[0]), int(p[1]))
            if p not in idx:
                idx[p] = len(pos) + 1
                pos.append([p[0], p[1]])
            cyc.append(idx[p])
        cells.append(cyc)
    return {"name": name, "nv": len(pos), "nc": len(cells), "pos": pos, "cells": cells, "note": note}


def hexagon(cx, cy):
    # stretched hexagon tiling the plane with centres (3i, 4j + 2(i mod 2)); ccw
    return [(cx + 2, cy), (cx + 1, cy + 2), (cx - 1, cy + 2), (cx - 2, cy), (cx - 1, cy - 2), (cx + 1, cy - 2)]


def hex_patch(cols, rows):
    polys = []
    for i in range(cols):
        for j in range(rows):
            polys.append(hexagon(3 * i, 4 * j + 2 * (i % 2)))
    return polys


def hex_flower():
    cs = [(0, 0), (3, 2), (0, 4), (-3, 2), (-3, -2), (0, -4), (3, -2)]
    return [hexagon(x, y) for x, y in cs]


def brick(cols, rows):
    """running-bond bricks 4x2: exactly collinear T-junctions, axis-aligned tangents"""
    polys = []
    for j in range(rows):
        off = 2 * (j % 2)
        for i in range(cols):
            x0, y0 = 4 * i + off, 2 * j
            # corner points and the T-junction points of neighbouring rows on the long sides
            xs = [x0, x0 + 2, x0 + 4]
            bottom = [(x, y0) for x in xs]
            top = [(x, y0 + 2) for x in reversed(xs)]
            polys.append(bottom + top)
    return polys


def squares(cols, rows):
    return [[(2 * i, 2 * j), (2 * i + 2, 2 * j), (2 * i + 2, 2 * j + 2), (2 * i, 2 * j + 2)]
            for j in range(rows) for i in range(cols)]


def irregular():
    """hand-made irregular tissue (Voronoi-like) with integer coordinates, 3-fold junctions, 8 cells"""
    P = {
        "a": (0, 0), "b": (6, -1), "c": (12, 0), "d": (18, 1),
        "e": (-1, 6), "f": (5, 5), "g": (11, 6), "h": (17, 7),
        "i": (0, 12), "j": (6, 11), "k": (12, 13), "l": (18, 12),
        "m": (2, 3), "n": (9, 2), "o": (15, 4), "p": (3, 9), "q": (8, 8), "r": (14, 10),
    }
    cells = [
        "a b n m", "b c n", "c d o n", "m n f", "n o g f", "o d h g",
        "m f p e", "f q p", "f g q", "g r q", "g h r", "p q j i", "q r k j", "r h l k", "a m e",
    ]
    return [[P[x] for x in c.split()] for c in cells]


def poles():
    """three stacked lens cells meeting at two poles: the middle two-point interface a-b touches
    three cells at both ends (exotic: see DESIGN §10)"""
    a, b = (0, 0), (8, 0)
    return [[a, (4, -6), b, (4, -3)], [a, (4, -3), b], [a, b, (4, 3)], [a, (4, 3), b, (4, 6)]]


def lens():
    """a diamond cell D squeezed between two neighbours L, R that also touch each other above and below it: the interfaces
    D|L and D|R join the SAME pair of junctions, L and R share two interfaces; a cap on top and one below make the outer
    ends of L|R three-cell junctions"""
    D = [(0, 2), (-1, 0), (0, -2), (1, 0)]
    L = [(0, 2), (0, 4), (-4, 4), (-4, -4), (0, -4), (0, -2), (-1, 0)]
    R = [(0, 2), (1, 0), (0, -2), (0, -4), (4, -4), (4, 4), (0, 4)]
    T = [(-4, 4), (0, 4), (4, 4), (4, 7), (-4, 7)]
    B = [(-4, -4), (-4, -7), (4, -7), (4, -4), (0, -4)]
    return [D, L, R, T, B]


def fan():
    """five triangles around a central junction shared by FIVE cells, surrounded by a ring of five quadrilaterals (the rim
    vertices are four-cell junctions): junctions of every order >= 4 for the ignore-four option"""
    r = [(10, 0), (3, 10), (-8, 6), (-8, -6), (3, -10)]
    R = [(20, 0), (6, 20), (-16, 12), (-16, -12), (6, -20)]
    tri = [[(0, 0), r[i], r[(i + 1) % 5]] for i in range(5)]
    quad = [[r[i], R[i], R[(i + 1) % 5], r[(i + 1) % 5]] for i in range(5)]
    return tri + quad


TISSUES = {
    "hexflower": (hex_flower, "7 hexagons; sub-tissues include the ring with a hole"),
    "hex33": (lambda: hex_patch(3, 3), "3x3 affine hexagonal patch"),
    "brick33": (lambda: brick(3, 3), "running-bond bricks: collinear T-junctions, axis-aligned tangents"),
    "squares33": (lambda: squares(3, 3), "square grid: four-fold junctions"),
    "irregular": (irregular, "irregular 15-cell tissue with triangles and quadrilaterals"),
    "hex43": (lambda: hex_patch(4, 3), "4x3 affine hexagonal patch (thorough tier)"),
    "fan5": (fan, "a five-cell junction inside a ring of four-cell junctions"),
    "lens5": (lens, "a two-junction (lens) cell between two neighbours that touch each other: two interfaces join one junction pair"),
}


def area2(poly):
    return sum(poly[i][0] * poly[(i + 1) % len(poly)][1] - poly[(i + 1) % len(poly)][0] * poly[i][1]
               for i in range(len(poly)))


def main():
    os.makedirs(OUT, exist_ok=True)
    for name, (fn, note) in TISSUES.items():
        polys = fn()
        polys = [p if area2(p) > 0 else p[::-1] for p in polys]  # ccw
        c = complex_from_polygons(name, polys, note)
        with open(os.path.join(OUT, name + ".json"), "w") as f:
            json.dump(c, f, separators=(",", ":"))
        print(name, c["nv"], c["nc"])


def load(name):
    return json.load(open(os.path.join(OUT, name + ".json")))


if __name__ == "__main__":
    main()

"""Surface Evolver dumps for C14: abstract dump <-> real `.dmp` text.

Three independent pieces (none of them shares code with forsys/surface_evolver.py):

* `write_dmp(d, path, rng)`  — serialiser: abstract dump (+ wrapping) -> a `.dmp` file laid out like the
  shipped ones (preamble, section headers, column formats, `\\` continuation, trailing `/*area ...*/`,
  `density`, `original`, body lines with `lagrange_multiplier`, blank line before every header, CRLF).
* `read_dmp(path)`            — reader: a `.dmp` file -> abstract dump. Works on the joined section text
  with regular expressions and *keywords* (never token positions), exact decimal arithmetic.
* `random_dump(rng, ...)`     — generator of large abstract dumps from tissues.

Abstract dump `d` (what the specification SEDump.tla talks about; dense 1-based indices in record
order, ids are labels):
    d["V"][i] = {"id", "x": val, "y": val}
    d["E"][j] = {"id", "a", "b": indices into V, "hd": density present, "d": val, "at": 0 | n ("original n")}
    d["F"][k] = {"id", "loop": [signed indices into E], "w": [units per line]}   units = id, refs..., comment
    d["B"][l] = {"id", "f": signed index into F, "m": val}                        in file order
    val = [sign(+1/-1), integer part, 6-digit fraction (micro), t]  t = 1: further non-zero digits follow
"""
import decimal
import math
import os
import re

from harness.gen import voronoi, catalogue

MICRO = 1000000


# ------------------------------------------------------------------------------------------------
# values
# ------------------------------------------------------------------------------------------------
def val_of_decimal(text):
    """exact: decimal string -> val"""
    q = decimal.Decimal(text)
    s = -1 if q.is_signed() else 1
    a = abs(q)
    ip = int(a)
    fr = (a - ip) * MICRO
    fp = int(fr)
    return [s, ip, fp, 0 if fr == fp else 1]


def val_of_float(x, tail=True):
    """float -> val with 6 fraction digits; `tail` says that the serialiser will append more digits"""
    s = -1 if x < 0 else 1
    a = abs(x)
    ip = int(a)
    fp = int((a - ip) * MICRO)
    fp = min(max(fp, 0), MICRO - 1)
    return [s, ip, fp, 1 if tail else 0]


def val_text(v, rng=None):
    """val -> decimal text as `%.15g` would print it (trailing zeros stripped; exponent notation below 1e-4)"""
    s, ip, fp, t = v
    txt = f"{ip}.{fp:06d}"
    if t:
        n = max(1, min(9, 15 - len(str(ip)) - 6)) if rng is None else rng.randint(1, max(1, min(9, 15 - len(str(ip)) - 6)))
        digs = "".join(str(rng.randint(0, 9)) if rng else "4" for _ in range(n - 1)) + str(rng.randint(1, 9) if rng else 7)
        txt += digs
    else:
        txt = txt.rstrip("0").rstrip(".")
    if ip == 0 and 0 < fp < 100:
        # `%.15g` prints magnitudes below 1e-4 in exponent notation (3.21e-05): the same digits, another layout
        frac = txt.split(".")[1].rstrip("0")
        z = len(frac) - len(frac.lstrip("0"))
        mant = frac[z:]
        txt = mant[0] + ("." + mant[1:] if len(mant) > 1 else "") + f"e-{z + 1:02d}"
    return ("-" if s < 0 else "") + txt


# ------------------------------------------------------------------------------------------------
# serialiser
# ------------------------------------------------------------------------------------------------
PREAMBLE = """// data/steps0.dmp: Dump of structure.

// datafilename: furrow_1.fe
vertices_predicted      {nv}
edges_predicted         {ne}
facets_predicted         {nf}
facetedges_predicted    {nfe}
bodies_predicted         {nb}
quantities_predicted            0
method_instances_predicted      0
// Total energy: 4812.53483942057
SPACE_DIMENSION 2
STRING

LINEAR

SCALE: 0.005     FIXED

PARAMETER ii =  0

TOTAL_TIME 700

VIEW_MATRIX
 0.007926505441546   0.000000000000000  -1.033560824039506
 0.000000000000000   0.007926505441546  -1.023743847050151
 0.000000000000000   0.000000000000000   1.000000000000000
slice_coeff = {{ 1.00000, 0.00000, 0.00000}}


"""

TRAILER = """read
ff := "data/steps0.dmp"

show_all_edges off
metric_conversion off
autorecalc on
gv_binary off
gravity off


"""


def face_lines(fid, refs, w, area_text):
    """token lines of one face record: units = [id, refs..., comment] cut into lines of w[i] units"""
    units = [("id", fid)] + [("e", r) for r in refs] + [("c", area_text)]
    assert sum(w) == len(units) and all(x >= 1 for x in w), (w, len(units))
    out = []
    pos = 0
    for li, n in enumerate(w):
        part = units[pos:pos + n]
        pos += n
        txt = ""
        for kind, u in part:
            if kind == "id":
                txt += f"{u:3d}  "
            elif kind == "e":
                txt += (" " if txt else "") + str(u)
            else:
                txt += (" " if txt else "") + f"/*area {u}*/"
        if li > 0:
            txt = " " * 15 + txt
        if li < len(w) - 1:
            txt += " \\"
        out.append(txt)
    return out


def dump_text(d, rng=None):
    V, E, F, B = d["V"], d["E"], d["F"], d["B"]
    L = PREAMBLE.format(nv=len(V) + 1, ne=len(E) + 1, nf=len(F) + 1, nb=len(B) + 1,
                        nfe=sum(len(f["loop"]) for f in F)).split("\n")[:-1]
    L.append("vertices        /*  coordinates  */    ")
    for v in V:
        L.append(f"{v['id']:3d}  {val_text(v['x'], rng):>17s}  {val_text(v['y'], rng):>17s}")
    L.append("")
    L.append("edges  ")
    for e in E:
        txt = f"{e['id']:3d}     {V[e['a'] - 1]['id']:3d} {V[e['b'] - 1]['id']:4d}     "
        if e["hd"]:
            txt += f" density {val_text(e['d'], rng)} "
        if e["at"]:
            txt += f" original {e['at']}"
        L.append(txt)
    L.append("")
    L.append("faces    /* edge loop */      ")
    for f in F:
        refs = [(1 if r > 0 else -1) * E[abs(r) - 1]["id"] for r in f["loop"]]
        area = f.get("area", "-500" if f["loop"][0] < 0 else "500")
        L += face_lines(f["id"], refs, f["w"], area)
    L.append("")
    L.append("bodies  /* facets */")
    for b in B:
        fref = (1 if b["f"] > 0 else -1) * F[abs(b["f"]) - 1]["id"]
        L.append(f"{b['id']:3d}       {fref}  volume 500  /*actual: 500.000000000001*/ "
                 f"lagrange_multiplier {val_text(b['m'], rng)}  centerofmass ")
    L.append("")
    L += TRAILER.split("\n")[:-1]
    return L


def write_dmp(d, path, rng=None, crlf=True):
    os.makedirs(os.path.dirname(path), exist_ok=True)
    nl = "\r\n" if crlf else "\n"
    with open(path, "w", newline="") as f:
        f.write(nl.join(dump_text(d, rng)) + nl)
    return path


# ------------------------------------------------------------------------------------------------
# independent reader (keyword / regex based)
# ------------------------------------------------------------------------------------------------
_NUM = r"[-+]?(?:\d+\.?\d*|\.\d+)(?:[eE][-+]?\d+)?"


def _sections(text):
    """{name: body text} for the four record sections; a header is a line starting with the keyword"""
    text = text.replace("\r\n", "\n").replace("\r", "\n")
    marks = []
    for name in ("vertices", "edges", "faces", "bodies", "read"):
        m = re.search(r"^" + name + r"(?:[ \t][^\n]*)?$", text, flags=re.M)
        if not m:
            raise ValueError(f"no {name} section")
        marks.append((name, m.start(), m.end()))
    out = {}
    for (name, _, e), (_, s2, _) in zip(marks, marks[1:]):
        out[name] = text[e:s2]
    return out


def read_dmp(path):
    with open(path, "r", newline="") as fh:
        sec = _sections(fh.read())
    V, E, F, B = [], [], [], []
    vidx, eidx, fidx = {}, {}, {}
    for rec in sec["vertices"].split("\n"):
        m = re.match(r"\s*(\d+)\s+(" + _NUM + r")\s+(" + _NUM + r")", rec)
        if m:
            vidx[int(m.group(1))] = len(V) + 1
            V.append({"id": int(m.group(1)), "x": val_of_decimal(m.group(2)), "y": val_of_decimal(m.group(3))})
    for rec in sec["edges"].split("\n"):
        m = re.match(r"\s*(\d+)\s+(\d+)\s+(\d+)(.*)$", rec)
        if m:
            rest = m.group(4)
            dm = re.search(r"\bdensity\s+(" + _NUM + r")", rest)
            om = re.search(r"\boriginal\s+(\d+)", rest)
            eidx[int(m.group(1))] = len(E) + 1
            E.append({"id": int(m.group(1)), "a": vidx[int(m.group(2))], "b": vidx[int(m.group(3))],
                      "hd": bool(dm), "d": val_of_decimal(dm.group(1)) if dm else [1, 1, 0, 0],
                      "at": int(om.group(1)) if om else 0})
    # faces: a record ends with its /*area ..*/ comment; continuation = backslash before the newline
    for m in re.finditer(r"((?:[^/\n]|\\\n)*?)/\*area\s*(" + _NUM + r")\s*\*/", sec["faces"]):
        body = m.group(1)
        phys = body.split("\n")
        nums = [int(t) for t in re.findall(r"-?\d+", body)]
        if not nums:
            continue
        # units per physical line (the comment is one unit on the last physical line)
        w = [len(re.findall(r"-?\d+", ln)) for ln in phys]
        w[-1] += 1
        w = [x for x in w if x > 0]
        fidx[nums[0]] = len(F) + 1
        F.append({"id": nums[0], "loop": [(1 if r > 0 else -1) * eidx[abs(r)] for r in nums[1:]], "w": w,
                  "area": m.group(2)})
    for rec in sec["bodies"].split("\n"):
        m = re.match(r"\s*(\d+)\s+(-?\d+)\s", rec)
        lm = re.search(r"\blagrange_multiplier\s+(" + _NUM + r")", rec)
        if m and lm:
            r = int(m.group(2))
            B.append({"id": int(m.group(1)), "f": (1 if r > 0 else -1) * fidx[abs(r)], "m": val_of_decimal(lm.group(1))})
    return {"V": V, "E": E, "F": F, "B": B}


# ------------------------------------------------------------------------------------------------
# random large dumps from tissues
# ------------------------------------------------------------------------------------------------
def _ids(rng, n, mode):
    """n distinct positive ids in record order"""
    if mode == "dense":
        return list(range(1, n + 1))
    if mode == "offset":
        o = rng.choice([2, 17, 1000])
        return list(range(o, o + n))
    ids, cur = [], rng.choice([1, 1, 5, 300])
    for _ in range(n):
        ids.append(cur)
        cur += rng.choice([1, 1, 1, 2, 3, 7]) if mode == "gaps" else rng.randint(1, 40)
    return ids


def _no_tie(rng, lo, hi, unit, tail):
    """random val in [lo, hi) that is not half-way between two multiples of `unit` micro"""
    while True:
        x = rng.uniform(lo, hi)
        v = val_of_float(x, tail)
        if tail or v[2] % unit != unit // 2:
            return v


def random_wrapping(rng, n_units, mode):
    """composition of n_units into lines"""
    if mode == "se":                      # Surface Evolver: id + 10 refs, then 10 refs per line, comment joins
        nref = n_units - 2                # the last line unless that line is full
        parts = []
        first = min(10, nref)
        parts.append(1 + first)
        left = nref - first
        while left > 0:
            k = min(10, left)
            parts.append(k)
            left -= k
        last_refs = parts[-1] - (1 if len(parts) == 1 else 0)
        if last_refs >= 10:
            parts.append(1)
        else:
            parts[-1] += 1
        return parts
    if mode == "one":
        return [n_units]
    if isinstance(mode, int):
        lens = lambda: mode
    else:
        lens = lambda: rng.randint(1, 20)
    parts, left = [], n_units
    while left > 0:
        k = min(lens(), left)
        parts.append(k)
        left -= k
    return parts


def random_dump(rng, ncells=None, defects=()):
    """abstract dump from a random tissue.
    defects: subset of {"bare", "bodies", "chord"} — inputs on which the pinned code is known to break
    (bare edge line, body lines not in face order, unattached edge between two attached vertices)."""
    ncells = ncells or rng.choice([1, 2, 3, 6, 12, 30, 70, 150])
    info = {"ncells": ncells, "defects": sorted(defects)}
    if ncells <= 7 and rng.random() < 0.5:
        base = catalogue.load(rng.choice(["hexflower", "squares33", "brick33", "irregular"]))
        pos = {i + 1: (float(p[0]) / 12.0, float(p[1]) / 12.0) for i, p in enumerate(base["pos"])}
        cells = [list(c) for c in base["cells"]]
        rng.shuffle(cells)
        cells = cells[:ncells]
    else:
        pos, cells, _, _ = voronoi.random_tissue(rng, max(ncells, 4))
        # connected-ish subset: cells nearest to a random point
        cx, cy = rng.uniform(0.3, 0.7), rng.uniform(0.3, 0.7)
        cen = lambda cyc: (sum(pos[v][0] for v in cyc) / len(cyc), sum(pos[v][1] for v in cyc) / len(cyc))
        cells = sorted(cells, key=lambda c: math.hypot(cen(c)[0] - cx, cen(c)[1] - cy))[:ncells]
    info["ncells"] = len(cells)
    # --- subdivision of base edges -----------------------------------------------------------
    base_edges = {}
    for cyc in cells:
        for i in range(len(cyc)):
            a, b = cyc[i], cyc[(i + 1) % len(cyc)]
            base_edges.setdefault((min(a, b), max(a, b)), 1)
    kmode = rng.choice(["one", "few", "many", "max"])
    for key in base_edges:
        base_edges[key] = {"one": 1, "few": rng.randint(1, 3), "many": rng.randint(1, 10), "max": 10}[kmode]
    size = lambda cyc: sum(base_edges[(min(cyc[i], cyc[(i + 1) % len(cyc)]), max(cyc[i], cyc[(i + 1) % len(cyc)]))]
                           for i in range(len(cyc)))
    for cyc in cells:
        while size(cyc) > 60:
            keys = [(min(cyc[i], cyc[(i + 1) % len(cyc)]), max(cyc[i], cyc[(i + 1) % len(cyc)])) for i in range(len(cyc))]
            k = max(keys, key=lambda q: base_edges[q])
            base_edges[k] -= 1
    # --- embedding: scale / shift so that coordinates span tiny..large ----------------------------
    scale = rng.choice([20.0, 200.0, 3000.0, 1.0e5])
    used = sorted({v for cyc in cells for v in cyc})
    anchor = pos[rng.choice(used)]
    shift_mode = rng.choice(["origin", "origin", "positive", "far"])
    if shift_mode == "origin":      # one junction lands at a tiny coordinate (1e-4..1e-3), others negative/positive
        tx = -anchor[0] * scale + rng.choice([-1, 1]) * rng.choice([rng.uniform(1e-4, 9e-4), 10 ** rng.uniform(-5.9, -4.05)])
        ty = -anchor[1] * scale + rng.choice([-1, 1]) * rng.choice([rng.uniform(1e-4, 9e-4), 10 ** rng.uniform(-5.9, -4.05)])
    elif shift_mode == "positive":
        tx, ty = rng.uniform(0, 50), rng.uniform(0, 50)
    else:
        tx = ty = 0.0
        scale = 0.9e5
    emb = lambda p: (p[0] * scale + tx, p[1] * scale + ty)
    info.update(scale=scale, shift=shift_mode, kmode=kmode)
    # --- vertices and mesh edges -------------------------------------------------------------------
    pts = []                               # float positions in creation order
    vnew = {}
    for v in used:
        vnew[v] = len(pts)
        pts.append(emb(pos[v]))
    chain = {}                             # base edge -> vertex chain a..b (creation indices)
    segs = []                              # (p, q) creation indices
    for (a, b), k in base_edges.items():
        pa, pb = emb(pos[a]), emb(pos[b])
        bow = rng.uniform(-0.08, 0.08) if k > 1 else 0.0
        nx, ny = -(pb[1] - pa[1]), (pb[0] - pa[0])
        ch = [vnew[a]]
        for j in range(1, k):
            t = j / k
            h = 4 * bow * t * (1 - t)
            pts.append((pa[0] + t * (pb[0] - pa[0]) + h * nx, pa[1] + t * (pb[1] - pa[1]) + h * ny))
            ch.append(len(pts) - 1)
        ch.append(vnew[b])
        chain[(a, b)] = ch
        for j in range(len(ch) - 1):
            segs.append((ch[j], ch[j + 1]))
    n_att_v, n_att_e = len(pts), len(segs)
    # --- unattached vertices and edges -------------------------------------------------------------
    orphan_mode = rng.choice(["none", "isolated", "dangling", "pairs", "mixed"])
    if orphan_mode != "none":
        xs = [p[0] for p in pts]
        ys = [p[1] for p in pts]
        far = lambda: (rng.uniform(min(xs), max(xs)), max(ys) + rng.uniform(1.0, 50.0))
        nor = rng.randint(1, 6)
        for _ in range(nor):
            pts.append(far())
            o = len(pts) - 1
            if orphan_mode in ("dangling", "mixed") and rng.random() < 0.7:
                segs.append((o, rng.randrange(n_att_v)) if rng.random() < 0.5 else (rng.randrange(n_att_v), o))
            if orphan_mode in ("pairs", "mixed") and rng.random() < 0.7:
                pts.append(far())
                segs.append((o, len(pts) - 1))
    if "chord" in defects:
        for _ in range(rng.randint(1, 3)):
            a, b = rng.sample(range(n_att_v), 2)
            if (a, b) not in segs and (b, a) not in segs:
                segs.append((a, b))
    info["orphans"] = orphan_mode
    # record order: creation order, or shuffled (ids are then assigned along the record order)
    vorder = list(range(len(pts)))
    eorder = list(range(len(segs)))
    if rng.random() < 0.5:
        rng.shuffle(vorder)
        rng.shuffle(eorder)
    vpos = {c: i + 1 for i, c in enumerate(vorder)}
    idmode = rng.choice(["dense", "offset", "gaps", "wide"])
    vids = _ids(rng, len(pts), idmode)
    eids = _ids(rng, len(segs), rng.choice([idmode, "gaps"]))
    desc_ids = rng.random() < 0.15       # records not in ascending id order
    if desc_ids:
        vids.reverse()
        eids.reverse()
    info["ids"] = idmode + ("/desc" if desc_ids else "")
    V = [{"id": vids[i], "x": val_of_float(pts[c][0]), "y": val_of_float(pts[c][1])} for i, c in enumerate(vorder)]
    flip_p = rng.choice([0.0, 0.5, 0.5, 1.0])
    dens_mode = rng.choice(["all", "all", "mixed", "none"])
    E, epos = [], {}
    for i, c in enumerate(eorder):
        p, q = segs[c]
        if rng.random() < flip_p:
            p, q = q, p
        epos[(p, q)] = i + 1
        epos[(q, p)] = -(i + 1)
        hd = dens_mode == "all" or (dens_mode == "mixed" and rng.random() < 0.6)
        short = rng.random() < 0.3
        dv = _no_tie(rng, rng.choice([0.0001, 0.5]), rng.choice([2.0, 9.9]), 100, not short)
        if short:
            dv = [1, dv[1], (dv[2] // 1000) * 1000, 0]           # like "density 1.02" / "density 1"
        at = 0 if hd and rng.random() < 0.7 else rng.randint(1, 5000)
        E.append({"id": eids[i], "a": vpos[p], "b": vpos[q], "hd": hd, "d": dv if hd else [1, 1, 0, 0], "at": at})
    if "bare" in defects:
        for j in rng.sample(range(len(E)), min(len(E), rng.randint(1, 3))):
            E[j].update(hd=False, d=[1, 1, 0, 0], at=0)
    info.update(flip=flip_p, dens=dens_mode)
    # --- faces -----------------------------------------------------------------------------------
    wmode = rng.choice(["se", "rand", "rand", "rand", "one", 1, 2, 3, 5, 20])
    fids = _ids(rng, len(cells), rng.choice(["dense", "offset", "gaps"]))
    F = []
    for k, cyc in enumerate(cells):
        walk = []
        for i in range(len(cyc)):
            a, b = cyc[i], cyc[(i + 1) % len(cyc)]
            ch = chain[(a, b)] if (a, b) in chain else chain[(b, a)][::-1]
            walk += ch[:-1]
        if rng.random() < 0.5:                       # clockwise face (negative area in the shipped dumps)
            walk.reverse()
        r = rng.randrange(len(walk))
        walk = walk[r:] + walk[:r]
        loop = [epos[(walk[i], walk[(i + 1) % len(walk)])] for i in range(len(walk))]
        wm = wmode if wmode != "rand" or rng.random() < 0.9 else rng.choice(["se", "one", 1])
        F.append({"id": fids[k], "loop": loop, "w": random_wrapping(rng, len(loop) + 2, wm),
                  "area": val_text(val_of_float(rng.uniform(-900, 900), rng.random() < 0.5))})
    info["wrap"] = str(wmode)
    # --- bodies ------------------------------------------------------------------------------------
    B = []
    for k, f in enumerate(F):
        m = _no_tie(rng, 0.0, rng.choice([0.1, 0.1, 3.0, 900.0]), 100, rng.random() < 0.85)
        m[0] = rng.choice([1, 1, -1])
        B.append({"id": f["id"], "f": (k + 1) * rng.choice([1, -1]), "m": m})
    if "bodies" in defects and len(B) > 1:
        first = B[:]
        while B == first:
            rng.shuffle(B)
    return {"V": V, "E": E, "F": F, "B": B}, info

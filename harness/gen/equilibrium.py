"""Analytic equilibrium tissues (DESIGN §4).

Voronoi diagram of random sites with tension = site distance is in exact force balance at every
Voronoi vertex (Maxwell reciprocal figure: the Delaunay triangle rotated by 90 degrees closes).
Its image under a Moebius map z -> (az+b)/(cz+d) has exact circular arcs, the same angles (hence
the same force balance) and consistent Young-Laplace pressure jumps T*kappa (shown in DESIGN §6.4).

Everything here is *truth supplied to the specification* (tensions, unit tangents, curvature side,
pressures); it never judges anything."""
import cmath
import math

import numpy as np

from harness.gen import voronoi


class Mobius:
    def __init__(self, a=1, b=0, c=0, d=1):
        self.a, self.b, self.c, self.d = complex(a), complex(b), complex(c), complex(d)

    def __call__(self, z):
        return (self.a * z + self.b) / (self.c * z + self.d)

    def deriv(self, z):
        return (self.a * self.d - self.b * self.c) / (self.c * z + self.d) ** 2

    @classmethod
    def random(cls, rng, strength):
        """pole at distance 1/strength-ish from the unit box centre (strength 0 = identity)"""
        if strength <= 0:
            return cls()
        ang = rng.uniform(0, 2 * math.pi)
        dist = rng.uniform(1.2, 2.5) / strength
        pole = complex(0.5, 0.5) + dist * cmath.exp(1j * ang)
        # z -> (z - q) / (z - pole) * scale, normalised so that the box centre maps near itself
        c = 1.0
        d = -pole
        a = (complex(0.5, 0.5) - pole)  # f'(centre) = (ad - bc)/(c z + d)^2 ~ 1
        b = -a * complex(0.5, 0.5) + complex(0.5, 0.5) * (complex(0.5, 0.5) - pole)
        return cls(a, b, c, d)


def circle_through(p, q, r):
    """centre (complex) and radius of the circle through three complex points, or None if collinear"""
    ax, ay, bx, by, cx, cy = p.real, p.imag, q.real, q.imag, r.real, r.imag
    d = 2 * (ax * (by - cy) + bx * (cy - ay) + cx * (ay - by))
    scale = max(abs(p - q), abs(q - r), abs(p - r)) ** 2
    if abs(d) < 1e-9 * scale:
        return None
    ux = ((ax * ax + ay * ay) * (by - cy) + (bx * bx + by * by) * (cy - ay) + (cx * cx + cy * cy) * (ay - by)) / d
    uy = ((ax * ax + ay * ay) * (cx - bx) + (bx * bx + by * by) * (ax - cx) + (cx * cx + cy * cy) * (bx - ax)) / d
    c = complex(ux, uy)
    return c, abs(p - c)


def make(rng, ncells=20, mobius_strength=0.0, tensions="maxwell"):
    """Returns a dict describing a junction-level tissue in the *model frame* (complex numbers):
    pos{vid: z}, cells[list of cycles, ccw], edges[(a, b) a<b] -> record with keys
      T (true tension), ta/tb (unit tangents at a / b pointing along the interface, complex),
      centre (complex or None), R, theta (signed turning a->b, >0 = turning left), left, right (cell idx or -1)
    """
    pos0, cells, sites, owner = voronoi.random_tissue(rng, ncells)
    f = Mobius.random(rng, mobius_strength)
    z0 = {v: complex(*p) for v, p in pos0.items()}
    pos = {v: f(z) for v, z in z0.items()}
    # which cells lie left / right of a->b (cells are ccw: a cell traversing a->b has the edge on its boundary
    # with its interior on the left)
    left, right = {}, {}
    for ci, cyc in enumerate(cells):
        n = len(cyc)
        for i in range(n):
            a, b = cyc[i], cyc[(i + 1) % n]
            if a < b:
                left[(a, b)] = ci
            else:
                right[(b, a)] = ci
    # ridge -> the two sites: recover from scipy via the owner cells when both are present, else from geometry
    vor, remap = voronoi.random_tissue.last
    ridge_sites = {}
    for (s1, s2), rv in zip(vor.ridge_points, vor.ridge_vertices):
        if -1 in rv or rv[0] not in remap or rv[1] not in remap:
            continue
        a, b = remap[rv[0]], remap[rv[1]]
        ridge_sites[(min(a, b), max(a, b))] = (s1, s2)
    edges = {}
    for e in set(left) | set(right):
        a, b = e
        if e not in ridge_sites:
            raise RuntimeError("ridge without sites")
        s1, s2 = ridge_sites[e]
        T = float(np.hypot(*(sites[s1] - sites[s2])))
        za, zb = z0[a], z0[b]
        d = (zb - za) / abs(zb - za)
        da = f.deriv(za) * d
        db = f.deriv(zb) * (-d)
        rec = {"T": T, "ta": da / abs(da), "tb": db / abs(db), "left": left.get(e, -1), "right": right.get(e, -1)}
        mid = f((za + zb) / 2)
        circ = circle_through(pos[a], mid, pos[b])
        if circ is None or circ[1] > 1e6:
            rec.update(centre=None, R=float("inf"), theta=0.0)
        else:
            c, R = circ
            a0 = cmath.phase(pos[a] - c)
            a1 = cmath.phase(pos[b] - c)
            am = cmath.phase(mid - c)
            # signed sweep from a to b passing through mid
            def norm(x):
                while x <= -math.pi:
                    x += 2 * math.pi
                while x > math.pi:
                    x -= 2 * math.pi
                return x
            d1, d2 = norm(am - a0), norm(a1 - am)
            rec.update(centre=c, R=R, theta=d1 + d2)
        edges[e] = rec
    if tensions != "maxwell":
        for e, rec in edges.items():
            rec["T"] = rng.uniform(0.4, 1.6)
    return {"pos": pos, "cells": cells, "edges": edges, "sites": sites, "mobius": f}


def interior_points(t, k, uniform=True):
    """k interior sample points per edge from a to b (a<b), on the true arc / segment (model frame)"""
    out = {}
    for (a, b), rec in t["edges"].items():
        za, zb = t["pos"][a], t["pos"][b]
        pts = []
        for j in range(1, k + 1):
            s = j / (k + 1)
            if rec["centre"] is None:
                z = za + s * (zb - za)
            else:
                c = rec["centre"]
                a0 = cmath.phase(za - c)
                z = c + rec["R"] * cmath.exp(1j * (a0 + s * rec["theta"]))
            pts.append((z.real, z.imag))
        out[(a, b)] = pts
    return out


def pressures(t):
    """analytic Young-Laplace pressures (zero mean over cells reached), by integrating T*kappa across
    interfaces that have two cells: p_left - p_right = -T * kappa_signed where theta > 0 (turning left)
    means the centre of curvature is on the left. Returns ({cell: p}, max inconsistency)."""
    ncell = len(t["cells"])
    adj = {c: [] for c in range(ncell)}
    for (a, b), rec in t["edges"].items():
        if rec["left"] >= 0 and rec["right"] >= 0:
            kappa = 0.0 if rec["centre"] is None else math.copysign(1.0 / rec["R"], rec["theta"])
            jump = rec["T"] * kappa  # p_left - p_right: centre side has the higher pressure
            adj[rec["left"]].append((rec["right"], -jump))
            adj[rec["right"]].append((rec["left"], jump))
    p, incons = {}, 0.0
    for start in range(ncell):
        if start in p or not adj[start]:
            continue
        p[start] = 0.0
        stack = [start]
        while stack:
            c = stack.pop()
            for (n, dj) in adj[c]:
                if n not in p:
                    p[n] = p[c] + dj
                    stack.append(n)
                else:
                    incons = max(incons, abs(p[n] - (p[c] + dj)))
    return p, incons

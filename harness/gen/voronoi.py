"""Random Voronoi tissues (junction-level cell complexes with float coordinates)."""
import math
import numpy as np


def poisson_sites(rng, n, box=1.0, min_frac=0.55):
    """n random sites in [0, box]^2 with a minimum spacing (dart throwing)"""
    dmin = min_frac * box / math.sqrt(n)
    pts = []
    tries = 0
    while len(pts) < n and tries < 200 * n:
        p = (rng.uniform(0, box), rng.uniform(0, box))
        tries += 1
        if all((p[0] - q[0]) ** 2 + (p[1] - q[1]) ** 2 >= dmin * dmin for q in pts):
            pts.append(p)
    return np.array(pts)


def voronoi_complex(sites, box=1.0, margin=0.02, min_edge=0.0):
    """bounded Voronoi regions entirely inside the box -> (pos {vid: (x,y)}, cells [cycle of vids] ccw,
    site index per cell). vids are 1-based. Regions with an edge shorter than min_edge*sqrt(area) are
    kept (caller filters)"""
    import scipy.spatial as sp
    with np.errstate(all="ignore"):
        vor = sp.Voronoi(sites)
    pos, cells, owner = {}, [], []
    remap = {}
    for si, ri in enumerate(vor.point_region):
        reg = vor.regions[ri]
        if not reg or -1 in reg:
            continue
        P = vor.vertices[reg]
        if (P < -margin).any() or (P > box + margin).any():
            continue
        # order ccw around the site
        c = sites[si]
        ang = np.arctan2(P[:, 1] - c[1], P[:, 0] - c[0])
        order = np.argsort(ang)
        cyc = []
        for j in order:
            v = reg[j]
            if v not in remap:
                remap[v] = len(remap) + 1
                pos[remap[v]] = (float(vor.vertices[v][0]), float(vor.vertices[v][1]))
            cyc.append(remap[v])
        if len(set(cyc)) >= 3:
            cells.append(cyc)
            owner.append(si)
    voronoi_complex.last = (vor, remap)
    return pos, cells, owner


def min_edge_length(pos, cells):
    m = float("inf")
    for cyc in cells:
        for i in range(len(cyc)):
            a, b = pos[cyc[i]], pos[cyc[(i + 1) % len(cyc)]]
            m = min(m, math.hypot(a[0] - b[0], a[1] - b[1]))
    return m


def random_tissue(rng, ncells=30, min_edge=0.02, tries=50):
    """Voronoi tissue with about ncells cells and no very short edge"""
    for _ in range(tries):
        n = int(ncells * 1.8) + 8
        sites = poisson_sites(rng, n)
        pos, cells, owner = voronoi_complex(sites)
        if len(cells) >= max(3, ncells // 2) and min_edge_length(pos, cells) >= min_edge / math.sqrt(n) * 4:
            break
    random_tissue.last = voronoi_complex.last
    return pos, cells, sites, owner

"""Offline rasteriser for C15: skeleton images inside the property's regime, and image transforms.

Pipeline: Voronoi tissue (junction-level polygons) -> Bresenham ridges -> fill pixel pockets ->
Zhang-Suen thinning -> sequential deletion of every 8-simple point and every end point (spur pruning)
until none is left (= minimal 8-connected, one pixel wide) -> >= 2 black pixels of margin -> white
one-pixel frame, exactly the layout of the shipped files (white skeleton on black, tissue is an island
in a black surrounding, white frame on the outermost ring).

Nothing here is trusted by the check: the premise is re-evaluated by TLC on the pixel summary logged
by harness/imgtopo.py. numpy / scipy / PIL only (no OpenCV, nothing from forsys)."""
import math
import os

import numpy as np
import scipy.ndimage as ndi

from harness import imgtopo

FG = 255

# ----------------------------------------------------------------------------------------------
# pixel operations
# ----------------------------------------------------------------------------------------------

def bresenham(r0, c0, r1, c1):
    """integer Bresenham line, both ends included"""
    pts = []
    dr, dc = abs(r1 - r0), abs(c1 - c0)
    sr = 1 if r1 >= r0 else -1
    sc = 1 if c1 >= c0 else -1
    err = dc - dr
    r, c = r0, c0
    while True:
        pts.append((r, c))
        if r == r1 and c == c1:
            return pts
        e2 = 2 * err
        if e2 > -dr:
            err -= dr
            c += sc
        if e2 < dc:
            err += dc
            r += sr


def _zs_tables():
    t1 = np.zeros(256, bool)
    t2 = np.zeros(256, bool)
    for code in range(256):
        b = [(code >> k) & 1 for k in range(8)]  # E NE N NW W SW S SE
        E, NE, N, NW, W, SW, S, SE = b
        seq = [N, NE, E, SE, S, SW, W, NW, N]
        B = sum(seq[:8])
        A = sum(1 for i in range(8) if seq[i] == 0 and seq[i + 1] == 1)
        if 2 <= B <= 6 and A == 1:
            t1[code] = (N * E * S == 0) and (E * S * W == 0)
            t2[code] = (N * E * W == 0) and (N * S * W == 0)
    return t1, t2


_ZS1, _ZS2 = _zs_tables()


def zhang_suen(fg):
    fg = fg.copy()
    while True:
        changed = False
        for tab in (_ZS1, _ZS2):
            codes = imgtopo.nbr_codes(fg)
            kill = fg & tab[codes]
            if kill.any():
                fg[kill] = False
                changed = True
        if not changed:
            return fg


def _code_at(fg, r, c):
    code = 0
    for k, (dr, dc) in enumerate(imgtopo.OFFS):
        if fg[r + dr, c + dc]:
            code |= 1 << k
    return code


def remove_simple(fg, order="raster"):
    """delete 8-simple points, end points and isolated points one at a time until none is left.
    The array must have a background margin of >= 1 pixel."""
    fg = fg.copy()
    while True:
        codes = imgtopo.nbr_codes(fg)
        cand = fg & ((imgtopo.NC8[codes] == 1) | (imgtopo.POP[codes] == 0))
        if not cand.any():
            return fg
        rr, cc = np.nonzero(cand)
        idx = range(len(rr)) if order == "raster" else range(len(rr) - 1, -1, -1)
        for i in idx:
            r, c = int(rr[i]), int(cc[i])
            code = _code_at(fg, r, c)
            if imgtopo.NC8[code] == 1 or imgtopo.POP[code] == 0:
                fg[r, c] = False


def fill_small_holes(fg, max_area):
    lab, n = ndi.label(~fg)
    if n == 0:
        return fg
    area = np.bincount(lab.ravel(), minlength=n + 1)
    small = np.nonzero(area <= max_area)[0]
    small = small[small > 0]
    if len(small) == 0:
        return fg
    return fg | np.isin(lab, small)


def clean(fg, max_pocket=40, order="raster"):
    """minimal 8-connected one-pixel-wide skeleton of a line drawing (fg must have a >= 2 px black margin)"""
    with np.errstate(all="ignore"):
        fg = fill_small_holes(fg, max_pocket)
        fg = zhang_suen(fg)
        fg = remove_simple(fg, order)
        # thinning can open pockets again only by deleting pixels, never creates background components
        return fg


def with_frame(fg, margin=(2, 2, 2, 2)):
    """crop fg to its bounding box, add black margins (top, bottom, left, right; each >= 2) and the white frame"""
    rr, cc = np.nonzero(fg)
    core = fg[rr.min():rr.max() + 1, cc.min():cc.max() + 1]
    t, b, l, r = margin
    img = np.zeros((core.shape[0] + t + b + 2, core.shape[1] + l + r + 2), np.uint8)
    img[1 + t:1 + t + core.shape[0], 1 + l:1 + l + core.shape[1]][core] = FG
    img[0, :] = img[-1, :] = FG
    img[:, 0] = img[:, -1] = FG
    return img


# ----------------------------------------------------------------------------------------------
# transforms (act on the full image including the frame)
# ----------------------------------------------------------------------------------------------
SYMS = ["id", "rot90", "rot180", "rot270", "flipud", "fliplr", "transpose", "antitranspose"]


def apply_sym(img, name):
    if name == "id":
        return img.copy()
    if name == "rot90":
        return np.rot90(img, 1).copy()
    if name == "rot180":
        return np.rot90(img, 2).copy()
    if name == "rot270":
        return np.rot90(img, 3).copy()
    if name == "flipud":
        return img[::-1, :].copy()
    if name == "fliplr":
        return img[:, ::-1].copy()
    if name == "transpose":
        return img.T.copy()
    if name == "antitranspose":
        return img[::-1, ::-1].T.copy()
    raise ValueError(name)


def pad(img, top, bottom, left, right, frame=True):
    """insert black rows/columns between the content and the frame (translation + padding);
    frame=False: the array is a label image whose outer ring is kept 0"""
    inner = img[1:-1, 1:-1]
    out = np.zeros((inner.shape[0] + top + bottom + 2, inner.shape[1] + left + right + 2), img.dtype)
    out[1 + top:1 + top + inner.shape[0], 1 + left:1 + left + inner.shape[1]] = inner
    if frame:
        out[0, :] = out[-1, :] = FG
        out[:, 0] = out[:, -1] = FG
    return out


def transform(img, spec, frame=True):
    """spec: {"sym": name, "pad": [t, b, l, r]} -> image (or label image with frame=False)"""
    out = apply_sym(img, spec.get("sym", "id"))
    p = spec.get("pad")
    if p and any(p):
        out = pad(out, *p, frame=frame)
    return out


def save(img, path, mode="RGB"):
    """TIFF or PNG by extension; the shipped files are RGB TIFFs"""
    from PIL import Image
    os.makedirs(os.path.dirname(path), exist_ok=True)
    im = Image.fromarray(img, mode="L")
    if mode != "L":
        im = im.convert(mode)
    im.save(path)
    return path


# ----------------------------------------------------------------------------------------------
# Voronoi tissues
# ----------------------------------------------------------------------------------------------

def _sites(rng, n, style):
    """about 4n sites around the origin: jittered triangular lattice (regular tissues, long ridges) or
    dart-throwing + Lloyd relaxation (irregular tissues)"""
    side = int(math.ceil(math.sqrt(4 * n))) + 4
    if style == "hex":
        amp = rng.uniform(0.05, 0.28)
        th = rng.uniform(0, math.pi)
        sx = rng.uniform(1.0, 1.35)
        pts = []
        for i in range(-side, side + 1):
            for j in range(-side, side + 1):
                x = i + 0.5 * j
                y = j * math.sqrt(3) / 2
                if abs(x) > side / 2 + 1 or abs(y) > side / 2 + 1:
                    continue
                a = rng.uniform(0, 2 * math.pi)
                rad = amp * math.sqrt(rng.random())
                pts.append((x + rad * math.cos(a), y + rad * math.sin(a)))
        P = np.array(pts)
        P[:, 0] *= sx
        R = np.array([[math.cos(th), -math.sin(th)], [math.sin(th), math.cos(th)]])
        return P @ R.T
    # random: dart throwing in a box, then a few Lloyd steps
    import scipy.spatial as sp
    L = side
    dmin = rng.uniform(0.55, 0.8)
    pts = []
    tries = 0
    while len(pts) < L * L and tries < 60 * L * L:
        tries += 1
        p = (rng.uniform(-L / 2, L / 2), rng.uniform(-L / 2, L / 2))
        if all((p[0] - q[0]) ** 2 + (p[1] - q[1]) ** 2 >= dmin * dmin for q in pts):
            pts.append(p)
    P = np.array(pts)
    for _ in range(rng.choice([0, 1, 2, 4])):
        vor = sp.Voronoi(P)
        Q = P.copy()
        for i, ri in enumerate(vor.point_region):
            reg = vor.regions[ri]
            if reg and -1 not in reg:
                V = vor.vertices[reg]
                if np.abs(V).max() < L:
                    Q[i] = V.mean(axis=0)
        P = Q
    return P


def voronoi_tissue(rng, ncells, style):
    """-> (V: array of vertex coordinates, ridges: list of (a, b) vertex indices to draw, cells: list of polygons
    as vertex index lists) of a compact blob of `ncells` Voronoi cells; None if not enough complete cells"""
    import scipy.spatial as sp
    with np.errstate(all="ignore"):
        P = _sites(rng, ncells, style)
        vor = sp.Voronoi(P)
        ext = np.abs(P).max()
        complete = {}
        for i, ri in enumerate(vor.point_region):
            reg = vor.regions[ri]
            if reg and -1 not in reg and np.abs(vor.vertices[reg]).max() < ext:
                complete[i] = reg
        nbr = {}
        for (p, q), rv in zip(vor.ridge_points.tolist(), vor.ridge_vertices):
            if p in complete and q in complete and -1 not in rv:
                nbr.setdefault(p, []).append(q)
                nbr.setdefault(q, []).append(p)
        if len(complete) < ncells:
            return None
        centre = np.array([rng.uniform(-0.5, 0.5), rng.uniform(-0.5, 0.5)])
        rag = rng.choice([0.0, 0.3, 0.8])
        start = min(complete, key=lambda i: float(np.hypot(*(P[i] - centre))))
        chosen = [start]
        inset = {start}
        while len(chosen) < ncells:
            front = sorted({q for p in chosen for q in nbr.get(p, []) if q not in inset})
            if not front:
                return None
            nxt = min(front, key=lambda i: float(np.hypot(*(P[i] - centre))) + rag * rng.random())
            chosen.append(nxt)
            inset.add(nxt)
        ridges = []
        for (p, q), rv in zip(vor.ridge_points.tolist(), vor.ridge_vertices):
            if (p in inset or q in inset) and -1 not in rv:
                ridges.append((int(rv[0]), int(rv[1])))
        cells = [list(complete[i]) for i in chosen]
        return vor.vertices, ridges, cells


def geometry_stats(V, ridges):
    """(shortest ridge, smallest angle between consecutive ridges around any vertex [degrees])"""
    with np.errstate(all="ignore"):
        inc = {}
        lmin = float("inf")
        for a, b in ridges:
            d = V[b] - V[a]
            lmin = min(lmin, float(np.hypot(*d)))
            inc.setdefault(a, []).append(math.atan2(d[1], d[0]))
            inc.setdefault(b, []).append(math.atan2(-d[1], -d[0]))
        amin = 360.0
        for v, angs in inc.items():
            if len(angs) < 2:
                continue
            angs = sorted(angs)
            for i in range(len(angs)):
                g = (angs[(i + 1) % len(angs)] - angs[i]) % (2 * math.pi)
                if len(angs) == 2 and g > math.pi:
                    g = 2 * math.pi - g
                amin = min(amin, math.degrees(g))
        return lmin, amin


def polygon_area(V, cyc):
    x = V[cyc, 0]
    y = V[cyc, 1]
    return 0.5 * abs(float(np.dot(x, np.roll(y, 1)) - np.dot(y, np.roll(x, 1))))


def draw(V, ridges, scale, margin=4):
    """Bresenham drawing of the ridges at `scale` px per unit -> bool array with a black margin"""
    with np.errstate(all="ignore"):
        used = sorted({v for r in ridges for v in r})
        X = V[used] * scale
        X = X - X.min(axis=0)
        pix = {v: (int(round(X[i, 1])) + margin, int(round(X[i, 0])) + margin) for i, v in enumerate(used)}
        H = max(p[0] for p in pix.values()) + margin + 1
        W = max(p[1] for p in pix.values()) + margin + 1
        fg = np.zeros((H, W), bool)
        for a, b in ridges:
            for r, c in bresenham(*pix[a], *pix[b]):
                fg[r, c] = True
        return fg


def voronoi_image(rng, ncells, px, style=None, min_ridge_px=14.0, min_angle=28.0, tries=400):
    """skeleton image of a Voronoi tissue in the regime of C15 -> (img uint8 with frame, meta) or (None, None).
    ncells 4..60, px = sqrt(mean cell area) in pixels, 35..90."""
    style = style or ("hex" if ncells > 14 else rng.choice(["random", "random", "hex"]))
    for attempt in range(tries):
        if attempt == tries // 2:
            style = "hex"       # irregular tissues with only long ridges are rare: fall back to the regular family
        t = voronoi_tissue(rng, ncells, style)
        if t is None:
            continue
        V, ridges, cells = t
        mean_area = float(np.mean([polygon_area(V, c) for c in cells]))
        scale = px / math.sqrt(mean_area)
        lmin, amin = geometry_stats(V, ridges)
        if lmin * scale < min_ridge_px or amin < min_angle:
            continue
        fg = clean(draw(V, ridges, scale), order=rng.choice(["raster", "reverse"]))
        if not fg.any():
            continue
        m = tuple(rng.choice([2, 2, 3, 5, 9]) for _ in range(4))
        img = with_frame(fg, m)
        meta = {"gen": "voronoi", "style": style, "ncells": ncells, "px": px, "attempt": attempt,
                "min_ridge_mpx": int(lmin * scale * 1000), "min_angle_mdeg": int(amin * 1000)}
        return img, meta
    return None, None


# ----------------------------------------------------------------------------------------------
# images from the MC_Skeleton model
# ----------------------------------------------------------------------------------------------

def junction_image(window, exits, n, radius=26, order="raster"):
    """Embed a (2n+1)x(2n+1) junction window enumerated by MC_Skeleton (pixel set `window`, coordinates
    (dx, dy) in -n..n with dy growing downwards; `exits` = the three pixels on the window's ring where the arms
    leave) in a three-cell tissue: every arm is continued as a digital ray in its own direction up to a
    square outline at Chebyshev distance `radius`. The outside of the window is cleaned with the standard
    pipeline; the window itself is kept as emitted (the caller logs whether it survived unchanged)."""
    size = 2 * radius + 1 + 8
    c0 = size // 2
    fg = np.zeros((size, size), bool)
    for dx, dy in window:
        fg[c0 + dy, c0 + dx] = True
    for dx, dy in exits:
        k = radius / max(abs(dx), abs(dy))
        ex, ey = int(round(dx * k)), int(round(dy * k))
        for r, c in bresenham(c0 + dy, c0 + dx, c0 + ey, c0 + ex):
            fg[r, c] = True
    for t in range(-radius, radius + 1):
        fg[c0 - radius, c0 + t] = fg[c0 + radius, c0 + t] = True
        fg[c0 + t, c0 - radius] = fg[c0 + t, c0 + radius] = True
    before = fg[c0 - n:c0 + n + 1, c0 - n:c0 + n + 1].copy()
    fg = clean(fg, max_pocket=6, order=order)
    after = fg[c0 - n:c0 + n + 1, c0 - n:c0 + n + 1]
    return with_frame(fg, (3, 3, 3, 3)), bool((before == after).all())


def rectilinear_image(nx, ny, hwalls, vwalls, cell=12, order="raster"):
    """Pixel tissue on a coarse nx x ny grid of square rooms (MC_Skeleton, rectilinear part): the outer wall is
    always drawn; hwalls[j][i] (j in 0..ny-2, i in 0..nx-1) = wall below room (i, j); vwalls[j][i]
    (j in 0..ny-1, i in 0..nx-2) = wall right of room (i, j). Cleaned to minimal 8-connectivity."""
    H, W = ny * cell + 1, nx * cell + 1
    fg = np.zeros((H + 8, W + 8), bool)
    o = 4
    fg[o, o:o + W] = fg[o + H - 1, o:o + W] = True
    fg[o:o + H, o] = fg[o:o + H, o + W - 1] = True
    for j in range(ny - 1):
        for i in range(nx):
            if hwalls[j][i]:
                fg[o + (j + 1) * cell, o + i * cell:o + (i + 1) * cell + 1] = True
    for j in range(ny):
        for i in range(nx - 1):
            if vwalls[j][i]:
                fg[o + j * cell:o + (j + 1) * cell + 1, o + (i + 1) * cell] = True
    fg = clean(fg, max_pocket=0, order=order)
    return with_frame(fg, (2, 2, 2, 2))

"""Series and observer of the extension check `tsqueries` (the query surface of a time series).

Two sources of series:
  * instance_series(inst, seed)  an instance emitted by MC_SeriesQueries: per frame k tracked vertices with exact
                                 integer positions, a dict order and per step the guess handed to the tracker. Every
                                 frame becomes a REAL mesh whose only interface end points are those vertices
                                 (k >= 3: the "necklace" of gen/series.py, k = 2: two cells sharing an interface), with
                                 random real ids (gaps, id 0), embedded exactly (dyadic scale, integer shift).
  * random_series(seed, big)     the multi-frame catalogue / Voronoi series of gen/series.py (independent numbering per
                                 frame, unequal stamps, vertices that disappear, partial / wrong guesses).

observe(case, ser, ...) runs one series through real Frame / ForSys / TimeSeries objects and logs the events judged by
spec/Trace_SeriesQueries.tla.  It only projects (real ids -> dense indices per frame: interface end points first;
floats -> fixed point relative to an integer origin); it judges nothing.
"""
import json
import math
import os
import random

import numpy as np

from harness.gen import series

QS = 1000000


def _fx(x):
    v = int(round(float(x) * QS))
    if abs(v) >= 2000 * QS:
        raise OverflowError("fixed-point value out of range")
    return v


# ------------------------------------------------------------------------------------------------
# meshes
# ------------------------------------------------------------------------------------------------
def theta_desc(sites, order, rng):
    """two junctions joined by three arcs (one two-edge mid vertex each): two cells sharing an interface.
    Returns (desc, {site: vertex id})."""
    from harness.build import edges_from_cells
    a, b = np.array(sites[0], float), np.array(sites[1], float)
    ch = b - a
    nrm = np.array([-ch[1], ch[0]])
    ids = rng.sample(range(0, 24), 5)
    jid = {1: ids[0], 2: ids[1]}
    m1, m2, m3 = ids[2:]
    mid = (a + b) / 2
    coords = {jid[1]: a, jid[2]: b, m1: mid + 0.31 * nrm, m2: mid + 0.023 * nrm, m3: mid - 0.27 * nrm}
    mids = [m1, m2, m3]
    rng.shuffle(mids)
    vorder = []
    for s in order:
        while mids and rng.random() < 0.5:
            vorder.append(mids.pop())
        vorder.append(jid[s])
    vorder += mids
    V = [[v, float(coords[v][0]), float(coords[v][1])] for v in vorder]
    cid = rng.sample(range(0, 9), 2)
    C = [[cid[0], [jid[1], m1, jid[2], m2]], [cid[1], [jid[1], m2, jid[2], m3]]]
    E = edges_from_cells(C, first_id=rng.choice([0, 3, 50]))
    return {"V": V, "E": E, "C": C}, jid


def site_mesh(sites, order, rng):
    if len(sites) >= 3:
        return series.necklace_desc(sites, order, rng)
    return theta_desc(sites, order, rng)


def instance_series(inst, seed):
    """MC_SeriesQueries instance -> series dict. inst = {nf, k[F], pos[F][i], ord[F], guess[f] (pairs), stamps[F],
    none[f], map[f], far, queries}"""
    rng = random.Random(seed)
    nf = inst["nf"]
    scale = rng.choice([0.125, 0.125, 0.0625])
    tx, ty = rng.randrange(-40, 41), rng.randrange(-40, 41)
    emb = lambda p: (scale * (p[0] + tx), scale * (p[1] + ty))
    descs, ids = [], []
    for f in range(nf):
        k = inst["k"][f]
        d, j = site_mesh([emb(p) for p in inst["pos"][f][:k]], list(inst["ord"][f]), rng)
        descs.append(d)
        ids.append({p: j[p] for p in range(1, k + 1)})
    guess = {f: {ids[f][a]: (ids[f + 1][b] if b else None) for a, b in inst["guess"][f]} for f in range(nf - 1)}
    want = [{"none": bool(inst["none"][f]), "map": list(inst["map"][f])} for f in range(nf - 1)]
    return {"kind": "mc", "src": "mc", "nf": nf, "descs": descs, "ids": ids, "times": [float(t) for t in inst["stamps"][:nf]],
            "cm": False, "guess": guess, "exact": {"scale": scale, "tx": tx, "ty": ty}, "want": want,
            "far": bool(inst.get("far")), "queries": [(q["q"], list(q["a"])) for q in inst["queries"]]}


def query_groups(nf, rng, cap=4):
    """the query groups of MC_SeriesQueries!QueryGroups for a series of nf frames (all of them up to `cap` frames,
    a random sample of the spans beyond)"""
    ts = list(range(nf))
    pairs = [(a, b) for a in ts for b in ts]
    vp = [(a, m) for a in ts for m in [-1] + list(range(a + 1, nf + 1))]
    ve = [(a, b) for a in ts for b in range(a + 1, nf + 1)]
    if nf > cap:
        pairs = rng.sample(pairs, 14) + [(0, nf - 1), (nf - 1, 0)]
        vp = rng.sample(vp, 8) + [(0, -1), (0, nf)]
        ve = rng.sample(ve, 6) + [(0, nf)]
    out = [("pbm", list(x)) for x in pairs] + [("vpos", list(x)) for x in vp] + [("vel", [t]) for t in ts] + \
          [("wvel", [t]) for t in ts] + ([("wacc", [t]) for t in ts] if nf >= 3 else []) + \
          [("vedge", list(x)) for x in ve] + [("ttu", [L]) for L in [-2, -1] + list(range(1, nf + 1))] + \
          [("cm", [t]) for t in ts] + [("export", [0])]
    return out


def random_series(seed, big=False):
    """a series of gen/series.py in this module's format (queries drawn here)"""
    ser = series.random_series(seed, big)
    rng = random.Random(seed * 7 + 1)
    ser = dict(ser)
    ser["want"] = []
    ser["far"] = False
    ser["exact"] = None
    ser["queries"] = query_groups(ser["nf"], rng)
    return ser


# ------------------------------------------------------------------------------------------------
# observer
# ------------------------------------------------------------------------------------------------
_CODES = {"KeyError": -3, "AttributeError": -4, "DifferentTissueException": -2}


def _code(exc):
    return _CODES.get(type(exc).__name__, -5)


def _scalar(x):
    with np.errstate(all="ignore"):
        if x is None or (isinstance(x, float) and math.isnan(x)) or np.isnan(x):
            return [0, 0]
        try:
            return [1, _fx(x)]
        except OverflowError:
            return [-6, 0]


def _round3(v):
    return all(abs(float(x) * 1000 - round(float(x) * 1000)) < 1e-6 for x in v)


class _Session:
    """one constructed ForSys on fresh frames + the projection tables"""

    def __init__(self, ser, cm, guess, tmpdir, tag):
        import forsys as fs
        from harness import build
        self.fs = fs
        nf = ser["nf"]
        self.nf = nf
        self.frames = {}
        for f in range(nf):
            V, E, C = build.build_mesh(ser["descs"][f])
            self.frames[f] = fs.frames.Frame(f, V, E, C, time=ser["times"][f])
            del V, E, C
        self.before = [{v.id: (v.x, v.y) for v in self.frames[f].vertices.values()} for f in range(nf)]
        self.cm_before = []
        for f in range(nf):
            try:
                self.cm_before.append((fs.time_series.TimeSeries.get_cm_coords(self.frames[f].vertices), ""))
            except Exception as exc:
                self.cm_before.append((None, type(exc).__name__))
        # tracked vertices = interface end points; dense order given by the series (model ids) or by real id
        self.tracked, self.idx, self.order_all = [], [], []
        for f in range(nf):
            fr = self.frames[f]
            ends = set()
            for be in fr.big_edges_list:
                ends.add(int(be[0]))
                ends.add(int(be[-1]))
            given = ser.get("dense", [None] * nf)[f] if ser.get("dense") else None
            if ser["kind"] == "mc":
                tr = [ser["ids"][f][p] for p in sorted(ser["ids"][f])]
                if set(tr) != ends:
                    raise RuntimeError(f"frame {f}: interface end points {sorted(ends)} are not the sites {sorted(tr)}")
            else:
                tr = given or sorted(ends)
            others = sorted(v for v in fr.vertices if v not in ends)
            self.tracked.append(tr)
            self.order_all.append(tr + others)
            self.idx.append({v: i + 1 for i, v in enumerate(tr + others)})
        self.guess = guess
        self.raised = ""
        self.sess = None
        try:
            self.sess = fs.ForSys(self.frames, cm=cm, initial_guess=guess)
        except Exception as exc:
            self.raised = type(exc).__name__
        self.cm = cm
        self.mesh = self.sess.mesh if self.sess is not None else None

    def k(self, f):
        return len(self.tracked[f])

    def dense_tracked(self, f, vid):
        """dense index of a TRACKED vertex of frame f, -1 for anything else"""
        i = self.idx[f].get(vid, -1)
        return i if 0 < i <= self.k(f) else -1

    def maps(self):
        out = []
        for f in range(self.nf - 1):
            m = self.mesh.mapping.get(f, None) if self.mesh is not None and isinstance(self.mesh.mapping, dict) else None
            if m is None:
                out.append({"none": True, "pairs": []})
            else:
                out.append({"none": False, "pairs": [[self.dense_tracked(f, a), 0 if b is None else self.dense_tracked(f + 1, b)]
                                                      for a, b in m.items()]})
        return out

    def origin(self):
        xs = [p[0] for f in range(self.nf) for p in self.before[f].values()] + \
             [v.x for f in range(self.nf) for v in self.frames[f].vertices.values()]
        ys = [p[1] for f in range(self.nf) for p in self.before[f].values()] + \
             [v.y for f in range(self.nf) for v in self.frames[f].vertices.values()]
        return math.floor(min(xs)) - 1, math.floor(min(ys)) - 1

    def positions(self, o):
        return [[[_fx(self.frames[f].vertices[v].x - o[0]), _fx(self.frames[f].vertices[v].y - o[1])] for v in self.order_all[f]]
                for f in range(self.nf)]


def _series_event(case, ser, S, second, o):
    nf = S.nf
    ex = ser["exact"]
    e = {"case": case, "ev": "Series", "second": second, "cm": bool(S.cm), "exact": ex is not None, "far": bool(ser.get("far")),
         "raised": S.raised, "nf": nf, "k": [S.k(f) for f in range(nf)], "n": [len(S.order_all[f]) for f in range(nf)],
         "times": [_fx(t) for t in ser["times"]], "origin": [_fx(o[0]), _fx(o[1])], "src": ser.get("src", "")}
    e["fpos0"] = [[[_fx(S.before[f][v][0] - o[0]), _fx(S.before[f][v][1] - o[1])] for v in S.order_all[f]] for f in range(nf)]
    e["fpos"] = S.positions(o)
    e["unchanged"] = [all(S.before[f][v.id] == (v.x, v.y) for v in S.frames[f].vertices.values()) for f in range(nf)]
    if ex is not None:
        e["gpos"] = [[[int(round(S.before[f][v][0] / ex["scale"] - ex["tx"])), int(round(S.before[f][v][1] / ex["scale"] - ex["ty"]))]
                      for v in S.tracked[f]] for f in range(nf)]
        e["want"] = ser["want"]
    else:
        e["gpos"], e["want"] = [], []
    e["ord"] = [[S.idx[f][v] for v in S.frames[f].vertices.keys() if 0 < S.idx[f][v] <= S.k(f)] for f in range(nf)]
    g, gok = [], True
    for f in range(nf - 1):
        row = []
        for a, b in (S.guess.get(f, {}) or {}).items():
            da = S.dense_tracked(f, a)
            db = 0 if b is None else S.dense_tracked(f + 1, b)
            gok = gok and da > 0 and db >= 0
            row.append([da, db])
        g.append(row)
    e["guess"], e["guess_ok"] = g, gok
    e["maps"] = S.maps() if S.sess is not None else []
    e["ifc"] = [[[S.dense_tracked(f, int(be[0])), S.dense_tracked(f, int(be[-1]))] for be in S.frames[f].big_edges_list] for f in range(nf)]
    cache = []
    for f in range(nf):
        seen = []
        for be in S.frames[f].big_edges.values():
            for x, y, v in zip(be.xs, be.ys, be.vertices):
                d = [_fx(x - v.x), _fx(y - v.y)]
                if d not in seen:
                    seen.append(d)
        cache.append(seen)
    e["cache"] = cache
    e["round3"] = True
    if S.cm:
        e["round3"] = all(_round3((S.before[f][v.id][0] - v.x, S.before[f][v.id][1] - v.y))
                          for f in range(nf) for v in list(S.frames[f].vertices.values())[:1])
    e["ttu"], e["ttu_raised"] = [], ""
    if S.sess is not None:
        try:
            e["ttu"] = [int(t) for t in S.sess.times_to_use]
        except Exception as exc:
            e["ttu_raised"] = type(exc).__name__
    return e


def _ask(case, S, o, q, a, tmpdir, tag):
    """one query group -> list of events"""
    mesh, nf = S.mesh, S.nf
    if q == "pbm":
        t0, t1 = a
        res = []
        for vid in S.tracked[t0]:
            try:
                r = mesh.get_point_id_by_map(vid, t0, t1)
                res.append(0 if r is None else S.dense_tracked(t1, r))
            except Exception as exc:
                res.append(_code(exc))
        return [{"case": case, "ev": "PBM", "t0": t0, "t1": t1, "res": res}]
    if q == "vpos":
        t0, tm = a
        rows = []
        for vid in S.tracked[t0]:
            try:
                xs, ys = mesh.get_vertex_position(vid, t0, tm)
                rows.append([1, [_fx(x - o[0]) for x in xs], [_fx(y - o[1]) for y in ys]])
            except OverflowError:
                raise
            except Exception as exc:
                rows.append([_code(exc), [], []])
        return [{"case": case, "ev": "VPos", "t0": t0, "tmax": tm, "rows": rows}]
    if q == "vel":
        t = a[0]
        vel = []
        for vid in S.tracked[t]:
            try:
                v = mesh.calculate_velocity(vid, t)
                try:
                    vel.append([1, _fx(v[0]), _fx(v[1])])
                except OverflowError:
                    vel.append([-6, 0, 0])
            except Exception as exc:
                vel.append([_code(exc), 0, 0])
        return [{"case": case, "ev": "Vel", "t": t, "vel": vel}]
    if q in ("wvel", "wacc"):
        t = a[0]
        e = {"case": case, "ev": "WVel" if q == "wvel" else "WAcc", "t": t, "keys": [], "vals": [], "raised": ""}
        try:
            res = dict((mesh.whole_tissue_velocity if q == "wvel" else mesh.whole_tissue_acceleration)(t))
            ks = sorted(res.keys())
            e["keys"] = [int(k) for k in ks]
            e["vals"] = [_scalar(res[k]) for k in ks]
        except Exception as exc:
            e["raised"] = type(exc).__name__
        return [e]
    if q == "vedge":
        t0, t1 = a
        rows = []
        for k in range(len(S.frames[t0].big_edges_list)):
            try:
                rows.append([1, [_scalar(x) for x in mesh.velocity_per_edge(k, t0, t1)]])
            except Exception as exc:
                rows.append([_code(exc), []])
        return [{"case": case, "ev": "VEdge", "t0": t0, "t1": t1, "rows": rows}]
    if q == "ttu":
        L = a[0]
        e = {"case": case, "ev": "TTU", "arg": L, "res": [], "raised": ""}
        try:
            r = mesh.times_to_use() if L == -1 else mesh.times_to_use(True) if L == -2 else mesh.times_to_use(L)
            e["res"] = [int(x) for x in r]
        except Exception as exc:
            e["raised"] = type(exc).__name__
        return [e]
    if q == "cm":
        t = a[0]
        out = []
        c, rs = S.cm_before[t]
        out.append({"case": case, "ev": "CM", "t": t, "before": True, "raised": rs,
                    "res": [0, 0] if c is None else [_fx(c[0] - o[0]), _fx(c[1] - o[1])], "round3": c is None or _round3(c)})
        try:
            c, rs = S.fs.time_series.TimeSeries.get_cm_coords(S.frames[t].vertices), ""
        except Exception as exc:
            c, rs = None, type(exc).__name__
        out.append({"case": case, "ev": "CM", "t": t, "before": False, "raised": rs,
                    "res": [0, 0] if c is None else [_fx(c[0] - o[0]), _fx(c[1] - o[1])], "round3": c is None or _round3(c)})
        return out
    if q == "export":
        return [_export(case, S, tmpdir, tag)[0]]
    raise ValueError(q)


def _parse_export(S, text):
    """projection of the exported file: top-level keys, per step [none, pairs] in dense indices"""
    obj = json.loads(text)
    steps = [int(k) if str(k).lstrip("-").isdigit() else -99 for k in obj.keys()] if isinstance(obj, dict) else [-99]
    maps = []
    for f in range(S.nf - 1):
        if not isinstance(obj, dict) or str(f) not in obj:
            maps.append({"none": False, "pairs": [[-9, -9]]})
            continue
        m = obj[str(f)]
        if m is None:
            maps.append({"none": True, "pairs": []})
        else:
            maps.append({"none": False, "pairs": [[S.dense_tracked(f, int(a)) if str(a).isdigit() else -9,
                                                   0 if b is None else S.dense_tracked(f + 1, b)] for a, b in m.items()]})
    return steps, maps


def _export(case, S, tmpdir, tag):
    path = os.path.join(tmpdir, f"export-{tag}.json")
    e = {"case": case, "ev": "Export", "parse_ok": False, "steps": [], "maps": [], "raised": ""}
    try:
        S.mesh.export_mapping(path)
    except Exception as exc:
        e["raised"] = type(exc).__name__
        return e, path
    try:
        e["steps"], e["maps"] = _parse_export(S, open(path).read())
        e["parse_ok"] = True
    except Exception:
        pass
    return e, path


def _entries(d):
    """{k: {a: b}} -> [[k, [[a, b], ..]], ..] (None -> -1)"""
    return [[int(k), [[int(a), -1 if b is None else int(b)] for a, b in v.items()]] for k, v in d.items()]


def load_event(case, guess, mn, mx, tmpdir, tag, missing=False):
    """write `guess` ({frame: {id: id}}) in the documented file format, read it back with auxiliar.load_initial_guess;
    returns (event, loaded dict or None)"""
    import forsys as fs
    path = os.path.join(tmpdir, f"guess-{tag}.json")
    if missing:
        path += ".absent"
    else:
        with open(path, "w") as f:
            json.dump({str(k): {str(a): b for a, b in v.items()} for k, v in guess.items()}, f)
    e = {"case": case, "ev": "Load", "file": _entries(guess), "mn": mn, "mx": mx, "missing": missing, "res": [], "ints": True,
         "raised": ""}
    loaded = None
    try:
        loaded = fs.auxiliar.load_initial_guess(path, mn, mx)
        e["res"] = _entries(loaded)
        e["ints"] = all(type(k) is int for k in loaded) and all(type(a) is int for v in loaded.values() for a in v)
    except Exception as exc:
        e["raised"] = type(exc).__name__
    if not missing:
        os.remove(path)
    return e, loaded


def _filter_none(case, S, t):
    e = {"case": case, "ev": "FilterNone", "t": t, "moved": 0, "shift": [0, 0], "raised": ""}
    fr = S.frames[t]
    pos1 = {v.id: (v.x, v.y) for v in fr.vertices.values()}
    try:
        fr.filter_edges("none")
    except Exception as exc:
        e["raised"] = type(exc).__name__
        return e
    moved = [(v.x - pos1[v.id][0], v.y - pos1[v.id][1]) for v in fr.vertices.values() if pos1[v.id] != (v.x, v.y)]
    e["moved"] = len(moved)
    if moved:
        e["shift"] = [_fx(moved[0][0]), _fx(moved[0][1])]
    return e


def observe(case, ser, qseed, tmpdir):
    """events of one case: Load (the guess goes through a guess file), Series, the query groups in a seeded order, After,
    Reload (export -> load_initial_guess -> a second object on fresh frames), FilterNone; then the same series on fresh frames
    with cm=True: Series(second), Vel*, CM*, WVel, After, FilterNone."""
    rng = random.Random(qseed)
    os.makedirs(tmpdir, exist_ok=True)
    tag = f"{os.getpid()}-{case}"
    nf = ser["nf"]
    evs = []
    guess = {int(f): {int(a): (None if b is None else int(b)) for a, b in g.items()} for f, g in ser["guess"].items()}
    mn = rng.choice([0, 0, 2, 5])
    le, loaded = load_event(case, guess, mn, mn + nf, tmpdir, tag)
    evs.append(le)
    S = _Session(ser, False, loaded if loaded is not None else guess, tmpdir, tag)
    o = S.origin()
    evs.append(_series_event(case, ser, S, False, o))
    if S.sess is None or not isinstance(S.mesh, S.fs.time_series.TimeSeries):
        return evs
    queries = list(ser["queries"])
    rng.shuffle(queries)
    for q, a in queries:
        evs += _ask(case, S, o, q, a, tmpdir, tag)
    evs.append({"case": case, "ev": "After", "maps": S.maps(), "fpos": S.positions(o)})
    # export -> load_initial_guess -> second object
    ee, path = _export(case, S, tmpdir, tag + "r")
    re_ = {"case": case, "ev": "Reload", "maps": [], "raised": "", "stage": ""}
    if ee["raised"]:
        re_["raised"], re_["stage"] = ee["raised"], "export"
    else:
        try:
            g2 = S.fs.auxiliar.load_initial_guess(path, 0, nf)
            re_["stage"] = "construct"
            S2 = _Session(ser, False, g2, tmpdir, tag)
            if S2.sess is None:
                re_["raised"] = S2.raised
            else:
                # the second object numbers nothing differently: same descs -> same real ids
                re_["maps"] = S2.maps()
            del S2
        except Exception as exc:
            re_["raised"], re_["stage"] = type(exc).__name__, re_["stage"] or "load"
    if os.path.exists(path):
        os.remove(path)
    evs.append(re_)
    evs.append(_filter_none(case, S, rng.randrange(nf)))
    # ---- the same series with cm=True on fresh frames ----------------------------------------------------
    S3 = _Session(ser, True, loaded if loaded is not None else guess, tmpdir, tag)
    o3 = S3.origin()
    evs.append(_series_event(case, ser, S3, True, o3))
    if S3.sess is None:
        return evs
    for t in range(nf):
        evs += _ask(case, S3, o3, "vel", [t], tmpdir, tag)
    for t in sorted(rng.sample(range(nf), min(nf, 2))):
        evs += _ask(case, S3, o3, "cm", [t], tmpdir, tag)
        evs += _ask(case, S3, o3, "wvel", [t], tmpdir, tag)
    evs += _ask(case, S3, o3, "pbm", [0, nf - 1], tmpdir, tag)
    evs += _ask(case, S3, o3, "vpos", [0, -1], tmpdir, tag)
    evs.append({"case": case, "ev": "After", "maps": S3.maps(), "fpos": S3.positions(o3)})
    evs.append(_filter_none(case, S3, rng.randrange(nf)))
    return evs


def observe_single(case, seed):
    """a session with ONE frame: ForSys.mesh is the empty dict, stores keyed by the frame, static inference works"""
    import forsys as fs
    from harness import build
    rng = random.Random(seed)
    k = rng.choice([3, 4, 5])
    sites = [(10 * math.cos(2 * math.pi * i / k) + rng.uniform(-1, 1), 10 * math.sin(2 * math.pi * i / k) + rng.uniform(-1, 1))
             for i in range(k)]
    d, _ = series.necklace_desc(sites, list(range(1, k + 1)), rng)
    V, E, C = build.build_mesh(d)
    key = 0      # ForSys numbers its stores 0..n-1: the frames dictionary is keyed from 0
    fr = fs.frames.Frame(key, V, E, C, time=rng.uniform(0, 5))
    del V, E, C
    e = {"case": case, "ev": "Single", "mesh_empty": False, "has_ttu": False, "stores_ok": False, "static_ok": False, "raised": "",
         "key": key}
    try:
        s = fs.ForSys({key: fr})
        e["mesh_empty"] = isinstance(s.mesh, dict) and len(s.mesh) == 0
        e["has_ttu"] = hasattr(s, "times_to_use")
        e["stores_ok"] = isinstance(s.forces, dict) and isinstance(s.pressures, dict) and list(s.forces) == [key] and list(s.pressures) == [key]
        try:
            s.build_force_matrix(when=key)
            e["static_ok"] = s.force_matrices[key] is not None
        except Exception:
            e["static_ok"] = False
    except Exception as exc:
        e["raised"] = type(exc).__name__
    return [e]


def observe_loads(case, seed, tmpdir):
    """load_initial_guess on its own: files with keys inside / outside the window, gaps, a null value, a missing file"""
    rng = random.Random(seed)
    os.makedirs(tmpdir, exist_ok=True)
    evs = []
    for j in range(6):
        nfr = rng.choice([1, 2, 3, 5])
        keys = rng.sample(range(0, nfr + 3), rng.randrange(0, min(4, nfr + 3)))
        guess = {}
        for k in keys:
            ids = rng.sample(range(0, 60), rng.randrange(0, 4) * 2)
            guess[k] = {ids[2 * i]: (None if rng.random() < 0.15 else ids[2 * i + 1]) for i in range(len(ids) // 2)}
        mn = rng.choice([0, 0, 1, 4, 10])
        e, _ = load_event(case, guess, mn, mn + nfr, tmpdir, f"{os.getpid()}-{case}-{j}", missing=(j == 5))
        evs.append(e)
    return evs

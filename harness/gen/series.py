"""Multi-frame series for C12 (vertex tracking) and C13 (velocities), and the observer that runs a
series through the real `Frame` / `ForSys` / `TimeSeries` / `ForceMatrix` objects and logs trace events.

A series is a list of mesh descriptions (harness.build format), one *fresh* mesh per frame, each
independently renumbered (random vertex ids with gaps, random dict order), plus the truth kept by the
generator: for every frame the map  physical vertex -> vertex id in that frame.

Physical universe of a series = the vertices of the base complex (junction-level vertices, including
border corners with two edges); interior sample points are rebuilt per frame and are not tracked.

Two sources:
  * random_series(seed, ...)   catalogue / Voronoi tissues, displacement fields (random, affine, flowing)
                               inside, near and outside the bounds of C12, 2..6 frames, unequal stamps,
                               partial (sometimes wrong) initial_guess, cm on/off, a border cell removed
                               from some frame on (vertices that disappear)
  * necklace_series(inst, ...) an integer instance emitted by MC_Tracking: the N junction sites become the
                               only junctions of a real mesh ("necklace": N lens cells around an inner cell),
                               numbered (dict order) exactly as the instance says.
"""
import math
import random

import numpy as np

from harness import tissue
from harness.gen import catalogue, voronoi

GRID = 30000          # fine integer grid on which TLC evaluates the premise of C12
QS = 1000000


# ------------------------------------------------------------------------------------------------
# helpers
# ------------------------------------------------------------------------------------------------
def relabel(desc, rng, vmap_out):
    """random vertex / edge / cell ids with gaps, random storage order; vmap_out: old vid -> new vid"""
    vids = [v[0] for v in desc["V"]]
    new = rng.sample(range(0, 3 * len(vids) + 20), len(vids))
    vm = dict(zip(vids, new))
    eids = [e[0] for e in desc["E"]]
    em = dict(zip(eids, rng.sample(range(0, 3 * len(eids) + 20), len(eids))))
    cids = [c[0] for c in desc["C"]]
    cm = dict(zip(cids, rng.sample(range(0, 3 * len(cids) + 20), len(cids))))
    V = [[vm[v], x, y] for v, x, y in desc["V"]]
    rng.shuffle(V)
    E = [[em[e], vm[a], vm[b]] for e, a, b in desc["E"]]
    rng.shuffle(E)
    C = [[cm[c], [vm[v] for v in cyc]] for c, cyc in desc["C"]]
    rng.shuffle(C)
    vmap_out.update(vm)
    return {"V": V, "E": E, "C": C}


def degrees(cells):
    edges, _ = tissue.base_edges(cells)
    deg = {}
    for a, b in edges:
        deg[a] = deg.get(a, 0) + 1
        deg[b] = deg.get(b, 0) + 1
    return deg


def spacing_extent(pos, junctions):
    P = np.array([pos[j] for j in junctions], float)
    if len(P) < 2:
        return 1.0, 1.0
    with np.errstate(all="ignore"):
        d = np.sqrt(((P[:, None, :] - P[None, :, :]) ** 2).sum(-1))
        d[np.diag_indices(len(P))] = np.inf
        ext = max(P[:, 0].max() - P[:, 0].min(), P[:, 1].max() - P[:, 1].min())
    return float(d.min()), float(ext)


def displacement_field(rng, kind, pos, amp):
    """displacement per vertex, largest magnitude = amp"""
    keys = list(pos.keys())
    P = np.array([pos[k] for k in keys], float)
    c = P.mean(0)
    with np.errstate(all="ignore"):
        if kind == "random":
            ang = np.array([rng.uniform(0, 2 * math.pi) for _ in keys])
            mag = np.array([rng.uniform(0.3, 1.0) for _ in keys])
            D = np.stack([mag * np.cos(ang), mag * np.sin(ang)], 1)
        elif kind == "affine":
            B = np.array([[rng.gauss(0, 1), rng.gauss(0, 1)], [rng.gauss(0, 1), rng.gauss(0, 1)]])
            b = np.array([rng.gauss(0, 1), rng.gauss(0, 1)]) * rng.choice([0.0, 0.3, 1.0]) * np.abs(P - c).max()
            D = (P - c) @ B.T + b
        elif kind == "stretch":
            ex, ey = rng.choice([(1.0, -0.2), (-1.0, 0.3), (1.0, 1.0), (0.2, -1.0)])
            D = (P - c) * np.array([ex, ey])
        elif kind == "rotation":
            D = (P - c) @ np.array([[0.0, -1.0], [1.0, 0.0]]).T
        else:  # flowing
            L = max(np.ptp(P[:, 0]), np.ptp(P[:, 1]), 1e-9)
            k1, k2 = rng.uniform(1.5, 6) / L, rng.uniform(1.5, 6) / L
            p1, p2 = rng.uniform(0, 6.28), rng.uniform(0, 6.28)
            D = np.stack([np.sin(k1 * P[:, 1] + p1), np.cos(k2 * P[:, 0] + p2)], 1) + \
                rng.choice([0.0, 0.7]) * np.array([rng.uniform(-1, 1), rng.uniform(-1, 1)])
        m = np.sqrt((D ** 2).sum(1)).max()
        D = D * (amp / m) if m > 0 else D * 0.0
    return {k: (float(D[i, 0]), float(D[i, 1])) for i, k in enumerate(keys)}


def border_cells(cells):
    edges, _ = tissue.base_edges(cells)
    cnt = {}
    for cyc in cells:
        n = len(cyc)
        for i in range(n):
            a, b = cyc[i], cyc[(i + 1) % n]
            key = (min(a, b), max(a, b))
            cnt[key] = cnt.get(key, 0) + 1
    out = []
    for ci, cyc in enumerate(cells):
        n = len(cyc)
        if any(cnt[(min(cyc[i], cyc[(i + 1) % n]), max(cyc[i], cyc[(i + 1) % n]))] == 1 for i in range(n)):
            out.append(ci)
    return out


# ------------------------------------------------------------------------------------------------
# random series
# ------------------------------------------------------------------------------------------------
CATALOGUE = ["hexflower", "hex33", "irregular", "hexflower", "hex33", "irregular", "brick33", "squares33"]


def random_series(seed, big=False):
    """deterministic in seed; returns the series dict (see observe())"""
    rng = random.Random(seed)
    src = rng.choice(["cat", "cat", "vor"])
    if src == "cat":
        name = rng.choice(CATALOGUE + (["hex43"] if big else []))
        base = catalogue.load(name)
        pos = {i + 1: (float(p[0]), float(p[1])) for i, p in enumerate(base["pos"])}
        cells = [list(c) for c in base["cells"]]
        if rng.random() < 0.3 and len(cells) > 4:   # ragged sub-tissue
            drop = set(rng.sample(border_cells(cells), 1))
            cells = [c for i, c in enumerate(cells) if i not in drop]
    else:
        name = "voronoi"
        pos, cells, _, _ = voronoi.random_tissue(rng, rng.choice([8, 12, 20] + ([35] if big else [])))
        pos = {k: (float(v[0]), float(v[1])) for k, v in pos.items()}
    used = sorted({v for c in cells for v in c})
    pos = {v: pos[v] for v in used}
    deg = degrees(cells)
    junc = [v for v in used if deg.get(v, 0) >= 3]
    if len(junc) < 2:
        return random_series(seed * 31 + 17, big)
    # world units: smallest junction spacing between 1 and 4, random rotation / reflection / translation
    s0, _ = spacing_extent(pos, junc)
    sim = tissue.Similarity(rng.uniform(0, 2 * math.pi), rng.uniform(1.0, 4.0) / s0,
                            rng.uniform(-300, 300), rng.uniform(-300, 300), reflect=rng.random() < 0.3)
    pos = {v: sim.apply(p) for v, p in pos.items()}
    _, ext = spacing_extent(pos, junc)
    if ext > 1200:
        return random_series(seed * 31 + 17, big)
    nf = rng.choice([2, 2, 3, 3, 4, 5, 6])
    k = rng.choice([0, 1, 1, 2, 3])
    cm = rng.random() < 0.5
    regime = rng.choice(["inside", "inside", "inside", "near", "outside", "mixed"])
    vanish_at = rng.randrange(1, nf) if (rng.random() < 0.25 and len(cells) > 3) else None
    frames_pos, frames_cells, kinds = [dict(pos)], [cells], []
    times = [rng.uniform(-5, 20)]
    cur_cells = cells
    for f in range(1, nf):
        p0 = frames_pos[-1]
        deg = degrees(cur_cells)
        jn = [v for v in p0 if deg.get(v, 0) >= 3 and any(v in c for c in cur_cells)]
        s, ext = spacing_extent(p0, jn)
        bound = min(s / 2, 0.08 * ext)
        reg = regime if regime != "mixed" else rng.choice(["inside", "near", "outside"])
        kind = rng.choice(["random", "affine", "flowing", "flowing", "rotation"])
        if reg == "inside":
            amp = bound * rng.uniform(0.05, 0.45)
        elif reg == "near":
            amp = bound * rng.uniform(0.45, 1.05)
        else:
            kind = rng.choice(["random", "affine", "stretch", "stretch", "flowing"])
            amp = bound * rng.uniform(1.1, 2.5) if kind != "stretch" else 0.08 * ext * rng.uniform(0.5, 2.0)
        D = displacement_field(rng, kind, p0, amp)
        frames_pos.append({v: (p0[v][0] + D[v][0], p0[v][1] + D[v][1]) for v in p0})
        if vanish_at == f:
            bc = border_cells(cur_cells)
            if bc:
                drop = rng.choice(bc)
                cur_cells = [c for i, c in enumerate(cur_cells) if i != drop]
        frames_cells.append(cur_cells)
        kinds.append(f"{reg}:{kind}")
        maxd = max(math.hypot(*D[v]) for v in D)
        # unequal, arbitrary steps; the largest speed of the step lies between 0.2 and 10 (fixed-point range)
        dt = min(max(maxd / rng.uniform(0.2, 10.0), 0.05), 40.0)
        times.append(times[-1] + dt)
    if nf >= 2 and rng.random() < 0.25:
        # the origin of time is arbitrary: one frame OTHER than the first carries the stamp exactly 0.0
        j = rng.randrange(1, nf)
        times = [t_ - times[j] for t_ in times]
    # fresh mesh per frame, independent numbering
    descs, ids = [], []
    for f in range(nf):
        present = sorted({v for c in frames_cells[f] for v in c})
        desc, info = tissue.instance_desc({v: frames_pos[f][v] for v in present}, frames_cells[f], k)
        vm = {}
        desc = relabel(desc, rng, vm)
        descs.append(desc)
        ids.append({v: vm[info["newid"][v]] for v in present})
    # partial user guesses (true pairings; now and then a wrong one)
    guess = {f: {} for f in range(nf)}
    gmode = rng.choice(["none", "none", "true", "true", "wrong", "true", "wrong", "none", "true", "sparse"])
    if gmode != "none":
        for f in range(nf - 1):
            d0, d1 = degrees(frames_cells[f]), degrees(frames_cells[f + 1])
            both = [v for v in ids[f] if v in ids[f + 1] and d0.get(v, 0) >= 3 and d1.get(v, 0) >= 3]
            if not both or rng.random() < 0.3:
                continue
            for v in rng.sample(both, min(len(both), rng.choice([1, 2, 4]))):
                guess[f][ids[f][v]] = ids[f + 1][v]
            if gmode == "wrong" and len(both) >= 2 and rng.random() < 0.7:
                a, b = rng.sample(both, 2)
                if ids[f + 1][b] not in guess[f].values():
                    guess[f][ids[f][a]] = ids[f + 1][b]
    if gmode == "sparse":   # pairings for some steps only: the dict has no entry for the other frames
        guess = {f: g for f, g in guess.items() if g}
    return {"kind": "random", "src": f"{name}:k{k}:{'+'.join(kinds)}:{gmode}:cm{int(cm)}:vanish{vanish_at}",
            "nf": nf, "np": max(used), "descs": descs, "ids": ids, "times": times, "cm": cm, "guess": guess,
            "exact": None}


# ------------------------------------------------------------------------------------------------
# integer instances emitted by MC_Tracking -> real meshes
# ------------------------------------------------------------------------------------------------
def necklace_desc(sites, order, rng):
    """mesh whose only junctions are the N >= 3 sites: lens cell i between site i and site i+1 (outer and
    inner arc, each with one two-edge mid vertex) and the inner cell bounded by the inner arcs.
    `order` lists the sites (1-based) in the dict iteration order wanted for the junctions.
    Returns (desc, {site: vertex id})."""
    n = len(sites)
    P = np.array(sites, float)
    c = P.mean(0)
    nv = 3 * n
    idpool = rng.sample(range(0, 4 * nv), nv)
    jid = {i + 1: idpool[i] for i in range(n)}
    inner = {i: idpool[n + i] for i in range(n)}
    outer = {i: idpool[2 * n + i] for i in range(n)}
    coords = {}
    for i in range(n):
        a, b = P[i], P[(i + 1) % n]
        mid = (a + b) / 2
        chord = b - a
        nrm = np.array([-chord[1], chord[0]])
        L = float(np.hypot(*nrm)) or 1.0
        nrm = nrm / L
        if float(np.dot(nrm, c - mid)) < 0:
            nrm = -nrm
        coords[inner[i]] = mid + nrm * (0.11 * L + 0.013 * (i + 1))
        coords[outer[i]] = mid - nrm * (0.17 * L + 0.017 * (i + 1))
    for i in range(n):
        coords[jid[i + 1]] = P[i]
    # vertex storage order: junctions in `order`, mid vertices sprinkled in between
    mids = list(inner.values()) + list(outer.values())
    rng.shuffle(mids)
    vorder = []
    for s in order:
        while mids and rng.random() < 0.5:
            vorder.append(mids.pop())
        vorder.append(jid[s])
    vorder += mids
    V = [[v, float(coords[v][0]), float(coords[v][1])] for v in vorder]
    C = []
    cid = rng.sample(range(0, 4 * n + 8), n + 1)
    for i in range(n):
        C.append([cid[i], [jid[i + 1], inner[i], jid[(i + 1) % n + 1], outer[i]]])
    cyc = []
    for i in reversed(range(n)):
        cyc += [jid[(i + 1) % n + 1], inner[i]]
    C.append([cid[n], cyc])
    from harness.build import edges_from_cells
    E = edges_from_cells(C, first_id=rng.choice([0, 3, 50]))
    return {"V": V, "E": E, "C": C}, jid


def necklace_series(inst, seed):
    """two-frame series for an MC_Tracking instance (integer model coordinates embedded exactly:
    x -> scale * (x + tx) with dyadic scale and integer shift, no rotation)"""
    rng = random.Random(seed)
    n = inst["n"]
    scale = rng.choice([1.0, 1.0, 0.5, 2.0, 4.0])
    tx, ty = rng.randrange(-40, 41), rng.randrange(-40, 41)
    emb = lambda p: (scale * (p[0] + tx), scale * (p[1] + ty))
    d0, j0 = necklace_desc([emb(p) for p in inst["pos0"]], inst["ord0"], rng)
    d1, j1 = necklace_desc([emb(p) for p in inst["pos1"]], inst["ord1"], rng)
    guess = {0: {j0[a]: j1[b] for a, b in inst["guess"]}, 1: {}}
    st = inst.get("stamps", [0, 1])
    return {"kind": "mc", "src": "mc", "nf": 2, "np": n, "descs": [d0, d1], "ids": [j0, j1],
            "times": [float(st[0]), float(st[1])], "cm": False, "guess": guess,
            "exact": {"scale": scale, "tx": tx, "ty": ty}}


# ------------------------------------------------------------------------------------------------
# observer: real objects -> trace events
# ------------------------------------------------------------------------------------------------
def _fx(x):
    """fixed point at Q = 1e6; TLC integers are 32-bit: out-of-range values are reported, not clamped"""
    v = int(round(float(x) * QS))
    if abs(v) >= 2000 * QS:
        raise OverflowError("fixed-point value out of range")
    return v


def observe(case, ser, with_vel=False, rhs_seed=0, keep=None):
    """Run the series through the real code; returns the list of trace events.
    C12 events: Env, NewSession, PointByMap*.  C13 events (with_vel): Velocity*, RHS*, SysVel.
    keep (optional dict) receives the live objects (sess, frames, ids, inv) for observers that go on (observe_accel)."""
    import forsys as fs
    from harness import build
    from forsys.exceptions import DifferentTissueException
    nf, NP = ser["nf"], ser["np"]
    ids = [{int(p): int(v) for p, v in m.items()} for m in ser["ids"]]
    inv = [{v: p for p, v in m.items()} for m in ids]
    evs = []
    env = {"case": case, "ev": "Env", "nf": nf, "np": NP, "src": ser["src"], "exact": ser["exact"] is not None,
           "present": [[(p in ids[f]) for p in range(1, NP + 1)] for f in range(nf)],
           "ids": [[ids[f].get(p, -1) for p in range(1, NP + 1)] for f in range(nf)],
           "times": [_fx(t) for t in ser["times"]], "cm": bool(ser["cm"]),
           "guess_missing": bool(ser["guess"]) and any(f not in ser["guess"] for f in range(nf - 1)),
           "guess": [[[inv[f].get(int(a), -1), inv[f + 1].get(int(b), -1)] for a, b in ser["guess"].get(f, {}).items()]
                     for f in range(nf - 1)]}
    evs.append(env)
    frames = {}
    for f in range(nf):
        V, E, C = build.build_mesh(ser["descs"][f])
        frames[f] = fs.frames.Frame(f, V, E, C, time=ser["times"][f])
        del V, E, C
    guess = {int(f): {int(a): int(b) for a, b in g.items()} for f, g in ser["guess"].items()}
    if sum(len(g) for g in guess.values()) % 3 == 1:
        # ids that come out of numpy code (np.where, array indexing) are numpy integers: the same numbers, the same hashes
        import numpy as np
        guess = {f: {np.int64(a): np.int64(b) for a, b in g.items()} for f, g in guess.items()}
    raised = ""
    sess = None
    try:
        sess = fs.ForSys(frames, cm=ser["cm"], initial_guess=guess)
    except Exception as exc:
        raised = type(exc).__name__
    if keep is not None:
        keep.update(sess=sess, frames=frames, ids=ids, inv=inv)
    # positions as the code sees them after construction (cm shifts the frames in place)
    allx = [v.x for f in range(nf) for v in frames[f].vertices.values() if v.id in inv[f]]
    ally = [v.y for f in range(nf) for v in frames[f].vertices.values() if v.id in inv[f]]
    if ser["exact"] is not None:
        ex = ser["exact"]
        ox, oy, gs = ex["scale"] * ex["tx"], ex["scale"] * ex["ty"], 100.0 / ex["scale"]
    else:
        ox, oy = min(allx), min(ally)
        gs = GRID / max(max(allx) - ox, max(ally) - oy, 1e-9)
    gpos, fpos, pool, junc, order = [], [], [], [], []
    pool_out = 0
    for f in range(nf):
        fr = frames[f]
        ends = set()
        for be in fr.big_edges_list:
            ends.add(int(be[0]))
            ends.add(int(be[-1]))
        pool_out += len([v for v in ends if v not in inv[f]])
        pool_out += len([v for v in fr.vertices.values() if len(v.ownEdges) >= 3 and v.id not in inv[f]])
        g, fp, pl, jn = [], [], [], []
        for p in range(1, NP + 1):
            vid = ids[f].get(p)
            if vid is None or vid not in fr.vertices:
                g.append([0, 0]); fp.append([0, 0]); pl.append(False); jn.append(False)
                continue
            v = fr.vertices[vid]
            g.append([int(round((v.x - ox) * gs)), int(round((v.y - oy) * gs))])
            fp.append([_fx(v.x - ox), _fx(v.y - oy)])
            pl.append(vid in ends)
            jn.append(len(v.ownEdges) >= 3)
        gpos.append(g); fpos.append(fp); pool.append(pl); junc.append(jn)
        order.append([inv[f][vid] for vid in fr.vertices.keys() if vid in ends and vid in inv[f]])
    ns = {"case": case, "ev": "NewSession", "raised": raised, "gpos": gpos, "fpos": fpos, "pool": pool,
          "junc": junc, "ord": order, "pool_outside": pool_out, "maps": []}
    if sess is not None:
        for f in range(nf - 1):
            m = sess.mesh.mapping.get(f, None)
            if m is None:
                ns["maps"].append({"none": True, "pairs": []})
            else:
                ns["maps"].append({"none": False, "pairs": [
                    [inv[f].get(a, -1), 0 if b is None else inv[f + 1].get(b, -1)] for a, b in m.items()]})
    evs.append(ns)
    if sess is None:
        return evs
    mesh = sess.mesh

    def pbm(vid, a, b):
        try:
            r = mesh.get_point_id_by_map(vid, a, b)
        except KeyError:
            return None, -3
        except Exception:
            return None, -4
        if r is None:
            return None, 0
        return r, inv[b].get(r, -1)

    spans = [(f, f + 1) for f in range(nf - 1)]
    if nf > 2:
        spans += [(0, nf - 1)] + ([(1, nf - 1)] if nf > 3 else [])
    for a, b in spans:
        if any(mesh.mapping.get(f) is None for f in range(a, b)):
            continue
        res, back = [-9] * NP, [-9] * NP      # -9 = not queried
        for p in range(1, NP + 1):
            if not pool[a][p - 1]:
                continue
            r, rp = pbm(ids[a][p], a, b)
            res[p - 1] = rp
            if rp > 0:
                _, bp = pbm(r, b, a)
                back[p - 1] = bp
        evs.append({"case": case, "ev": "PointByMap", "t0": a, "t1": b, "res": res, "back": back})
    if not with_vel:
        return evs
    # ---- C13 ---------------------------------------------------------------------------------
    for f in range(nf):
        vel, rs, oor = [[0, 0, 0] for _ in range(NP)], "", False
        for p in range(1, NP + 1):
            vid = ids[f].get(p)
            if vid is None:
                continue
            try:
                v = mesh.calculate_velocity(vid, f)
                vel[p - 1] = [1, _fx(v[0]), _fx(v[1])]
            except DifferentTissueException:
                rs = "DifferentTissueException"
                break
            except OverflowError:
                oor = True
                break
            except Exception as exc:
                rs = type(exc).__name__
                break
        evs.append({"case": case, "ev": "Velocity", "t": f, "vel": [] if (rs or oor) else vel, "raised": rs, "oor": oor})
    if ser["kind"] == "mc":      # the necklace mesh has no junction with three internal interfaces: no equations
        return evs
    rng = random.Random(rhs_seed)
    for f in sorted(set([rng.randrange(nf), nf - 1] if nf > 2 else [0, 1])):
        built = ""
        try:
            sess.build_force_matrix(when=f, angle_limit=rng.choice([np.inf, np.inf, np.pi]))
            fm = sess.force_matrices[f]
        except Exception as exc:
            built = type(exc).__name__
        opts = [(None, False, 1), ("velocity", False, 1), ("velocity", True, 1),
                ("velocity", rng.random() < 0.5, rng.choice([0.5, 3, 3.0, 0.25, 2])), (None, True, 3)]
        for bm, ad, nrm in opts:
            e = {"case": case, "ev": "RHS", "t": f, "dyn": bm == "velocity", "adim": bool(ad), "norm": _fx(nrm),
                 "built_raised": built, "raised": "", "rowof": [], "rows_outside": 0, "nrows": 0, "b": [], "avg": 0,
                 "oor": False}
            if not built:
                rowof = [-1] * NP
                for v, r in fm.map_vid_to_row.items():
                    if int(v) in inv[f]:
                        rowof[inv[f][int(v)] - 1] = int(r)
                    else:
                        e["rows_outside"] += 1
                e["rowof"] = rowof
                try:
                    kw = {"adimensional_velocity": ad, "velocity_normalization": nrm}
                    if bm:
                        kw["b_matrix"] = bm
                    b, avg = fm.set_velocity_matrix(mesh, **kw)
                    e["nrows"] = int(b.shape[0])
                    e["b"] = [_fx(x) for x in np.asarray(b, float).flatten()]
                    e["avg"] = _fx(avg)
                except OverflowError:
                    e["oor"] = True
                    e["b"] = []
                except Exception as exc:
                    e["raised"] = type(exc).__name__
            evs.append(e)
    e = {"case": case, "ev": "SysVel", "raised": "", "built_raised": "", "vals": [], "used": [], "oor": False}

    def used_sets():
        return [[inv[f].get(int(v), -1) for v in sess.force_matrices[f].map_vid_to_row.keys()] for f in range(nf)]
    try:
        vals = sess.get_system_velocity_per_frame()
        e["vals"] = [_fx(x) for x in vals]
        e["used"] = used_sets()
    except OverflowError:
        e["oor"], e["vals"], e["used"] = True, [], []
    except Exception as exc:
        e["raised"] = type(exc).__name__
        # was it the construction of a force matrix (not this property's business) or the velocities?
        for f in range(nf):
            try:
                sess.build_force_matrix(when=f, angle_limit=np.inf)
            except Exception as exc2:
                e["built_raised"] = type(exc2).__name__
                break
        if not e["built_raised"]:
            e["used"] = used_sets()
    evs.append(e)
    return evs


# ------------------------------------------------------------------------------------------------
# accelerations (extension check `accel`): three-frame integer instances of MC_Accel, observer
# ------------------------------------------------------------------------------------------------
def necklace_series_n(inst, seed):
    """nf-frame series for an MC_Accel instance: inst = {n, nf, pos[f][p], ords[f] (physical vertices in dict order),
    present[f][p], stamps[f]}. Each frame is a necklace mesh over the sites present in that frame (>= 3), embedded
    exactly (dyadic scale, integer shift, the same for all frames)."""
    rng = random.Random(seed)
    n, nf = inst["n"], inst["nf"]
    scale = rng.choice([1.0, 1.0, 0.5, 2.0, 4.0])
    tx, ty = rng.randrange(-40, 41), rng.randrange(-40, 41)
    emb = lambda p: (scale * (p[0] + tx), scale * (p[1] + ty))
    descs, ids = [], []
    for f in range(nf):
        here = [p for p in range(1, n + 1) if inst["present"][f][p - 1]]
        local = {p: i + 1 for i, p in enumerate(here)}
        d, j = necklace_desc([emb(inst["pos"][f][p - 1]) for p in here], [local[p] for p in inst["ords"][f]], rng)
        descs.append(d)
        ids.append({p: j[local[p]] for p in here})
    st = inst.get("stamps", list(range(nf)))
    return {"kind": "mc", "src": "mc3", "nf": nf, "np": n, "descs": descs, "ids": ids,
            "times": [float(t) for t in st], "cm": False, "guess": {f: {} for f in range(nf)},
            "exact": {"scale": scale, "tx": tx, "ty": ty}}


def random_series_min3(seed, big=False):
    """the first of random_series(seed + 7919 j), j = 0, 1, .., that has at least three frames"""
    j = 0
    while True:
        ser = random_series(seed + 7919 * j, big)
        if ser["nf"] >= 3:
            return ser
        j += 1


_ACC_CODES = {"DifferentTissueException": -2, "AttributeError": -3, "KeyError": -4}


def _acc_entry(fn):
    """[code, ax, ay]: 1 value, 0 NaN, -2 DifferentTissueException, -3 AttributeError, -4 KeyError, -5 other exception,
    -6 outside the fixed-point range"""
    try:
        a = fn()
    except Exception as exc:
        return [_ACC_CODES.get(type(exc).__name__, -5), 0, 0], None
    with np.errstate(all="ignore"):
        if np.any(np.isnan(a)):
            return [0, 0, 0], None
        try:
            return [1, _fx(a[0]), _fx(a[1])], (float(a[0]), float(a[1]))
        except OverflowError:
            return [-6, 0, 0], None


def _scalar_entry(x):
    """[has, value]: 1 value, 0 NaN, -6 outside the fixed-point range"""
    with np.errstate(all="ignore"):
        if x is None or np.isnan(x):
            return [0, 0]
        try:
            return [1, _fx(x)]
        except OverflowError:
            return [-6, 0]


def observe_accel(case, ser, rhs_seed=0):
    """Events of observe() (Env, NewSession, PointByMap*) followed by
       Velocity  t, vel[p], raised, oor                        (as for C13; used by velocity_per_edge)
       Accel     t, acc[p] = [code, ax, ay] (-1 = vertex absent), macc[p] (exact instances: model integers)
       AccRHS    t, rowof[p], rows_outside, nrows, b[], bnan[] (rows holding NaN), avg, built_raised, raised, oor
       EdgeRows  kind acc|vel, t0, t1, k, ends [p0, p1], row [[has, value]..], raised
       Whole     t, rows [[p0, p1, has, value]..] per interface of frame t, extra (keys beyond), raised"""
    import forsys as fs  # noqa: F401
    from forsys.exceptions import DifferentTissueException
    keep = {}
    evs = observe(case, ser, with_vel=False, rhs_seed=rhs_seed, keep=keep)
    sess = keep.get("sess")
    if sess is None:
        return evs
    frames, ids, inv = keep["frames"], keep["ids"], keep["inv"]
    nf, NP = ser["nf"], ser["np"]
    mesh = sess.mesh
    rng = random.Random(rhs_seed * 7 + 3)
    # ---- velocities (same logging as observe(with_vel=True)) ---------------------------------------
    for f in range(nf):
        vel, rs, oor = [[0, 0, 0] for _ in range(NP)], "", False
        for p in range(1, NP + 1):
            vid = ids[f].get(p)
            if vid is None:
                continue
            try:
                v = mesh.calculate_velocity(vid, f)
                vel[p - 1] = [1, _fx(v[0]), _fx(v[1])]
            except DifferentTissueException:
                rs = "DifferentTissueException"
                break
            except OverflowError:
                oor = True
                break
            except Exception as exc:
                rs = type(exc).__name__
                break
        evs.append({"case": case, "ev": "Velocity", "t": f, "vel": [] if (rs or oor) else vel, "raised": rs, "oor": oor})
    if nf < 3:       # calculate_acceleration is documented to need three time points: rejected input
        return evs
    # ---- accelerations of every tracked vertex of every frame ---------------------------------------
    exact = ser["exact"]
    for f in range(nf):
        acc = [[-1, 0, 0] for _ in range(NP)]
        macc = [[-1, 0, 0] for _ in range(NP)]
        for p in range(1, NP + 1):
            vid = ids[f].get(p)
            if vid is None or vid not in frames[f].vertices:
                continue
            acc[p - 1], raw = _acc_entry(lambda: mesh.calculate_acceleration(vid, f))
            macc[p - 1] = [acc[p - 1][0], 0, 0]
            if exact is not None and raw is not None:
                macc[p - 1] = [1, int(round(raw[0] / exact["scale"])), int(round(raw[1] / exact["scale"]))]
        e = {"case": case, "ev": "Accel", "t": f, "acc": acc}
        if exact is not None:
            e["macc"] = macc
        evs.append(e)
    # ---- right-hand side in acceleration mode ------------------------------------------------------
    if ser["kind"] != "mc":      # the necklace mesh has no junction with three internal interfaces: no equations
        for f in sorted({0, rng.randrange(nf), nf - 1}):
            e = {"case": case, "ev": "AccRHS", "t": f, "built_raised": "", "raised": "", "rowof": [], "rows_outside": 0,
                 "nrows": 0, "b": [], "bnan": [], "avg": 0, "oor": False}
            fm = None
            try:
                sess.build_force_matrix(when=f, angle_limit=np.inf)
                fm = sess.force_matrices[f]
            except Exception as exc:
                e["built_raised"] = type(exc).__name__
            if fm is not None:
                rowof = [-1] * NP
                for v, r in fm.map_vid_to_row.items():
                    if int(v) in inv[f]:
                        rowof[inv[f][int(v)] - 1] = int(r)
                    else:
                        e["rows_outside"] += 1
                e["rowof"] = rowof
                try:
                    b, avg = fm.set_velocity_matrix(mesh, b_matrix="acceleration")
                    flat = [float(x) for x in np.asarray(b, float).flatten()]
                    e["nrows"] = len(flat)
                    with np.errstate(all="ignore"):
                        e["bnan"] = [i for i, x in enumerate(flat) if math.isnan(x)]
                        e["b"] = [0 if math.isnan(x) else _fx(x) for x in flat]
                    e["avg"] = _fx(avg)
                except OverflowError:
                    e["oor"], e["b"], e["bnan"] = True, [], []
                except Exception as exc:
                    e["raised"] = type(exc).__name__
            evs.append(e)
    # ---- per-interface rows ----------------------------------------------------------------------
    spans = [(0, nf)]
    t0 = rng.randrange(1, nf)
    spans.append((t0, nf))
    if nf > 3:
        spans.append((0, nf - 1))
    for kind, fn in (("acc", mesh.acceleration_per_edge), ("vel", mesh.velocity_per_edge)):
        for a, b_ in spans:
            ne = len(frames[a].big_edges_list)
            ks = list(range(ne)) if ne <= 5 else sorted(rng.sample(range(ne), 5))
            for k in ks:
                be = frames[a].big_edges_list[k]
                e = {"case": case, "ev": "EdgeRows", "kind": kind, "t0": a, "t1": b_, "k": k,
                     "ends": [inv[a].get(int(be[0]), -1), inv[a].get(int(be[-1]), -1)], "row": [], "raised": ""}
                try:
                    e["row"] = [_scalar_entry(x) for x in fn(k, a, b_)]
                except Exception as exc:
                    e["raised"] = type(exc).__name__
                evs.append(e)
    for f in range(nf):
        bel = frames[f].big_edges_list
        e = {"case": case, "ev": "Whole", "t": f, "rows": [], "extra": 0, "raised": ""}
        try:
            res = mesh.whole_tissue_acceleration(f)
            e["extra"] = len([k for k in res.keys() if not (0 <= k < len(bel))])
            e["rows"] = [[inv[f].get(int(be[0]), -1), inv[f].get(int(be[-1]), -1)] + _scalar_entry(res.get(k))
                         for k, be in enumerate(bel)]
        except Exception as exc:
            e["raised"] = type(exc).__name__
        evs.append(e)
    return evs

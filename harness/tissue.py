"""Embedding of model-frame tissues (integer junction coordinates + k interior sample points per
base edge) into floating point, through a similarity transform known to the driver."""
import math
import random

import numpy as np


class Similarity:
    """x -> s * R(theta) * M * x + t, M = diag(1, -1) if reflect"""

    def __init__(self, theta=0.0, scale=1.0, tx=0.0, ty=0.0, reflect=False):
        self.theta, self.scale, self.tx, self.ty, self.reflect = theta, scale, tx, ty, reflect
        c, s = math.cos(theta), math.sin(theta)
        m = np.array([[c, -s], [s, c]])
        if reflect:
            m = m @ np.array([[1.0, 0.0], [0.0, -1.0]])
        self.lin = scale * m
        self.rot = m  # orthogonal part

    @classmethod
    def random(cls, rng, near_axis=False, big=False):
        if near_axis:
            theta = rng.choice([0, 1, 2, 3]) * math.pi / 2 + rng.choice([-1, 1]) * rng.choice([1e-4, 2e-3, 5e-3])
        else:
            theta = rng.uniform(0, 2 * math.pi)
        scale = 10 ** rng.uniform(-3, 3) if big else 10 ** rng.uniform(-1, 1)
        t = (1e4 if big else 10.0) * scale
        return cls(theta, scale, rng.uniform(-t, t), rng.uniform(-t, t), reflect=rng.random() < 0.3)

    def apply(self, p):
        q = self.lin @ np.array([float(p[0]), float(p[1])])
        return (q[0] + self.tx, q[1] + self.ty)

    def back_dir(self, d):
        """direction vector in the embedded frame -> model frame (unit-preserving up to scale)"""
        q = self.rot.T @ np.array([float(d[0]), float(d[1])])
        return (q[0], q[1])

    def desc(self):
        return {"theta": self.theta, "scale": self.scale, "tx": self.tx, "ty": self.ty, "reflect": self.reflect}


def base_edges(cells):
    seen, out = {}, []
    for cyc in cells:
        n = len(cyc)
        for i in range(n):
            a, b = cyc[i], cyc[(i + 1) % n]
            key = (min(a, b), max(a, b))
            if key not in seen:
                seen[key] = len(out)
                out.append(key)
    return out, seen


def instance_desc(base_pos, cells, k, sim=None, id_offset=0, id_stride=1, bulge=None, shuffle_rng=None,
                  interior_pts=None, cell_order=None, vperm_rng=None):
    """Mesh description for harness.build.build_mesh.

    base_pos: {base vertex id: (x, y)} model coordinates; cells: list of base-vertex cycles;
    k: interior sample points per base edge (straight, or on a circular arc when bulge[(a, b)] gives
    a signed sagitta fraction). Returns (desc, info) where info maps new ids to model points."""
    sim = sim or Similarity()
    edges, eindex = base_edges(cells)
    used = sorted({v for cyc in cells for v in cyc})
    newid = {v: id_offset + id_stride * v for v in used}
    nxt = id_offset + id_stride * (max(used) + 1)
    model = {newid[v]: (float(base_pos[v][0]), float(base_pos[v][1])) for v in used}
    interior = {}
    for (a, b) in edges:
        pts = []
        pa, pb = np.array(base_pos[a], float), np.array(base_pos[b], float)
        if interior_pts is not None:
            for p in interior_pts[(a, b)]:
                vid = nxt
                nxt += id_stride
                model[vid] = (float(p[0]), float(p[1]))
                pts.append(vid)
            interior[(a, b)] = pts
            continue
        for j in range(1, k + 1):
            t = j / (k + 1)
            if bulge and bulge.get((a, b)):
                p = arc_point(pa, pb, bulge[(a, b)], t)
            else:
                p = pa + t * (pb - pa)
            vid = nxt
            nxt += id_stride
            model[vid] = (float(p[0]), float(p[1]))
            pts.append(vid)
        interior[(a, b)] = pts
    cdesc = []
    for ci, cyc in enumerate(cells):
        out = []
        n = len(cyc)
        for i in range(n):
            a, b = cyc[i], cyc[(i + 1) % n]
            out.append(newid[a])
            if a < b:
                out.extend(interior[(a, b)])
            else:
                out.extend(reversed(interior[(b, a)]))
        cdesc.append([id_offset + id_stride * ci, out])
    if vperm_rng is not None:
        # a genuine renumbering: the same set size, ids drawn from offset, offset+stride, ... in random order, so junctions
        # no longer carry the smallest numbers, numbering order is unrelated to construction order, and 0 can be a junction
        olds = sorted(model)
        pool = [id_offset + id_stride * i for i in range(len(olds))]
        vperm_rng.shuffle(pool)
        ren = dict(zip(olds, pool))
        model = {ren[v]: p for v, p in model.items()}
        newid = {v: ren[n] for v, n in newid.items()}
        interior = {e: [ren[v] for v in pts] for e, pts in interior.items()}
        cdesc = [[cid, [ren[v] for v in cyc]] for cid, cyc in cdesc]
    vorder = list(model.keys())
    if shuffle_rng is not None:
        shuffle_rng.shuffle(vorder)
        # cell ids in an order unrelated to the construction order (cells are still inserted in construction order)
        cids = [c[0] for c in cdesc]
        perm = cids[:]
        shuffle_rng.shuffle(perm)
        cdesc = [[perm[i], cyc] for i, (_, cyc) in enumerate(cdesc)]
    V = []
    for vid in vorder:
        x, y = sim.apply(model[vid])
        V.append([vid, x, y])
    from harness.build import edges_from_cells
    E = edges_from_cells(cdesc, first_id=id_offset)
    if shuffle_rng is not None:
        eids = [e[0] for e in E]
        perm = eids[:]
        shuffle_rng.shuffle(perm)
        E = [[perm[i], a, b] for i, (_, a, b) in enumerate(E)]
    return {"V": V, "E": E, "C": cdesc}, {"model": model, "newid": newid, "interior": interior}


def arc_point(pa, pb, sag, t):
    """point at parameter t (0..1, uniform in angle) on the circular arc from pa to pb whose sagitta is
    sag * |pb - pa| (positive: bulging to the left of a->b)"""
    chord = pb - pa
    L = float(np.hypot(*chord))
    h = sag * L
    if abs(h) < 1e-12:
        return pa + t * chord
    R = (L * L / 4 + h * h) / (2 * abs(h))
    mid = (pa + pb) / 2
    nrm = np.array([-chord[1], chord[0]]) / L
    sgn = 1.0 if h > 0 else -1.0
    centre = mid - sgn * nrm * (R - abs(h))
    a0 = math.atan2(pa[1] - centre[1], pa[0] - centre[0])
    a1 = math.atan2(pb[1] - centre[1], pb[0] - centre[0])
    d = a1 - a0
    while d > math.pi:
        d -= 2 * math.pi
    while d < -math.pi:
        d += 2 * math.pi
    a = a0 + t * d
    return centre + R * np.array([math.cos(a), math.sin(a)])

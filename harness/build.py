"""Build real forsys objects from an abstract mesh description, the way the parsers do:
vertices first, then mesh edges, then cells, fresh objects per mesh."""
import numpy as np


def build_mesh(desc):
    """desc = {"V": [[id, x, y], ...], "E": [[id, v1, v2], ...], "C": [[id, [vid, ...]], ...]}
    returns (vertices, edges, cells) dicts of real objects."""
    import forsys.vertex as fv
    import forsys.edge as fe
    import forsys.cell as fc
    vertices, edges, cells = {}, {}, {}
    for vid, x, y in desc["V"]:
        vertices[vid] = fv.Vertex(vid, float(x), float(y))
    for eid, a, b in desc["E"]:
        edges[eid] = fe.SmallEdge(eid, vertices[a], vertices[b])
    for cid, cyc in desc["C"]:
        cells[cid] = fc.Cell(cid, [vertices[v] for v in cyc])
    return vertices, edges, cells


def edges_from_cells(cells_desc, first_id=0):
    """mesh edges in order of first occurrence along the cell cycles"""
    seen = {}
    out = []
    for _, cyc in cells_desc:
        n = len(cyc)
        for i in range(n):
            a, b = cyc[i], cyc[(i + 1) % n]
            key = (min(a, b), max(a, b))
            if key not in seen:
                seen[key] = first_id + len(out)
                out.append([seen[key], a, b])
    return out

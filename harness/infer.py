"""Driving the real inference pipeline on analytic tissues and projecting every step to trace events
for Trace_Inference.tla. Python only drives and projects; all judging is TLC's."""
import math
import random

import numpy as np

from harness import build, project, tissue
from harness.gen import equilibrium as eq
from harness.project import fx


def cfx(z):
    return [fx(z.real), fx(z.imag)]


def cfx_sign(z):
    """like cfx, but a non-zero component never becomes 0: the implementation's sign rule distinguishes an exactly vanishing
    chord component from one of 1e-24, the fixed-point projection must not merge them"""
    out = cfx(z)
    for i, c in enumerate((z.real, z.imag)):
        if out[i] == 0 and c != 0:
            out[i] = 1 if c > 0 else -1
    return out


def embed_dir(sim, z):
    """model-frame direction (complex) -> embedded-frame unit vector (complex)"""
    v = sim.rot @ np.array([z.real, z.imag])
    return complex(v[0], v[1])


def make_case_objects(t, k, sim, rng, ids=None, resample=None, cell_perm=None, shifts=None, flips=None, snap_seed=None):
    """Build real objects for tissue t (gen.equilibrium format). Returns dict with vertices/edges/cells,
    info (id maps) and the interior points used."""
    import forsys as fs
    ids = ids or {}
    pos = {v: (z.real, z.imag) for v, z in t["pos"].items()}
    interior = eq.interior_points(t, k)
    cells = [list(c) for c in t["cells"]]
    desc, info = tissue.instance_desc(pos, cells, k, sim, id_offset=ids.get("offset", 0), id_stride=ids.get("stride", 1),
                                      interior_pts=interior, shuffle_rng=ids.get("shuffle"), vperm_rng=ids.get("vperm"))
    ex = getattr(sim, "exact_axis", None)
    if ex is not None and ex[0] in info["interior"]:
        (ea, eb), first, ci = ex
        pts = info["interior"][(ea, eb)]
        junction = info["newid"][ea if first else eb]
        nbv = (pts[0] if first else pts[-1]) if pts else info["newid"][eb if first else ea]
        at = {v[0]: i for i, v in enumerate(desc["V"])}
        desc["V"][at[nbv]][ci] = desc["V"][at[junction]][ci]
    if snap_seed is not None and k >= 1:
        # make some end segments EXACTLY axis aligned (dx or dy == 0.0): the first / last interior point of an interface
        # takes the junction's x or y. Decided per physical interface end, so two runs of a pair get the same geometry.
        srng = random.Random(snap_seed)
        at = {v[0]: i for i, v in enumerate(desc["V"])}
        for (a, b) in sorted(info["interior"]):
            pts = info["interior"][(a, b)]
            for junction, nb in ((info["newid"][a], pts[0]), (info["newid"][b], pts[-1])):
                r = srng.random()
                if r < 0.25:
                    desc["V"][at[nb]][1 + (r < 0.125)] = desc["V"][at[junction]][1 + (r < 0.125)]
    if shifts or flips or cell_perm:
        C = desc["C"]
        for ci, (cid, cyc) in enumerate(C):
            if shifts and shifts.get(ci):
                s = shifts[ci] % len(cyc)
                cyc = cyc[s:] + cyc[:s]
            if flips and flips.get(ci):
                cyc = cyc[::-1]
            C[ci] = [cid, cyc]
        if cell_perm:
            desc["C"] = [C[i] for i in cell_perm]
        desc["E"] = build.edges_from_cells(desc["C"], first_id=ids.get("offset", 0))
        if ids.get("shuffle") is not None:
            eids = [e[0] for e in desc["E"]]
            perm = eids[:]
            ids["shuffle"].shuffle(perm)
            desc["E"] = [[perm[i], a, b] for i, (_, a, b) in enumerate(desc["E"])]
    vertices, edges, cells_o = build.build_mesh(desc)
    if resample:
        try:
            vertices, edges, cells_o, _ = fs.virtual_edges.generate_mesh(vertices, edges, cells_o, ne=resample)
        except Exception as exc:
            raise PreStepRaised(f"generate_mesh(ne={resample}) raised {type(exc).__name__}")
    return {"vertices": vertices, "edges": edges, "cells": cells_o, "info": info, "desc": desc}


def env_event(case, t, k, sim, info, vidx, cidx_of_model, want, extra=None, frame=None):
    """abstract truth of the case for TLC (all fixed point / dense indices)"""
    bverts = sorted(t["pos"])
    bidx = {v: i + 1 for i, v in enumerate(bverts)}
    E = []
    real_ifc = {}
    if frame is not None:
        for be in frame.big_edges.values():
            vs = be.vertices
            key = frozenset((vs[0].id, vs[-1].id))
            real_ifc[key] = None if key in real_ifc else (vs[0].id, [(float(v.x), float(v.y)) for v in vs])
    ekeys = sorted(t["edges"])
    for (a, b) in ekeys:
        rec = t["edges"][(a, b)]
        za, zb = t["pos"][a], t["pos"][b]
        ipts = info["interior"][(a, b)]
        # first chord at each end, in the embedded frame (what the implementation's sign rule looks at)
        m = info["model"]
        na = complex(*m[ipts[0]]) if ipts else zb
        nb = complex(*m[ipts[-1]]) if ipts else za
        ca = embed_dir(sim, (na - za) / abs(na - za))
        cb = embed_dir(sim, (nb - zb) / abs(nb - zb))
        npts = len(ipts) + 2
        real = real_ifc.get(frozenset((info["newid"][a], info["newid"][b])))
        if real is not None:
            # the interface as it exists in the mesh (after optional resampling): first chords and point count
            ida, pts = real
            if ida != info["newid"][a]:
                pts = pts[::-1]
            with np.errstate(all="ignore"):
                ca = complex(pts[1][0] - pts[0][0], pts[1][1] - pts[0][1])
                cb = complex(pts[-2][0] - pts[-1][0], pts[-2][1] - pts[-1][1])
                ca, cb = ca / abs(ca), cb / abs(cb)
            npts = len(pts)
        E.append({
            "a": bidx[a], "b": bidx[b], "T": fx(rec["T"]), "ta": cfx(rec["ta"]), "tb": cfx(rec["tb"]),
            "tea": cfx(embed_dir(sim, rec["ta"])), "teb": cfx(embed_dir(sim, rec["tb"])),
            "cea": cfx_sign(ca), "ceb": cfx_sign(cb), "npts": npts,
            "left": cidx_of_model.get(rec["left"], 0), "right": cidx_of_model.get(rec["right"], 0),
            "theta": fx(rec["theta"]), "straight": rec["centre"] is None,
        })
    ev = {"case": case, "ev": "Env", "want": want,
          "vmap": [vidx.get(info["newid"][v], 0) for v in bverts],
          "E": E, "rot": [[fx(sim.rot[0][0]), fx(sim.rot[0][1])], [fx(sim.rot[1][0]), fx(sim.rot[1][1])]],
          "k": k}
    if extra:
        ev.update(extra)
    return ev


def project_force_matrix(fm, vidx, frame):
    """ForceMatrix -> {cols: interface index per column, rows: [{v, r, e: [[col, ex, ey], ...]}], deletes}"""
    bel = frame.big_edges_list
    where = {tuple(be): i + 1 for i, be in enumerate(bel)}
    cols = [where.get(tuple(be), 0) for be in fm.big_edges_to_use]
    M = np.asarray(fm.matrix, dtype=float)
    rows = []
    for vid, r in fm.map_vid_to_row.items():
        ents = []
        for c in range(M.shape[1]):
            ex, ey = M[r, c], M[r + 1, c]
            if ex != 0.0 or ey != 0.0:
                ents.append([c + 1, fx(ex), fx(ey)])
        rows.append({"v": vidx.get(vid, 0), "r": int(r), "e": ents})
    return {"cols": cols, "rows": rows, "nrows": int(M.shape[0]), "ncols": int(M.shape[1]),
            "deletes": sorted(vidx.get(v, 0) for v in fm.deletes)}


# ------------------------------------------------------------------------------------------------
# truth-side helpers (never use implementation output)
# ------------------------------------------------------------------------------------------------
def truth_structure(t):
    """expected junctions / internal edges of a 3-valent junction-level tissue, from truth only"""
    cells_at = {}
    for ci, cyc in enumerate(t["cells"]):
        for v in cyc:
            cells_at.setdefault(v, set()).add(ci)
    internal = [e for e, r in t["edges"].items() if r["left"] >= 0 and r["right"] >= 0
                and (len(cells_at[e[0]]) >= 3 or len(cells_at[e[1]]) >= 3)]
    inc = {}
    for e in internal:
        for v in e:
            inc.setdefault(v, []).append(e)
    junctions = [v for v, es in inc.items() if len(cells_at[v]) >= 3 and len(es) >= 3]
    return sorted(internal), sorted(junctions)


def normalise_tensions(t):
    internal, _ = truth_structure(t)
    if not internal:
        return
    mean = sum(t["edges"][e]["T"] for e in internal) / len(internal)
    for r in t["edges"].values():
        r["T"] /= mean


def true_system(t, sim=None):
    """augmented true system M' (dense) in the EMBEDDED frame (the multiplier column of ones makes the
    conditioning of the implementation's formulation depend on the rotation)"""
    internal, junctions = truth_structure(t)
    col = {e: i for i, e in enumerate(internal)}
    n = len(internal)
    A = np.zeros((2 * len(junctions), n))
    for ji, v in enumerate(junctions):
        for e in internal:
            if v in e:
                tt = t["edges"][e]["ta"] if e[0] == v else t["edges"][e]["tb"]
                if sim is not None:
                    tt = embed_dir(sim, tt)
                A[2 * ji, col[e]] = tt.real
                A[2 * ji + 1, col[e]] = tt.imag
    M = np.zeros((A.shape[0] + 1, n + 1))
    M[:-1, :n] = A
    M[:-1, n] = 1.0
    M[-1, :n] = 1.0
    return M, internal, junctions


def tension_tolerance(t, sim=None, eps=3e-4, safety=10.0, lo=2e-3, cap=1e-1):
    """tolerance on a recovered tension: safety * eps * max row 2-norm of pinv(M') * Tmax, where eps bounds the
    accuracy of the fitted tangents (measured: <= 3e-4 for tissues within a few sizes of the origin); None =
    force balance does not determine the tensions well enough (rejected input)"""
    with np.errstate(all="ignore"):
        M, internal, junctions = true_system(t, sim)
        if M.shape[0] < M.shape[1] or len(internal) == 0:
            return None
        try:
            sv = np.linalg.svd(M, compute_uv=False)
            if sv[-1] < 1e-3 * sv[0]:
                return None
            P = np.linalg.pinv(M)
        except Exception:
            return None
        Tmax = max(t["edges"][e]["T"] for e in internal)
        raw = safety * eps * float(np.sqrt((P[:-1] ** 2).sum(axis=1)).max()) * Tmax
    if raw > cap:
        return None
    return max(lo, raw)


# ------------------------------------------------------------------------------------------------
# the static pipeline on one tissue
# ------------------------------------------------------------------------------------------------
def limit_desc(limit):
    """angle limit -> (python value, kind, cos in fixed point)"""
    if limit == "pi":
        return math.pi, "pi", -project.QS
    if limit == "inf":
        return float("inf"), "inf", -3 * project.QS
    return float(limit), "num", fx(math.cos(float(limit)))


def junction_versors(frame, fit, vidx):
    out = []
    tj = set()
    for be in frame.internal_big_edges:
        ids = be.get_vertices_ids()
        tj.add(ids[0])
        tj.add(ids[-1])
    for v in sorted(tj):
        vert = frame.vertices[v]
        d, ends = [], []
        for beid in vert.own_big_edges:
            be = frame.big_edges[beid]
            vs = be.get_versor_from_vertex(v, fit_method=fit)
            d.append([fx(vs[0]), fx(vs[1])])
            bids = be.get_vertices_ids()
            ends.append([vidx.get(bids[0], 0), vidx.get(bids[-1], 0), len(bids)])      # which interface the direction belongs to
        out.append({"v": vidx.get(v, 0), "d": d, "ends": ends})
    return out


def static_events(case, t, k, sim, rng, want, build_opts=None, solve_opts=None, ids=None, resample=None,
                  equilibrium=True, extra_env=None, group=None, with_pressure=False, phys=None, inplace_from=None, snap_seed=None):
    """Run the real pipeline once; returns the list of trace events (all ints/strings/bools)."""
    import forsys as fs
    build_opts = dict(build_opts or {})
    solve_opts = dict(solve_opts or {})
    evs = []
    o = make_case_objects(t, k, inplace_from or sim, rng, ids=ids, resample=resample, snap_seed=snap_seed, **(group or {}))
    vertices, edges, cells = o["vertices"], o["edges"], o["cells"]
    frame = fs.frames.Frame(0, vertices, edges, cells, time=0)
    pre_forsys = None
    if inplace_from is not None:
        # the tissue is first analysed at another embedding, then ALL vertex coordinates are transformed in place on the
        # live objects (as Frame.filter_edges or TimeSeries(cm=True) do) and the analysis is repeated on the same objects
        pre_forsys = fs.ForSys({0: frame}, cm=False)
        try:
            pre_forsys.build_force_matrix(when=0, angle_limit=float("inf"), circle_fit_method=(build_opts or {}).get("fit", "dlite"))
            pre_forsys.solve_stress(when=0)
        except Exception:
            pass
        for vid, mp in o["info"]["model"].items():
            if vid in vertices:
                vertices[vid].x, vertices[vid].y = sim.apply(mp)
    m, vidx, eidx, cidx = project.project_mesh(vertices, edges, cells)
    evs.append({"case": case, "ev": "Mesh", "mesh": m, "raised": "", "src": "infer"})
    f = project.project_frame(frame, vidx, eidx, cidx, lookups=False)
    evs.append({"case": case, "ev": "Frame", "f": f, "raised": ""})
    desc_cells = [c[0] for c in o["desc"]["C"]]
    # model cell index -> mesh cell index (cells may have been permuted by `group`)
    perm = (group or {}).get("cell_perm")
    cell_of_model = {}
    for pos_in_desc, cid in enumerate(desc_cells):
        model_ci = perm[pos_in_desc] if perm else pos_in_desc
        cell_of_model[model_ci] = cidx.get(cid, 0)
    tolT = tension_tolerance(t, sim) if equilibrium else None
    extent = max(1e-300, max(abs(z1 - z2) for z1 in list(t["pos"].values())[:40] for z2 in list(t["pos"].values())[:40]))
    offs = math.hypot(sim.tx, sim.ty) / (extent * sim.scale)
    extra = {"equilibrium": bool(equilibrium and tolT is not None), "tolT": fx(tolT) if tolT else 0,
             "consistent_truth": bool(equilibrium),
             "offset_sizes": int(min(offs, 10 ** 6))}
    if extra_env:
        extra.update(extra_env)
    evs.append(env_event(case, t, k, sim, o["info"], vidx, cell_of_model, want, extra, frame=frame))
    forsys = pre_forsys or fs.ForSys({0: frame}, cm=False)
    lim, lim_kind, lim_cos = limit_desc(build_opts.get("limit", "pi"))
    fit = build_opts.get("fit", "dlite")
    ign4 = bool(build_opts.get("ignore_four", False))
    bev = {"case": case, "ev": "BuildForce", "raised": "",
           "opts": {"limit": lim_kind, "cos": lim_cos, "fit": fit, "ignore_four": ign4}}
    try:
        pre = build_opts.get("prebuild")
        if pre:
            # an earlier build on the same object with other arguments must not influence the judged build
            plim, _, _ = limit_desc(pre.get("limit", "pi"))
            pkw = {"angle_limit": plim, "circle_fit_method": pre.get("fit", "dlite")}
            if pre.get("ignore_four") is not None:
                pkw["metadata"] = {"ignore_four": True} if pre["ignore_four"] else {}
            forsys.build_force_matrix(when=0, **pkw)
        if build_opts.get("via_sysvel") and not ign4 and fit == "dlite":
            # the matrix that get_system_velocity_per_frame(angle_limit=...) generates as a documented side effect
            forsys.get_system_velocity_per_frame(time_interval=[0], angle_limit=lim)
        elif build_opts.get("no_metadata") and not ign4 and lim_kind == "pi" and build_opts.get("default_limit_kwarg", True):
            # the default limit through the default argument (no angle_limit keyword at all)
            forsys.build_force_matrix(when=0, circle_fit_method=fit)
        elif build_opts.get("no_metadata") and not ign4:
            forsys.build_force_matrix(when=0, angle_limit=lim, circle_fit_method=fit)
        else:
            forsys.build_force_matrix(when=0, angle_limit=lim, circle_fit_method=fit,
                                  metadata={"ignore_four": True} if ign4 else {})
        fmx = forsys.force_matrices[0]
        bev["fm"] = project_force_matrix(fmx, vidx, frame)
        bev["vs"] = junction_versors(frame, fit, vidx) if "C16" in want else []
    except Exception as exc:
        import traceback
        bev["raised"] = type(exc).__name__ + ": " + traceback.format_exc()[-300:]
        evs.append(bev)
        if phys is not None:
            o["model_cell_of_desc"] = [perm[i] if perm else i for i in range(len(desc_cells))]
            evs.append(phys_event(case, phys[0], t, o, frame, forsys, vidx, phys[1], raised="build " + bev["raised"]))
        return evs
    evs.append(bev)
    if solve_opts.get("skip"):
        return evs
    method = solve_opts.get("method", "default")
    kwargs = {}
    if method != "default":
        kwargs["method"] = method
    if "allow_negatives" in solve_opts:
        kwargs["allow_negatives"] = solve_opts["allow_negatives"]
    ic = solve_opts.get("initial_condition")
    if ic is not None:
        nint = len(frame.internal_big_edges)
        kwargs["initial_condition"] = [1.0] * nint if ic == "ones" else [rng.uniform(0.3, 2.0) for _ in range(nint)]
    sev = {"case": case, "ev": "SolveStress", "raised": "",
           "opts": {"method": method, "allow_neg": bool(solve_opts.get("allow_negatives", True)), "bmode": "static"}}
    import warnings
    try:
        with warnings.catch_warnings(record=True) as w:
            warnings.simplefilter("always")
            forsys.solve_stress(when=0, **kwargs)
        x = forsys.forces[0]
        xs = [float(x[i]) for i in range(len(x))]
        finite = all(math.isfinite(v) for v in xs)
        in_range = finite and all(abs(v) < 20 for v in xs)
        sev["finite"] = finite
        sev["in_range"] = in_range          # fixed-point range of the oracle; out of range = not judged
        sev["x"] = [fx(v) if in_range else 0 for v in xs]
        sev["b"] = [[0, 0] for _ in bev["fm"]["rows"]]
        sev["warned"] = any("Numerically solving" in str(i.message) for i in w)
    except Exception as exc:
        import traceback
        sev["raised"] = type(exc).__name__ + ": " + traceback.format_exc()[-300:]
    evs.append(sev)
    if with_pressure and not sev["raised"]:
        evs += pressure_events(case, forsys, frame, t, o, vidx, cidx, cell_of_model, rng, resample, lin=phys is None)
    if phys is not None:
        o["model_cell_of_desc"] = [perm[i] if perm else i for i in range(len(desc_cells))]
        evs.append(phys_event(case, phys[0], t, o, frame, forsys, vidx, phys[1], raised=("solve " + sev["raised"]) if sev["raised"] else ""))
    return evs


def project_pressure_matrix(pm, frame, cidx):
    bel = {id(b): i + 1 for i, b in frame.big_edges.items()}
    order = pm.mapping_order                       # cell id -> original column
    removed = set(pm.removed_columns)
    kept = [cid for cid, col in order.items() if col not in removed]
    L = np.asarray(pm.lhs_matrix, dtype=float)
    rows = []
    for q, be in enumerate(pm.big_edges_to_use):
        ent = []
        for j in range(L.shape[1]):
            if L[q, j] != 0.0:
                ent.append([cidx.get(kept[j], 0), int(round(L[q, j])) if abs(L[q, j] - round(L[q, j])) < 1e-12 else 99])
        turn = float(be.calculate_total_curvature(normalized=False))
        rows.append({"i": bel.get(id(be), 0), "c": ent, "rhs": float(pm.rhs_matrix[q]), "turn": fx(turn), "T": float(be.tension)})
    # fixed-point range of the oracle: tensions of singular force systems can be astronomically large; then the values are
    # not logged (in_range false: the value clauses of C04 are not judged, structure and turning still are)
    inr = all(math.isfinite(r["rhs"]) and math.isfinite(r["T"]) and abs(r["rhs"]) < 1900 and abs(r["T"]) < 1900 for r in rows)
    for r in rows:
        r["rhs"], r["T"] = (fx(r["rhs"]), fx(r["T"])) if inr else (0, 0)
    return {"rows": rows, "in_range": inr, "removed": [cidx.get(cid, 0) for cid, col in order.items() if col in removed]}


def pressure_events(case, forsys, frame, t, o, vidx, cidx, cell_of_model, rng, resample, lin=True):
    evs = []
    bev = {"case": case, "ev": "BuildPressure", "raised": "", "resampled": bool(resample)}
    try:
        forsys.build_pressure_matrix(when=0)
        bev["pm"] = project_pressure_matrix(forsys.pressure_matrices[0], frame, cidx)
    except Exception as exc:
        import traceback
        bev["raised"] = type(exc).__name__ + ": " + traceback.format_exc()[-300:]
        evs.append(bev)
        return evs
    evs.append(bev)
    sev = {"case": case, "ev": "SolvePressure", "raised": ""}
    try:
        forsys.solve_pressure(when=0, method="lagrange_pressure")
        cells = frame.cells
        ps = [float(c.pressure) if c.pressure is not None else float("nan") for c in cells.values()]
        fin = all(math.isfinite(v) for v in ps)
        inr = fin and all(abs(v) < 50 for v in ps)          # fixed-point range of the oracle (sums over all cells)
        sev["finite"] = fin
        sev["in_range"] = inr
        sev["p"] = [fx(v) if inr else 0 for v in ps]        # in mesh cell order (dense index)
        # analytic Young-Laplace pressures (model frame), in mesh cell order; 0/known flags
        pa, incons = eq.pressures(t)
        inv = {mesh_c: model_c for model_c, mesh_c in cell_of_model.items()}
        sev["pa"] = [fx(pa.get(inv.get(i + 1, -1), 0.0)) for i in range(len(ps))]
        sev["pa_known"] = [inv.get(i + 1, -1) in pa for i in range(len(ps))]
        sev["pa_consistent"] = bool(incons < 1e-6)
    except Exception as exc:
        import traceback
        sev["raised"] = type(exc).__name__ + ": " + traceback.format_exc()[-300:]
        evs.append(sev)
        return evs
    evs.append(sev)
    if not lin:
        return evs
    # linearity: pressures for assigned tension vectors T1, T2 and a*T1 + b*T2 on the same frame
    try:
        internal = list(frame.internal_big_edges)
        T1 = [rng.uniform(0.2, 2.0) for _ in internal]
        T2 = [rng.uniform(0.2, 2.0) for _ in internal]
        a, b = rng.choice([2.0, 0.5, 3.0]), rng.choice([1.0, 1.5])
        runs = []
        for vec in (T1, T2, [a * x + b * y for x, y in zip(T1, T2)]):
            for be, v in zip(internal, vec):
                be.tension = v
            forsys.build_pressure_matrix(when=0)
            forsys.solve_pressure(when=0, method="lagrange_pressure")
            runs.append([float(c.pressure) for c in frame.cells.values()])
        inr = all(math.isfinite(v) and abs(v) < 300 for r in runs for v in r)
        runs = [[fx(v) if inr else 0 for v in r] for r in runs]
        evs.append({"case": case, "ev": "PressureLin", "raised": "", "in_range": inr, "a": fx(a), "b": fx(b),
                    "p1": runs[0], "p2": runs[1], "p3": runs[2]})
    except Exception as exc:
        import traceback
        evs.append({"case": case, "ev": "PressureLin", "raised": type(exc).__name__ + ": " + traceback.format_exc()[-300:]})
    return evs


# ------------------------------------------------------------------------------------------------
# case specifications (picklable dicts) -> events; shared by C01, C02, C05, C16, C04, C06, C07
# ------------------------------------------------------------------------------------------------
def make_tissue(spec, rng):
    from harness.gen import cattissue
    src = spec["tissue"]
    if src["kind"] == "equilibrium":
        for _ in range(6):
            t = eq.make(rng, src.get("ncells", 20), src.get("mobius", 0.0))
            # steering: a Voronoi edge of 1e-8 tissue sizes (two junctions that all but coincide) is below every resolution in
            # play - its direction is rounding noise in the generator itself; such a tissue is drawn again
            ext = max(abs(a - b) for a in t["pos"].values() for b in t["pos"].values())
            if min(abs(t["pos"][a] - t["pos"][b]) for (a, b) in t["edges"]) > 1e-5 * ext:
                break
        normalise_tensions(t)
        if src.get("noise"):
            for r in t["edges"].values():
                r["T"] *= math.exp(rng.gauss(0.0, src["noise"]))
        return t
    if src["kind"] == "catalogue":
        trng = random.Random(src.get("tseed", 0))
        return cattissue.make(src["base"], cells=src.get("cells"), sagitta=src.get("sagitta"), rng=trng, jitter=src.get("jitter", 0.0))
    raise ValueError(src)


def align_similarity(t, k, sim, rng):
    """the same similarity with its rotation chosen so that the first segment of one interface at a used junction is
    EXACTLY parallel to a coordinate axis (a vanishing chord component; the residual 1e-16 of the floating rotation is
    removed in make_case_objects by copying the junction's coordinate), everything else generic"""
    import cmath
    internal, junctions = truth_structure(t)
    on_cells = set(tissue.base_edges([list(c) for c in t["cells"]])[0])
    cands = [(a, b) for (a, b) in sorted(t["edges"]) if (a in junctions or b in junctions) and (a, b) in on_cells]
    if not cands:
        return sim
    a, b = rng.choice(cands)
    first = a in junctions if not (a in junctions and b in junctions) else rng.random() < 0.5
    pts = eq.interior_points(t, k)[(a, b)]
    end = a if first else b
    nb = complex(*(pts[0] if first else pts[-1])) if pts else t["pos"][b if first else a]
    d = nb - t["pos"][end]
    if sim.reflect:
        d = d.conjugate()
    q = rng.choice([0, 1, 2, 3])
    new = tissue.Similarity(q * math.pi / 2 - cmath.phase(d), sim.scale, sim.tx, sim.ty, reflect=sim.reflect)
    new.exact_axis = ((a, b), first, 2 if q % 2 == 0 else 1)       # V row [id, x, y]: chord along x -> equal y
    return new


def make_similarity(spec, rng):
    s = spec.get("sim")
    if s is None:
        return tissue.Similarity.random(rng)
    if s.get("random"):
        return tissue.Similarity.random(rng, near_axis=s.get("near_axis", False), big=s.get("big", False))
    sc = s.get("scale", 1.0)
    off = s.get("offset_sizes", 0.0)
    ang = s.get("offset_angle", 0.7)
    ext = s.get("extent", 1.0)
    return tissue.Similarity(s.get("theta", 0.0), sc, off * ext * sc * math.cos(ang), off * ext * sc * math.sin(ang),
                             reflect=s.get("reflect", False))


def run_spec(args):
    """worker: (case id, spec) -> (case id, events)"""
    case, spec = args
    # every case starts from forsys' canonical numpy error state (importing lmfit inside an 'lsq' solve leaves
    # it at 'ignore' until the next solve; cases must not depend on which case ran before them in the worker)
    np.seterr(all="raise")
    rng = random.Random(spec.get("seed", 0))
    if spec.get("pair"):
        try:
            return case, pair_events(case, spec, rng)
        except PreStepRaised as exc:
            return case, [{"case": case, "ev": "Skip", "reason": str(exc)[:300]}]
    if spec.get("dynamic"):
        try:
            return case, dynamic_events(case, spec, rng)
        except PreStepRaised as exc:
            return case, [{"case": case, "ev": "Skip", "reason": str(exc)[:300]}]
    t = make_tissue(spec, rng)
    sim0 = make_similarity(spec, rng)
    sim = align_similarity(t, spec.get("k", 3), sim0, rng) if spec.get("align") else sim0
    if spec.get("require_conditioned"):
        for _ in range(12):
            if tension_tolerance(t, sim) is not None:
                break
            t = make_tissue(spec, rng)
            sim = align_similarity(t, spec.get("k", 3), sim0, rng) if spec.get("align") else sim0
    ids = spec.get("ids")
    if ids:
        ids = dict(ids, shuffle=random.Random(spec.get("seed", 0) + 1) if ids.get("shuffle") else None,
                   vperm=random.Random(spec.get("seed", 0) + 2) if ids.get("vperm") else None)
    try:
        return case, _run_spec_inner(case, spec, rng, t, sim, ids)
    except PreStepRaised as exc:
        return case, [{"case": case, "ev": "Skip", "reason": str(exc)[:300]}]


def _group(g):
    if not g:
        return None
    out = {}
    for key in ("flips", "shifts"):
        if g.get(key):
            out[key] = {int(c): v for c, v in g[key].items()}
    if g.get("cell_perm"):
        out["cell_perm"] = list(g["cell_perm"])
    return out


class PreStepRaised(Exception):
    """a step that is not under test in this trace (e.g. generate_mesh) raised: the case is rejected input"""


def _run_spec_inner(case, spec, rng, t, sim, ids):
    evs = static_events(case, t, spec.get("k", 3), sim, rng, spec["want"], build_opts=spec.get("build"),
                        solve_opts={"skip": True} if spec.get("nosolve") else spec.get("solve"), ids=ids, resample=spec.get("resample"),
                        equilibrium=spec["tissue"]["kind"] == "equilibrium" and not spec["tissue"].get("noise"),
                        with_pressure=spec.get("pressure", False), group=_group(spec.get("group")),
                        inplace_from=make_similarity({"sim": spec["inplace_sim"]}, rng) if spec.get("inplace_sim") and not spec.get("resample") else None)
    return evs


def run_specs(ctx, specs, module="Trace_Inference", prefixes=None):
    """execute specs on the real code, validate with TLC, keep only clauses of the given prefixes"""
    from harness import core
    jobs = [(i + 1, s) for i, s in enumerate(specs)]
    results = core.parallel_map(run_spec, jobs, chunksize=2)
    verdicts = ctx.validate(module, results)
    payloads = {i + 1: dict(s) for i, s in enumerate(specs)}
    for cid, evs in results:
        msgs = [f"{e['ev']}: {e['raised']}" for e in evs if e.get("raised")] + [e["reason"] for e in evs if e["ev"] == "Skip"]
        if msgs:
            payloads[cid]["_raised"] = msgs
    if prefixes:
        for vjs in verdicts.values():
            for vj in vjs:
                other = [c for c in vj["fails"] if not any(c.startswith(p) for p in prefixes)]
                if other:
                    ctx.note("clauses of other properties failed on this run (not judged here): " + ",".join(sorted(set(other))))
                vj["fails"] = [c for c in vj["fails"] if any(c.startswith(p) for p in prefixes)]
                vj["kf"] = [c for c in vj["kf"] if any(c.split(":")[1].startswith(p) for p in prefixes)]
                vj["hits"] = [c for c in vj.get("hits", []) if any(c.startswith(p) for p in prefixes)]
    return verdicts, payloads


# ------------------------------------------------------------------------------------------------
# dynamic series (C03; also C05 with a velocity right-hand side)
# ------------------------------------------------------------------------------------------------
def junction_velocities(t):
    """resultant of the interface tensions pulling on each junction-level vertex (model frame, complex)"""
    v = {a: 0j for a in t["pos"]}
    for (a, b), rec in t["edges"].items():
        v[a] += rec["T"] * rec["ta"]
        v[b] += rec["T"] * rec["tb"]
    return v


def straightened(t, newpos):
    edges = {}
    for e, rec in t["edges"].items():
        d = newpos[e[1]] - newpos[e[0]]
        d = d / abs(d)
        edges[e] = dict(rec, ta=d, tb=-d, centre=None, R=float("inf"), theta=0.0)
    return dict(t, pos=newpos, edges=edges)


def dynamic_events(case, spec, rng, units=(1.0, 1.0), phys_run=None):
    import forsys as fs
    sim = make_similarity(spec, rng)
    alpha, beta = units          # common factor on all time stamps / on all lengths (C06 unit changes)
    if beta != 1.0:
        sim = tissue.Similarity(sim.theta, sim.scale * beta, sim.tx * beta, sim.ty * beta, reflect=sim.reflect)
    for _ in range(12):
        t = make_tissue(spec, rng)
        # arbitrary positive tensions of mean one over the inferred interfaces
        for r in t["edges"].values():
            r["T"] = rng.uniform(0.4, 1.8)
        normalise_tensions(t)
        if spec.get("align"):
            sim = align_similarity(t, spec.get("k", 3), sim, rng)
        if tension_tolerance(t, sim) is not None or spec["tissue"]["kind"] != "equilibrium":
            break
    sim_plain = tissue.Similarity(sim.theta, sim.scale, sim.tx, sim.ty, reflect=sim.reflect)   # without the exact-axis request
    k = spec.get("k", 3)
    nframes = spec.get("nframes", 3)
    tau = spec.get("when", 0)
    internal, junctions = truth_structure(t)
    vel = junction_velocities(t)
    used = set(junctions)
    vmax = max([abs(vel[j]) for j in used] + [1e-9])
    spacing = min(abs(t["pos"][a] - t["pos"][b]) for (a, b) in t["edges"])
    extent = max(abs(z1 - z2) for z1 in t["pos"].values() for z2 in t["pos"].values())
    step = spec.get("step_frac", 0.15) * min(spacing, 0.08 * extent * 4)      # model-frame displacement of the fastest junction
    # physical: positions scale with sim.scale, velocities are forces (unit mobility): displacement = dt * v
    dt_tau = step * (sim.scale / beta) / (vmax * float(spec.get("mobility", 1.0)))       # physical time step of the un-rescaled series
    partner = tau + 1 if tau < nframes - 1 else tau - 1
    stamps = [0.0]
    for f in range(1, nframes):
        gap_is_inferred = {f - 1, f} == {tau, partner}
        stamps.append(stamps[-1] + dt_tau * (rng.choice([1.0, 0.3, 0.6]) if gap_is_inferred else rng.choice([1.0, 0.3, 3.0, 12.0])))
    dt = abs(stamps[partner] - stamps[tau]) if partner != tau else dt_tau
    # make the stamp difference between tau and its partner exactly the dt used for the displacement
    # mobility: displacement = mobility * elapsed time * resultant (1 unless the inference is adimensional, where it cancels)
    mob = float(spec.get("mobility", 1.0))
    disp_model = {a: (vel[a] * mob * (dt / (sim.scale / beta)) if a in used else 0j) for a in t["pos"]}
    if spec.get("zero_stamp") is not None and nframes >= 2:
        # the origin of time is arbitrary: a frame other than the first carries the stamp exactly 0.0
        j0 = 1 + spec["zero_stamp"] % (nframes - 1)
        stamps = [s_ - stamps[j0] for s_ in stamps]
    stamps = [alpha * s_ for s_ in stamps]
    frames_t = {}
    for f in range(nframes):
        if f == tau:
            frames_t[f] = t
        elif f == partner:
            sign = 1.0 if partner > tau else -1.0
            newpos = {a: z + sign * disp_model[a] for a, z in t["pos"].items()}
            frames_t[f] = straightened(t, newpos)
        else:
            jit = 0.03 * spacing
            newpos = {a: z + complex(rng.uniform(-jit, jit), rng.uniform(-jit, jit)) for a, z in t["pos"].items()}
            frames_t[f] = straightened(t, newpos)
    frames, objs = {}, {}
    for f in range(nframes):
        ids = {"offset": rng.choice([0, 5, 40]), "stride": rng.choice([1, 2, 3]), "shuffle": random.Random(rng.randrange(10 ** 9))}
        if rng.random() < 0.6:
            ids["vperm"] = random.Random(rng.randrange(10 ** 9))
        o = make_case_objects(frames_t[f], k, sim if f == tau else sim_plain, rng, ids=ids)
        if f in (tau, partner) and rng.random() < 0.4:
            # "independent of how each frame numbers its vertices" includes the number 0 landing on a used junction
            for _try in range(40):
                if any(o["info"]["newid"].get(j) == 0 for j in used):
                    break
                ids = {"offset": 0, "stride": ids["stride"], "shuffle": random.Random(rng.randrange(10 ** 9)),
                       "vperm": random.Random(rng.randrange(10 ** 9))}
                o = make_case_objects(frames_t[f], k, sim if f == tau else sim_plain, rng, ids=ids)
        objs[f] = o
        frames[f] = fs.frames.Frame(f, o["vertices"], o["edges"], o["cells"], time=stamps[f])
    evs = []
    o = objs[tau]
    frame = frames[tau]
    m, vidx, eidx, cidx = project.project_mesh(o["vertices"], o["edges"], o["cells"])
    evs.append({"case": case, "ev": "Mesh", "mesh": m, "raised": "", "src": "dynamic"})
    evs.append({"case": case, "ev": "Frame", "f": project.project_frame(frame, vidx, eidx, cidx, lookups=False), "raised": ""})
    cell_of_model = {ci: cidx.get(c[0], 0) for ci, c in enumerate(o["desc"]["C"])}
    tol_static = tension_tolerance(t, sim)
    tolD = None
    if tol_static is not None:
        with np.errstate(all="ignore"):
            M, _, J = true_system(t, sim)
            P = np.linalg.pinv(M)
            pn = float(np.sqrt((P[:-1] ** 2).sum(axis=1)).max())
        tolD = tol_static + 3.0 * pn * 5e-4 * math.sqrt(2 * len(J))
        if tolD > 0.15:
            tolD = None
    extent_e = extent * sim.scale
    extra = {"equilibrium": False, "tolT": 0, "dynamic": tolD is not None, "tolD": fx(tolD) if tolD else 0, "consistent_truth": True,
             "offset_sizes": int(min(math.hypot(sim.tx, sim.ty) / extent_e, 10 ** 6)),
             "nframes": nframes, "when": tau, "tolC": fx(tol_static) if tol_static else 0, "conditioned": tol_static is not None}
    evs.append(env_event(case, t, k, sim, o["info"], vidx, cell_of_model, spec["want"], extra, frame=frame))
    forsys = fs.ForSys(frames, cm=False)
    fit = spec.get("build", {}).get("fit", "dlite")
    bev = {"case": case, "ev": "BuildForce", "raised": "", "opts": {"limit": "inf", "cos": -3 * project.QS, "fit": fit, "ignore_four": False}}
    try:
        forsys.build_force_matrix(when=tau, angle_limit=float("inf"), circle_fit_method=fit)
        fmx = forsys.force_matrices[tau]
        bev["fm"] = project_force_matrix(fmx, vidx, frame)
        bev["vs"] = []
        if not spec.get("solve", {}).get("adimensional") and rng.random() < 0.3:
            # documented workflow: ask for the frame's system velocity (adimensional evaluation) on the built matrix first
            fmx.set_velocity_matrix(forsys.mesh, b_matrix="velocity", adimensional_velocity=True)
        b_un, _ = fmx.set_velocity_matrix(forsys.mesh, b_matrix="velocity",
                                          **({"adimensional_velocity": True} if spec.get("solve", {}).get("adimensional") else {}))
        b3 = np.asarray(b_un, dtype=float).flatten().round(3)
    except Exception as exc:
        import traceback
        bev["raised"] = type(exc).__name__ + ": " + traceback.format_exc()[-300:]
        evs.append(bev)
        if phys_run is not None:
            o["model_cell_of_desc"] = list(range(len(o["desc"]["C"])))
            g = {"rot": [[fx(sim.rot[0][0]), fx(sim.rot[0][1])], [fx(sim.rot[1][0]), fx(sim.rot[1][1])]], "kind": "units"}
            evs.append(phys_event(case, phys_run, t, o, frame, forsys, vidx, g, when=tau, raised="build " + bev["raised"]))
        return evs
    evs.append(bev)
    method = spec.get("solve", {}).get("method", "default")
    kwargs = {"b_matrix": "velocity"}
    adim = bool(spec.get("solve", {}).get("adimensional"))
    if adim:
        kwargs["adimensional_velocity"] = True
    if method != "default":
        kwargs["method"] = method
    sev = {"case": case, "ev": "SolveStress", "raised": "",
           "opts": {"method": method, "allow_neg": True, "bmode": "velocity"}}
    try:
        forsys.solve_stress(when=tau, **kwargs)
        x = forsys.forces[tau]
        xs = [float(x[i]) for i in range(len(x))]
        finite = all(math.isfinite(v) for v in xs) and bool(np.all(np.isfinite(b3)))
        in_range = finite and all(abs(v) < 20 for v in xs) and bool(np.all(np.abs(b3) < 1900))
        sev["finite"] = finite
        sev["in_range"] = in_range
        sev["x"] = [fx(v) if in_range else 0 for v in xs]
        sev["b"] = [[fx(b3[r["r"]]), fx(b3[r["r"] + 1])] if in_range else [0, 0] for r in bev["fm"]["rows"]]
        sev["warned"] = False
    except Exception as exc:
        import traceback
        sev["raised"] = type(exc).__name__ + ": " + traceback.format_exc()[-300:]
    evs.append(sev)
    if phys_run is not None:
        o["model_cell_of_desc"] = list(range(len(o["desc"]["C"])))
        g = {"rot": [[fx(sim.rot[0][0]), fx(sim.rot[0][1])], [fx(sim.rot[1][0]), fx(sim.rot[1][1])]], "kind": "units"}
        evs.append(phys_event(case, phys_run, t, o, frame, forsys, vidx, g, when=tau,
                              raised=("solve " + sev["raised"]) if sev["raised"] else ""))
    return evs


# ------------------------------------------------------------------------------------------------
# two-run equivariance cases (C06: similarity / units, C07: labels / storage order / orientation)
# ------------------------------------------------------------------------------------------------
class quiet_np:
    """forsys prints while it solves; numpy's error state is left as the package sets it"""
    def __enter__(self):
        from harness import core
        self.cm = core.quiet_stdout()
        return self.cm.__enter__()

    def __exit__(self, *a):
        return self.cm.__exit__(*a)


def phys_event(case, run, t, o, frame, forsys, vidx, g, when=0, raised=""):
    """results keyed by PHYSICAL identity (junction-level vertex ids of the tissue, model cell index), obtained by
    undoing the known relabelling of this run (projection, no judgement)"""
    info = o["info"]
    inv = {nid: v for v, nid in info["newid"].items()}
    ekeys = sorted(t["edges"])
    qof = {frozenset(e): i + 1 for i, e in enumerate(ekeys)}

    def q_of(be):
        vs = be.vertices
        a, b = inv.get(vs[0].id), inv.get(vs[-1].id)
        return qof.get(frozenset((a, b)), 0) if a is not None and b is not None else 0

    internal = list(frame.internal_big_edges)
    x = forsys.forces.get(when)
    tens = []
    if x is not None:
        for k_, be in enumerate(internal):
            tens.append([q_of(be), fx(float(x[k_]))])
    fm = forsys.force_matrices.get(when)
    coefs, junctions = [], []
    if fm is not None:
        M = np.asarray(fm.matrix, dtype=float)
        colq = []
        for be_ids in fm.big_edges_to_use:
            a, b = inv.get(be_ids[0]), inv.get(be_ids[-1])
            colq.append(qof.get(frozenset((a, b)), 0) if a is not None and b is not None else 0)
        bverts = sorted(t["pos"])
        bidx = {v: i + 1 for i, v in enumerate(bverts)}
        for vid, r in fm.map_vid_to_row.items():
            bv = inv.get(vid)
            junctions.append(bidx.get(bv, 0))
            for c in range(M.shape[1]):
                if M[r, c] != 0.0 or M[r + 1, c] != 0.0:
                    coefs.append([colq[c], bidx.get(bv, 0), fx(M[r, c]), fx(M[r + 1, c])])
    # model cell index: position in the tissue's cell list; desc cell ids were assigned from that position
    desc_cells = o["desc"]["C"]
    pres = []
    ids = o.get("ids_used") or {}
    for pos_in_desc, (cid, _) in enumerate(desc_cells):
        cell = frame.cells.get(cid)
        if cell is not None and cell.pressure is not None and math.isfinite(float(cell.pressure)):
            pres.append([o["model_cell_of_desc"][pos_in_desc] + 1, fx(float(cell.pressure))])
    # the pressure step on tensions ASSIGNED by physical interface (the same values in both runs of a pair, whatever the
    # tension solve gave): pressures keyed by physical cell; compared by TLC whenever the cell graph is connected
    pres2 = []
    if g.get("kind") != "units" and fm is not None and not raised:
        saved = [(be, be.tension) for be in internal]
        try:
            for be in internal:
                q = q_of(be)
                be.tension = 1.0 if q == 0 else 0.5 + ((q * 37) % 101) / 100.0
            with quiet_np():
                forsys.build_pressure_matrix(when=when)
                forsys.solve_pressure(when=when, method="lagrange_pressure")
            vals = []
            for pos_in_desc, (cid, _) in enumerate(desc_cells):
                cell = frame.cells.get(cid)
                if cell is not None and cell.pressure is not None:
                    vals.append([o["model_cell_of_desc"][pos_in_desc] + 1, float(cell.pressure)])
            if all(math.isfinite(v) and abs(v) < 1000 for _, v in vals):
                pres2 = [[c, fx(v)] for c, v in vals]
        except Exception:
            pres2 = []
        finally:
            for be, v in saved:
                be.tension = v
    return {"case": case, "ev": "Phys", "run": run, "g": g, "tens": tens, "coefs": coefs, "junctions": sorted(junctions),
            "internal": sorted(q_of(be) for be in internal), "pres": pres, "pres2": pres2,
            # a build / solve of this run that raised: the run is logged all the same (a transformation after which the
            # analysis raises has not left the results unchanged)
            "raised": str(raised)[:80]}


def pair_events(case, spec, rng):
    """two runs of the same abstract tissue: run 1 under (sim, ids, group) = spec['runA'], run 2 under spec['runB']"""
    import forsys as fs
    if spec.get("pair_kind") == "units":
        # the same dynamic series in two unit systems: all time stamps x alpha and / or all lengths x beta
        evs = []
        for run, units in ((1, (1.0, 1.0)), (2, tuple(spec["units"]))):
            np.seterr(all="raise")
            evs += dynamic_events(case, spec, random.Random(spec.get("seed", 0)), units=units, phys_run=run)
        return evs
    t = make_tissue(spec, rng)
    k = spec.get("k", 3)
    simA = make_similarity({"sim": spec["runA"].get("sim")}, rng)
    if spec.get("require_conditioned"):
        for _ in range(12):
            if tension_tolerance(t, simA) is not None:
                break
            t = make_tissue(spec, rng)
    evs = []
    for run, rs in ((1, spec["runA"]), (2, spec["runB"])):
        np.seterr(all="raise")
        sim = make_similarity({"sim": rs.get("sim")}, rng) if run == 2 else simA
        ids = rs.get("ids")
        if ids:
            ids = dict(ids, shuffle=random.Random(ids["shuffle"]) if ids.get("shuffle") else None,
                       vperm=random.Random(ids["vperm"]) if ids.get("vperm") else None)
        group = _group(rs.get("group"))
        tol = tension_tolerance(t, sim)
        g = {"rot": [[fx(sim.rot[0][0]), fx(sim.rot[0][1])], [fx(sim.rot[1][0]), fx(sim.rot[1][1])]],
             "kind": spec.get("pair_kind", "similarity")}
        sub = static_events(case, t, k, sim, rng, spec["want"], build_opts=spec.get("build"), solve_opts=spec.get("solve"),
                            ids=ids, resample=None, equilibrium=spec["tissue"]["kind"] == "equilibrium" and not spec["tissue"].get("noise"),
                            group=group, with_pressure=spec.get("pressure", True), phys=(run, g),
                            inplace_from=simA if (run == 2 and spec.get("inplace")) else None,
                            snap_seed=spec.get("snap_seed"),
                            extra_env={"tolC": fx(tol) if tol else 0, "conditioned": tol is not None})
        evs += sub
    return evs

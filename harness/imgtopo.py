"""Independent image analysis for C15: the *truth* about a skeleton image.

numpy / scipy.ndimage only (no OpenCV, nothing from forsys). What is computed here are raw pixel
statistics and the planar graph drawn by the skeleton (junction clusters = nodes, pixel chains =
lines, 4-connected background components = regions). Every decision built on it (premise, which
regions are cells, which touch the outside, which pairs share a boundary line ending in an interior
junction) is a TLA+ predicate of spec/Skeleton.tla evaluated by TLC on the logged numbers.

Conventions: the image is a 2-D uint8 array, foreground (skeleton) = non-zero, background = 0.
The outermost one-pixel ring is the frame (white in the shipped files); `interior` = img[1:-1, 1:-1]
is what the parser works on. Pixel (row r, column c) of the interior corresponds to the parser's
vertex position (x = c, y = r)  (y = max_y - r with mirror_y).

Neighbourhood code of a pixel: bit k set iff the k-th neighbour is foreground, in the order
E, NE, N, NW, W, SW, S, SE (counter-clockwise on the screen, rows growing downwards: N = row - 1).
"""
import numpy as np
import scipy.ndimage as ndi

OFFS = [(0, 1), (-1, 1), (-1, 0), (-1, -1), (0, -1), (1, -1), (1, 0), (1, 1)]
S8 = np.ones((3, 3), dtype=int)


def nbr_codes(fg):
    """int32 array of 8-neighbourhood codes (zero padding outside the array)"""
    H, W = fg.shape
    p = np.pad(fg.astype(np.int32), 1)
    c = np.zeros((H, W), np.int32)
    for k, (dr, dc) in enumerate(OFFS):
        c |= p[1 + dr:1 + dr + H, 1 + dc:1 + dc + W] << k
    return c


def yokoi8(code):
    """8-connectivity number of a neighbourhood code (Yokoi); 1 <=> deleting the centre keeps the
    8-topology of the foreground and the 4-topology of the background (8-simple point or end point)"""
    x = [(code >> k) & 1 for k in range(8)]
    xb = [1 - v for v in x] + [1 - x[0]]
    return sum(xb[k] - xb[k] * xb[k + 1] * xb[k + 2] for k in (0, 2, 4, 6))


POP = np.array([bin(c).count("1") for c in range(256)])
NC8 = np.array([yokoi8(c) for c in range(256)])


def analyse(img, radius=2):
    """-> (truth dict for the Env event, aux dict with label arrays for the projection)"""
    with np.errstate(all="ignore"):
        img = np.asarray(img)
        full = img > 0
        ring = np.concatenate([full[0], full[-1], full[:, 0], full[:, -1]])
        fg = full[1:-1, 1:-1]
        h, w = fg.shape
        ring2 = np.concatenate([fg[0], fg[-1], fg[:, 0], fg[:, -1]])
        codes = nbr_codes(fg)
        hist = np.bincount(codes[fg], minlength=256)
        _, ncomp = ndi.label(fg, structure=S8)
        lab, nreg = ndi.label(~fg)                      # 4-connectivity (default structure)
        area = np.bincount(lab.ravel(), minlength=nreg + 1)
        edge_labels = set(np.unique(np.concatenate([lab[0], lab[-1], lab[:, 0], lab[:, -1]]))) - {0}
        # nodes: 8-connected groups of skeleton pixels with >= 3 skeleton neighbours
        jmask = fg & (POP[codes] >= 3)
        jl, nj = ndi.label(jmask, structure=S8)
        jsize = np.bincount(jl.ravel(), minlength=nj + 1)
        # lines: 8-connected groups of the remaining skeleton pixels (two chains are never 8-adjacent:
        # a pixel with two skeleton neighbours has no third one)
        cmask = fg & ~jmask
        cl, nl = ndi.label(cmask, structure=S8)
        plab = np.pad(lab, 1)
        pjl = np.pad(jl, 1)
        rr, cc = np.nonzero(cmask)
        regs = [set() for _ in range(nl + 1)]
        ends = [set() for _ in range(nl + 1)]
        length = np.bincount(cl.ravel(), minlength=nl + 1)
        for dr, dc in OFFS:
            lr = plab[rr + 1 + dr, cc + 1 + dc]
            jr = pjl[rr + 1 + dr, cc + 1 + dc]
            ids = cl[rr, cc]
            for i in np.nonzero(lr)[0]:
                regs[ids[i]].add(int(lr[i]))
            for i in np.nonzero(jr)[0]:
                ends[ids[i]].add(int(jr[i]))
        lines = [{"regs": sorted(regs[k]), "ends": sorted(ends[k]), "len": int(length[k])} for k in range(1, nl + 1)]
        truth = {
            "h": int(h), "w": int(w),
            "frame_white": bool(ring.all()),
            "ring2_black": bool(not ring2.any()),
            "nfg": int(fg.sum()), "ncomp": int(ncomp),
            "hist": [[int(c), int(n)] for c, n in enumerate(hist) if n],
            "nreg": int(nreg),
            "area": [int(a) for a in area[1:]],
            "outside": sorted(int(x) for x in edge_labels),
            "csize": [int(s) for s in jsize[1:]],
            "lines": lines,
        }
        first = _first_walk(fg, lab, jl, cl, codes, lines, edge_labels)
        if first is not None:
            truth["first"] = first
        aux = {"lab": lab, "fg": fg, "radius": radius}
        return truth, aux


def _first_walk(fg, lab, jl, cl, codes, lines, edge_labels):
    """Boundary walk of the enclosed region R0 that contains the first enclosed background pixel in raster
    order, from the skeleton pixel left of that pixel BACKWARDS with respect to a clockwise (on screen) border
    following: [[0, line index] | [1, cluster index], ...] (1-based indices into lines / csize). Used only by the
    known-finding matcher KF_StaleLastEdge (Skeleton.tla); None if the boundary is not a simple cycle."""
    enclosed = np.ones(lab.max() + 1, bool)
    enclosed[0] = False
    for x in edge_labels:
        enclosed[x] = False
    mask = enclosed[lab]
    if not mask.any():
        return None
    flat = int(np.argmax(mask))
    r0, c0 = divmod(flat, lab.shape[1])
    R0 = int(lab[r0, c0])
    s = (r0, c0 - 1)
    if c0 == 0 or not fg[s]:
        return None
    mine = [i for i, l in enumerate(lines) if R0 in l["regs"]]
    at_cluster = {}
    for i in mine:
        for k in lines[i]["ends"]:
            at_cluster.setdefault(k, []).append(i)
    if any(len(v) != 2 for v in at_cluster.values()) or any(len(lines[i]["ends"]) != 2 for i in mine):
        return None
    H, W = fg.shape

    def fgn(p):  # skeleton neighbours of p, clockwise on screen starting after East: SE, S, SW, W, NW, N, NE, E
        out = []
        for k in (7, 6, 5, 4, 3, 2, 1, 0):
            dr, dc = OFFS[k]
            q = (p[0] + dr, p[1] + dc)
            if 0 <= q[0] < H and 0 <= q[1] < W and fg[q]:
                out.append(q)
        return out

    walk = []
    if jl[s]:
        k = int(jl[s])
        if k not in at_cluster:
            return None
        walk.append([1, k])
        # of the two lines of R0 at this cluster, the predecessor is found first when turning clockwise from East
        best = None
        for i in at_cluster[k]:
            rr, cc = np.nonzero(cl == i + 1)
            d = (rr - s[0]) ** 2 + (cc - s[1]) ** 2
            j = int(np.argmin(d))
            ang = float(np.arctan2(rr[j] - s[0], cc[j] - s[1])) % (2 * np.pi)
            if ang == 0.0:
                ang = 2 * np.pi
            if best is None or ang < best[0]:
                best = (ang, i)
        line = best[1]
        came_from = k
    else:
        line = int(cl[s]) - 1
        if line not in mine:
            return None
        # follow the chain from s through its clockwise-first neighbour to the cluster at that end
        prev, cur = s, fgn(s)[0]
        guard = 0
        while not jl[cur] and guard < 100000:
            nb = [q for q in fgn(cur) if q != prev]
            if not nb:
                return None
            prev, cur = cur, nb[0]
            guard += 1
        back = int(jl[cur])
        walk.append([0, line + 1])
        walk.append([1, back])
        nxt = [i for i in at_cluster.get(back, []) if i != line]
        if len(nxt) != 1:
            return None
        came_from = back
        line = nxt[0]
    # alternate line, cluster, ... around R0 until the start element comes back
    start = tuple(walk[0])
    for _ in range(4 * len(mine) + 4):
        item = (0, line + 1)
        if item == start:
            break
        walk.append(list(item))
        other = [k for k in lines[line]["ends"] if k != came_from]
        if len(other) != 1:
            return None
        k = other[0]
        if (1, k) == start:
            break
        walk.append([1, k])
        nxt = [i for i in at_cluster[k] if i != line]
        if len(nxt) != 1:
            return None
        came_from, line = k, nxt[0]
    return {"reg": R0, "walk": walk}


def labels_near(aux, x, y, mirror_max_y=None):
    """region labels within Chebyshev distance `radius` of the pixel nearest to vertex position (x, y)"""
    lab = aux["lab"]
    R = aux["radius"]
    if mirror_max_y is not None:
        y = mirror_max_y - y
    r, c = int(round(y)), int(round(x))
    h, w = lab.shape
    win = lab[max(0, r - R):min(h, r + R + 1), max(0, c - R):min(w, c + R + 1)]
    return set(int(v) for v in np.unique(win)) - {0}

"""./check selftest — demonstrates that the trace specifications are bound to what they read (DESIGN §3.4):
a recorded trace of the real pipeline is accepted; the same trace with ONE logged field corrupted is rejected with the
expected clause. Not part of any property's command; exits 0 iff every expectation holds."""
import copy
import random
import sys

from harness import core, infer, tissue
from harness.gen import cattissue


def _events(limit="inf", want=("C02", "C05", "C04")):
    spec = {"tissue": {"kind": "catalogue", "base": "hex33", "sagitta": 0.12, "tseed": 4}, "k": 4, "seed": 7,
            "want": list(want),
            "sim": {"theta": 0.52, "scale": 1.3, "offset_sizes": 0.4, "extent": 10.0},
            "build": {"limit": limit, "fit": "taubinSVD"}, "solve": {"method": "default"}, "pressure": True}
    with core.quiet_stdout():
        _, evs = infer.run_spec((1, spec))
    return evs


def _get(evs, name):
    return [e for e in evs if e["ev"] == name][0]


def corruptions():
    """(label, mutator(evs), trace module, expected clause prefix)"""
    def coef(evs):
        _get(evs, "BuildForce")["fm"]["rows"][0]["e"][0][1] += 200000
    def extra_entry(evs):
        row = _get(evs, "BuildForce")["fm"]["rows"][0]
        used = {e[0] for e in row["e"]}
        free = [c for c in range(1, _get(evs, "BuildForce")["fm"]["ncols"] + 1) if c not in used][0]
        row["e"].append([free, 1000, 0])
    def drop_row(evs):
        _get(evs, "BuildForce")["fm"]["rows"].pop()
    def tension(evs):
        x = _get(evs, "SolveStress")["x"]
        i = max(range(len(x)), key=lambda j: x[j])
        x[i] = int(x[i] * 1.05)
    def minus_one(evs):
        x = _get(evs, "SolveStress")["x"]
        i = [j for j, v in enumerate(x) if v != -1000000][0]
        x[i] = -1000000
    def pressure_sign(evs):
        rows = _get(evs, "BuildPressure")["pm"]["rows"]
        r = max(rows, key=lambda q: abs(q["rhs"]))
        r["c"][0][1], r["c"][1][1] = r["c"][1][1], r["c"][0][1]
    def pressure_value(evs):
        p = _get(evs, "SolvePressure")["p"]
        p[0] += 20000
    def internal_list(evs):
        _get(evs, "Frame")["f"]["internal"].pop()
    return [("coefficient pair off by 0.2", coef, "C02.coefficients"),
            ("spurious non-zero coefficient", extra_entry, "C02.zeros"),
            ("a junction's equations removed", drop_row, "C02.junction_missing"),
            ("largest tension scaled by 1.05", tension, "C05.kkt"),
            ("a kept interface reported as -1 [angle-limited trace]", minus_one, "C16.minus_one_positions"),
            ("+1/-1 of a pressure equation swapped", pressure_sign, "C04.sign_rule"),
            ("one pressure shifted by 0.02", pressure_value, "C04."),
            ("last internal interface not listed", internal_list, "C")]


def main():
    core.import_forsys()
    ctx = core.Ctx("selftest", "quick", 0, "other")
    base = _events()
    limited = _events(limit=2.9, want=("C16",))
    ok = True
    v = ctx.validate("Trace_Inference", [(1, base)])
    fails = sorted({c for vj in v[1] for c in vj["fails"]})
    print(f"recorded trace: {len(base)} events, failing clauses: {fails or 'none'}")
    ok &= not fails
    for label, mut, expect in corruptions():
        evs = copy.deepcopy(limited if "angle-limited" in label else base)
        mut(evs)
        try:
            v = ctx.validate("Trace_Inference", [(1, evs)])
            fails = sorted({c for vj in v[1] for c in vj["fails"]})
        except core.MachineryFailure as exc:
            fails = ["MACHINERY: " + str(exc)[:80]]
        hit = any(c.startswith(expect) for c in fails)
        print(f"  corrupted ({label}): {'REJECTED' if hit else 'NOT REJECTED'} with {fails}")
        ok &= hit
    print("selftest", "passed" if ok else "FAILED")
    return 0 if ok else 1

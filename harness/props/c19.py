"""C19 — tessellation lattices match the Voronoi diagram of the given centres.

Spec -> code: TLC (MC_Tessellation) enumerates abstract Voronoi outputs (patches of regions x listing order x
start corner x rotational sense of every region x cut-off), checks that the implementation-shaped walk I
satisfies the declarative verdict D (Tessellation.tla), and prints every leaf. Each leaf is handed to the real
`create_lattice(*create_lattice_elements(...))` through a stub in place of scipy.spatial.Voronoi.
Code -> spec: the projected lattice of every call (stubbed and real-SciPy centre sets: random, jittered, exactly
square / hexagonal, 6..300 centres, with / without the add_voronoi_centers ring, cut-off tight..infinite) is
judged by TLC (Trace_Tessellation) against D; for real centre sets the Env event is computed from an independent
scipy.spatial.Voronoi call on the same centres. Python never decides pass/fail."""
import math
import random
import types

import numpy as np

from harness import core, project
from harness.gen import centres as gen_centres

LEVEL = "model_checking"
PID = "C19"
BOUND = 10 ** 9            # Tessellation.tla BOUND (milli-units); the projection saturates just above it
INF_CUT = 2147483000       # Tessellation.tla INF_CUT
BIG = 2 * 10 ** 9


def _sat(v, lim):
    return int(max(-lim, min(lim, v)))


def _milli(x):
    """float -> (nearest 3-decimal number in integer milli-units, what is left in 1e-9 units)"""
    with np.errstate(all="ignore"):
        t = float(x) * 1000.0
        if not math.isfinite(t):
            return (BOUND + 1 if t > 0 else -(BOUND + 1)), 0
        r = float(np.rint(t))
        return _sat(r, BOUND + 1), _sat(round((t - r) * 1e6), 500000)


def _cut_milli(md):
    if md == float("inf"):
        return INF_CUT
    return _sat(round(md * 1000.0), BIG)


def env_of(vertices, regions, md):
    """abstract Voronoi output (Tessellation.tla `env`) from SciPy-shaped data; copies numbers only"""
    with np.errstate(all="ignore"):
        V = np.asarray(vertices, dtype=float).reshape(-1, 2)
        pr = [[_milli(x), _milli(y)] for x, y in V]
        diam = []
        for reg in regions:
            if len(reg) == 0 or -1 in reg:
                diam.append(0)
                continue
            pts = V[list(reg)]
            d = float(np.sqrt(((pts[:, None, :] - pts[None, :, :]) ** 2).sum(-1)).max())
            diam.append(_sat(round(d * 1000.0), BIG) if math.isfinite(d) else BIG)
    return {"P": [[a[0], b[0]] for a, b in pr], "res": [[a[1], b[1]] for a, b in pr],
            "R": [[int(v) + 1 for v in reg] for reg in regions], "diam": diam, "cut": _cut_milli(md)}


class _Patched:
    """every way tessellation.py could reach scipy.spatial.Voronoi is redirected to `fn` (restored on exit)"""

    def __init__(self, T, fn):
        self.T, self.fn, self.undo = T, fn, []

    def __enter__(self):
        import scipy.spatial as sp
        real = sp.Voronoi
        for name, val in list(vars(self.T).items()):
            if val is real:
                self.undo.append((self.T, name, val))
                setattr(self.T, name, self.fn)
            elif isinstance(val, types.ModuleType) and getattr(val, "Voronoi", None) is real:
                shim = types.SimpleNamespace(**{k: getattr(val, k) for k in dir(val) if not k.startswith("__")})
                shim.Voronoi = self.fn
                self.undo.append((self.T, name, val))
                setattr(self.T, name, shim)

    def __exit__(self, *a):
        for obj, name, val in self.undo:
            setattr(obj, name, val)


def lattice_of(pts, md, stub=None):
    """run the code under test; returns the `lat` record (projection only, no references kept)"""
    import forsys.tessellation as T
    raised, m = "", {"nv": 0}
    calls = []

    def fake(points, *a, **k):
        calls.append(1)
        return stub
    try:
        if stub is not None:
            with _Patched(T, fake):
                ve, ed, ce = T.create_lattice(*T.create_lattice_elements(pts, max_distance=md))
        else:
            ve, ed, ce = T.create_lattice(*T.create_lattice_elements(pts, max_distance=md))
    except Exception as exc:
        raised = type(exc).__name__
    if stub is not None and not calls:
        raise core.MachineryFailure("the Voronoi stub was not reached by create_lattice_elements")
    if not raised:
        try:
            m, _, _, _ = project.project_mesh(ve, ed, ce)
            pr = [[_milli(ve[k].x), _milli(ve[k].y)] for k in ve.keys()]
            m["pos"] = [[a[0], b[0]] for a, b in pr]
            m["res"] = [[a[1], b[1]] for a, b in pr]
        except Exception as exc:
            raise core.MachineryFailure(f"projection of the lattice failed: {exc!r}")
        del ve, ed, ce
    return {"raised": raised, "mesh": m}


# ---------------------------------------------------------------------------------------------------------
# (a) instances enumerated by TLC, through a stub
# ---------------------------------------------------------------------------------------------------------
def _mc_job(args):
    case, inst, seed = args
    rng = random.Random(f"{seed}:{inst['name']}:{case}")
    mode = rng.choice(["none", "sub", "sub", "sub"])   # sub-resolution noise: exercises the rounding itself
    amp = 0.0 if mode == "none" else 0.4e-3
    verts = [[x / 1000.0 + rng.uniform(-amp, amp), y / 1000.0 + rng.uniform(-amp, amp)] for x, y in inst["P"]]
    regions = [[v - 1 for v in reg] for reg in inst["R"]]
    md = float("inf") if inst["cut"] == INF_CUT else inst["cut"] / 1000.0
    env = env_of(verts, regions, md)
    if env["P"] != inst["P"] or env["R"] != inst["R"] or env["cut"] != inst["cut"]:
        raise core.MachineryFailure(f"stub data do not reproduce the enumerated instance (case {case})")
    env["diam"] = inst["diam"]   # the model's own diameters (floor of the exact value); noise < BAND
    stub = types.SimpleNamespace(vertices=np.array(verts, dtype=float), regions=[list(r) for r in regions],
                                 point_region=np.arange(len(regions)), points=np.zeros((1, 2)))
    lat = lattice_of([(0.0, 0.0), (1.0, 0.0), (0.0, 1.0)], md, stub=stub)
    return case, [{"case": case, "ev": "Env", "env": env}, {"case": case, "ev": "Lattice", "lat": lat}]


# ---------------------------------------------------------------------------------------------------------
# (b) real centre sets through the real SciPy
# ---------------------------------------------------------------------------------------------------------
CUTMODES = ["inf", "q50", "q80", "q20", "x1.05", "x0.95", "huge", "q95"]


def _choose_cut(ds, mode, rng):
    """a cut-off between two region diameters (input choice, not a verdict)"""
    if mode == "inf":
        return float("inf")
    if mode == "huge" or not ds:
        return 1.0e5
    ds = sorted(ds)
    if mode.startswith("x"):
        return round(ds[len(ds) // 2] * float(mode[1:]), 3)
    k = min(len(ds) - 1, max(1, int(float(mode[1:]) / 100.0 * len(ds))))
    a, b = ds[k - 1], ds[k]
    md = round((a + b) / 2.0, 3) if b - a > 0.02 else round(b + 0.05 + 0.01 * rng.random(), 3)
    for _ in range(200):   # steer away from every diameter (TLC still rejects whatever lands in the band)
        if all(abs(d - md) > 0.004 for d in ds):
            break
        md = round(md + 0.003, 3)
    return md


def real_case(case, spec):
    import scipy.spatial as sp
    import forsys.tessellation as T
    pts = gen_centres.centres(spec["gen"], spec["n"], spec["seed"])
    if spec["ring"]:
        try:
            pts = pts + [(float(a), float(b)) for a, b in T.add_voronoi_centers(pts)]
        except Exception as exc:
            raise core.MachineryFailure(f"add_voronoi_centers raised {exc!r} on {spec}")
    with np.errstate(all="ignore"):
        vor = sp.Voronoi(np.array(pts, dtype=float))        # independent of the call inside the code
        ds = []
        for reg in vor.regions:
            if len(reg) and -1 not in reg:
                p = vor.vertices[reg]
                ds.append(float(np.sqrt(((p[:, None, :] - p[None, :, :]) ** 2).sum(-1)).max()))
    md = _choose_cut(ds, spec["cut"], random.Random(f"cut:{spec['seed']}"))
    env = env_of(vor.vertices, vor.regions, md)
    nkept = sum(1 for d in ds if d < md)
    del vor
    lat = lattice_of(pts, md)
    return [{"case": case, "ev": "Env", "env": env}, {"case": case, "ev": "Lattice", "lat": lat}], nkept, md


def _real_job(args):
    case, spec = args
    evs, nkept, md = real_case(case, spec)
    return case, evs, nkept, md


def _real_specs(ctx):
    specs = []
    sizes = ctx.pick([6, 9, 16, 30, 64, 120], [6, 7, 9, 12, 16, 25, 30, 49, 64, 100, 120, 200])
    reps = ctx.pick(1, 8)
    idx = 0
    for rep in range(reps):
        for fam in gen_centres.FAMILIES:
            for n in sizes:
                for ring in (False, True):
                    idx += 1
                    specs.append({"gen": fam, "n": n, "seed": ctx.seed * 100003 + idx, "ring": ring,
                                  "cut": CUTMODES[(idx + rep + (idx // 8)) % len(CUTMODES)]})
    # the upper end of the quantifier (300 centres; the ring costs O(n^3) in add_voronoi_centers)
    for rep in range(ctx.pick(1, 6)):
        for fam in gen_centres.FAMILIES:
            idx += 1
            specs.append({"gen": fam, "n": 300, "seed": ctx.seed * 100003 + idx, "ring": (idx + rep) % 2 == 0,
                          "cut": CUTMODES[(idx + rep) % len(CUTMODES)]})
    # more of the unstructured families, where near-degenerate ridges occur
    for k in range(ctx.pick(24, 600)):
        idx += 1
        specs.append({"gen": ["random", "jitter"][k % 2], "n": [8, 20, 45, 90, 150, 260][k % 6],
                      "seed": ctx.seed * 100003 + idx, "ring": k % 3 == 0, "cut": CUTMODES[(k // 2) % len(CUTMODES)]})
    return specs


def _relay(ctx, verdicts, payloads):
    clean_pass = 0
    drift = {}
    for cid, vjs in verdicts.items():
        for vj in vjs:
            if "C19.env_malformed" in vj["fails"] or "C19.no_env" in vj["fails"]:
                raise core.MachineryFailure(f"case {cid}: the driver wrote a malformed Env event ({vj['fails']})")
            for d in vj.get("drift", []):
                drift.setdefault(d, []).append(cid)
            if vj["ev"] == "Lattice" and not vj["fails"] and not vj["kf"] and not vj["rejected"]:
                clean_pass += 1
    for d, cids in sorted(drift.items()):
        ctx.note(f"model_drift {d}: the code no longer behaves like the transcription I (ImplLattice) in "
                 f"{len(cids)} case(s), first case {min(cids)}; D still judges")
    ctx.extra["cases_passed_clean_of_known_findings"] = ctx.extra.get("cases_passed_clean_of_known_findings", 0) + clean_pass
    ctx.judge(verdicts, payloads)


def run(ctx):
    cfg = ctx.pick("MC_Tessellation.cfg", "MC_Tessellation_thorough.cfg")
    res = ctx.mc("MC_Tessellation", cfg, timeout=ctx.pick(600, 3000), heap="3g")
    payloads, jobs = {}, []
    case = 0
    for inst in res.printed:
        case += 1
        jobs.append((case, inst, ctx.seed))
        payloads[case] = {"kind": "mc", "inst": inst}
        ctx.add_case(payloads[case], nontrivial=inst["nkept"] >= 1)
    n_mc = len(jobs)
    n_mc_vertical = sum(1 for _, i, _ in jobs if i["vertical"])
    del res
    # stubbed instances are executed and validated in batches (memory: thorough has > 10^5 instances)
    verdicts, results = {}, []
    batch = 30000
    for k in range(0, len(jobs), batch):
        results = core.parallel_map(_mc_job, jobs[k:k + batch], chunksize=64)
        if k + batch < len(jobs):
            verdicts.update(ctx.validate("Trace_Tessellation", results, timeout=ctx.pick(900, 3000), heap="1g"))
            results = []
    del jobs
    rjobs = []
    for spec in _real_specs(ctx):
        case += 1
        rjobs.append((case, spec))
    # big cases first so that the pool stays busy
    rres = core.parallel_map(_real_job, sorted(rjobs, key=lambda j: -j[1]["n"] * (3 if j[1]["ring"] else 1)))
    by_case = {c: s for c, s in rjobs}
    for (cid, evs, nkept, md) in sorted(rres, key=lambda r: r[0]):
        payloads[cid] = dict(by_case[cid], kind="real", max_distance=("inf" if md == float("inf") else md))
        ctx.add_case(payloads[cid], nontrivial=nkept >= 2)
        results.append((cid, evs))
    verdicts.update(ctx.validate("Trace_Tessellation", results, timeout=ctx.pick(900, 3000), heap="1g"))
    _relay(ctx, verdicts, payloads)
    ctx.rule = ("(a) TLC enumerates abstract Voronoi outputs: patches (square grids up to 3x3 regions, hexagon "
                "patches, an irregular fan with a pentagon, corner-touching and isolated regions; axis-aligned, "
                "rotated, transposed; always with an empty and two unbounded regions) x listing order x start corner "
                "x rotational sense per region x cut-off; every leaf is executed on the real code through a stub "
                "for scipy.spatial.Voronoi (corner coordinates carry random sub-resolution noise) and the projected "
                "lattice is judged by TLC. (b) real centre sets (random, jittered lattice, exactly square / "
                "hexagonal aligned and rotated, 6..300 centres, with/without the add_voronoi_centers ring, cut-off "
                "between region diameters .. infinite) through the real SciPy, Env from an independent Voronoi "
                "call. Non-trivial = at least one region must become a cell (a) / at least two (b).")
    ctx.exhaustive = True
    ctx.extra["exhaustive_scope"] = {"cfg": cfg, "mc_instances": n_mc, "mc_instances_with_vertical_ridge": n_mc_vertical,
                                     "real_centre_sets": len(rjobs)}
    ctx.assumptions += ["TLC/SANY and the CommunityModules Json reader are trusted",
                        "projection (harness/project.py, props/c19.py) copies the implementation's state faithfully",
                        "'the Voronoi diagram of the given centres' = scipy.spatial.Voronoi of the same centres "
                        "(DESIGN 5.5); corners are compared at the 3-decimal resolution as integers",
                        "inputs are judged only inside the premise evaluated by TLC: no corner within 1e-8 of a "
                        "rounding tie, no two corners of kept regions rounding to the same point, region diameters "
                        "not within 2e-3 of the cut-off, |coordinates| <= 1e6",
                        "exhaustiveness refers to the enumerated patches/orders of (a) only; (b) is sampling"]


def replay(ctx, payload):
    inp = payload["input"]
    with core.quiet_stdout():
        if inp["kind"] == "mc":
            c, evs = _mc_job((payload["case"], inp["inst"], payload["seed"]))
        else:
            c = payload["case"]
            evs, _, _ = real_case(c, inp)
    ctx.add_case(inp)
    ctx.add_case({"replay": True})
    v = ctx.validate("Trace_Tessellation", [(c, evs)], heap="1g")
    _relay(ctx, v, {c: inp})

"""C04 — pressure step: Young-Laplace equations with a zero-sum least-squares solution.

Spec: Trace_Inference.tla C04Build / C04Solve / DoPressureLin (row structure, centre-of-curvature sign rule decided
from the generator's signed turning and left/right cells, rhs = tension x turning estimate, turning estimate of
straight and uniformly sampled arcs, normal equations of the zero-sum least squares on the connected graph, zero
pressure for cells without internal interface, linearity in the tensions, correlation with analytic
Young-Laplace pressures)."""
import math
import os
import random

from harness import core, infer

LEVEL = "model_checking"


def specs_for(ctx):
    rng = random.Random(ctx.seed + 4)
    specs = []
    # structure: every sub-tissue of small arc tissues enumerated by TLC, with mixed cell orientations
    ninst = 0
    for b in ctx.pick(["hexflower", "lens5"], ["hexflower", "lens5", "hex33", "irregular"]):
        res = ctx.mc("MC_Interfaces", ctx.pick("MC_Interfaces_k13.cfg", "MC_Interfaces_k0137.cfg"),
                     env={"BASE_FILE": os.path.join(core.VERIF, "models", "catalogue", b + ".json")}, timeout=3000)
        insts = [i for i in res.printed if i["ninternal"] > 0 and i["k"] >= 1]
        stride = ctx.pick(2, 1) if b != "irregular" else 96
        for inst in insts[rng.randrange(stride)::stride]:
            ninst += 1
            ncell = len(inst["cells"])
            specs.append({"tissue": {"kind": "catalogue", "base": b, "cells": inst["cells"], "sagitta": rng.choice([None, 0.06, 0.15, 0.3]),
                                     "tseed": rng.randrange(10 ** 6)},
                          "k": inst["k"], "seed": rng.randrange(10 ** 9), "want": ["C04"],
                          "sim": {"theta": rng.uniform(0, 2 * math.pi), "scale": 10 ** rng.uniform(-2, 2), "offset_sizes": rng.uniform(0, 2),
                                  "extent": 10.0, "reflect": rng.random() < 0.3},
                          "build": {"limit": "inf", "fit": "dlite"}, "solve": {"method": "default"}, "pressure": True,
                          "ids": {"offset": rng.choice([0, 3, 40]), "stride": rng.choice([1, 2]), "shuffle": rng.random() < 0.7, "vperm": rng.random() < 0.5},
                          "group": {"flips": {str(c): rng.random() < 0.5 for c in range(ncell)},
                                    "shifts": {str(c): rng.randrange(4) for c in range(ncell)}}})
    for i in range(ctx.pick(40, 600)):
        k = rng.choice([1, 2, 3, 4, 7, 9, 15])
        specs.append({"tissue": {"kind": "equilibrium", "ncells": rng.choice([6, 12, 20, 35]), "mobius": rng.choice([0.0, 0.5, 1.0, 1.5])},
                      "k": k, "seed": rng.randrange(10 ** 9), "want": ["C04"],
                      "sim": {"theta": rng.uniform(0, 2 * math.pi), "scale": 10 ** rng.uniform(-2, 2), "offset_sizes": rng.uniform(0, 2),
                              "extent": 1.0, "reflect": rng.random() < 0.3},
                      "build": {"limit": "inf", "fit": rng.choice(["dlite", "taubinSVD"])}, "solve": {"method": "default"},
                      "pressure": True, "resample": rng.choice([None, None, None, 4]) if k >= 4 else None,
                      "ids": {"offset": rng.choice([0, 3, 40]), "stride": rng.choice([1, 2]), "shuffle": rng.random() < 0.7, "vperm": rng.random() < 0.5},
                      "require_conditioned": True})
    return specs, ninst


def run(ctx):
    specs, ninst = specs_for(ctx)
    verdicts, payloads = infer.run_specs(ctx, specs, prefixes=["C04"])
    for cid, vjs in verdicts.items():
        hits = set(h for vj in vjs for h in vj.get("hits", []))
        ctx.add_case(payloads[cid], nontrivial="C04.rows" in hits)
    ctx.judge(verdicts, payloads)
    ctx.rule = ("every sub-tissue with an internal interface of small catalogue tissues (TLC enumeration) with straight / arc "
                "interfaces and random per-cell orientation flips and cyclic shifts; random Voronoi (straight) and Moebius (arc) "
                "equilibrium tissues with 3..17 points per interface; non-trivial = at least one pressure equation")
    ctx.extra["catalogue_instances"] = ninst
    ctx.assumptions += ["signed turning and left/right cells of each interface come from the generator's closed forms",
                        "solve_pressure(method='lagrange_pressure') is the zero-sum solver (the default method drops the last cell)"]


def replay(ctx, payload):
    verdicts, payloads = infer.run_specs(ctx, [payload["input"]], prefixes=["C04"])
    ctx.add_case(payload["input"])
    ctx.add_case({"replay": True})
    ctx.judge(verdicts, payloads)

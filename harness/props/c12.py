"""C12 — vertex tracking between frames is injective and follows small motions.

Spec -> code: TLC (MC_Tracking) explores the transcription `I` of create_mapping / find_best /
get_point_id_by_map on integer grids (all placements of N junction sites x displacement stencil x ALL
numberings of both frames x partial / wrong guesses) and checks I => D (range, injective, guesses honoured,
correct under the premise, forward-then-backward). A sample of the leaves is emitted and each one is rebuilt
as a REAL two-frame series: the N sites are the only junctions of a real mesh (a "necklace" of N lens cells
around an inner cell, see gen/series.py), real Frame objects, real ForSys/TimeSeries.
Code -> spec: those and random multi-frame series (catalogue / Voronoi tissues, random / affine / flowing
fields inside, near and outside the bounds, independent renumbering per frame, 2..6 frames, partial guesses,
cm on/off, a border cell removed) are logged and judged by TLC (Trace_Tracking) against D; the premise of the
conditional clauses is evaluated by TLC from the logged positions (2% margin, otherwise `rejected`)."""
import hashlib
import json
import random

from harness import core
from harness.gen import series

LEVEL = "model_checking"
PID = "C12"
PREFIX = "C12."
EVENTS = ("Env", "NewSession", "PointByMap")
WITH_VEL = False
TRACE = "Trace_Tracking"


def _job(args):
    case, payload, with_vel = args
    try:
        if payload["kind"] == "mc":
            ser = series.necklace_series(payload["inst"], payload["seed"])
        else:
            ser = series.random_series(payload["seed"], payload.get("big", False))
        return case, series.observe(case, ser, with_vel=with_vel, rhs_seed=payload["seed"]), ""
    except Exception as exc:  # a failure outside the guarded calls = harness problem, not a verdict
        import traceback
        return case, None, f"{payload.get('kind')} seed={payload.get('seed')}: {exc!r} {traceback.format_exc()[-600:]}"


def mc_jobs(ctx):
    """[(module, cfg, timeout)] for this tier"""
    return ctx.pick([("MC_Tracking", "MC_Tracking.cfg")],
                    [("MC_Tracking", "MC_Tracking_thorough3.cfg"), ("MC_Tracking", "MC_Tracking_thorough4.cfg")])


def execute(ctx, pid, prefix, events, with_vel, jobs_mc, nrand, max_mc, post=None):
    payloads, jobs = {}, []
    case = 0
    n_emitted = 0
    for module, cfg in jobs_mc:
        res = ctx.mc(module, cfg, timeout=5400, heap=ctx.pick("3g", "6g"))
        insts = res.printed
        n_emitted += len(insts)
        # TLC's print order depends on worker scheduling: order (and thin) deterministically
        insts = sorted(insts, key=lambda d: hashlib.sha1(json.dumps(d, sort_keys=True).encode()).hexdigest())[:max_mc]
        for inst in insts:
            case += 1
            payloads[case] = {"kind": "mc", "inst": inst, "seed": ctx.seed * 1000003 + case}
            ctx.add_case(payloads[case], nontrivial=bool(inst.get("nontrivial")))
            jobs.append((case, payloads[case], with_vel))
    n_mc = case
    for i in range(nrand):
        case += 1
        payloads[case] = {"kind": "random", "seed": ctx.seed * 104729 + i, "big": not ctx.quick}
        ctx.add_case(payloads[case])
        jobs.append((case, payloads[case], with_vel))
    results = core.parallel_map(_job, jobs, chunksize=8)
    bad = [r for r in results if r[1] is None]
    if bad:
        raise core.MachineryFailure(f"driver failed on {len(bad)} case(s); first: {bad[0][2]}")
    verdicts = ctx.validate(TRACE, [(c, evs) for c, evs, _ in results], timeout=5400, heap="2g")
    relay(ctx, verdicts, prefix, events)
    if post:
        post(verdicts)
    ctx.judge(verdicts, payloads)
    ctx.extra["exhaustive_scope"] = {"mc": [c for _, c in jobs_mc], "emitted": n_emitted, "replayed_mc_instances": n_mc,
                                     "random_series": nrand}
    return verdicts


def relay(ctx, verdicts, prefix, events):
    """keep this property's clauses / events; relay drift notes"""
    seen = set()
    for cid in list(verdicts):
        keep = []
        for vj in verdicts[cid]:
            if vj["ev"] not in events:
                continue
            vj["fails"] = [c for c in vj["fails"] if c.startswith(prefix)]
            vj["hits"] = [c for c in vj.get("hits", []) if c.startswith(prefix)]
            vj["kf"] = [k for k in vj.get("kf", []) if k.split(":")[1].startswith(prefix)]
            for d in vj.get("drift", []):
                if d.startswith(prefix) and d not in seen:
                    seen.add(d)
                    ctx.note(f"model_drift {d} (first seen in case {cid})")
            keep.append(vj)
        verdicts[cid] = keep


def run(ctx):
    execute(ctx, PID, PREFIX, EVENTS, WITH_VEL, mc_jobs(ctx), ctx.pick(350, 8000), ctx.pick(1200, 30000))
    ctx.rule = ("TLC enumerates N junction sites x displacement stencil x all numberings of both frames x guesses and "
                "checks I => D; a sample of the leaves (every instance whose hash matches; denser where the premise holds, "
                "where a vertex is mapped to a wrong successor, where the step is skipped) is rebuilt as real Frames whose "
                "only junctions are the sites and run through ForSys/TimeSeries; plus random series. Non-trivial (MC) = some "
                "vertex whose nearest neighbour in the next frame does not carry the same number; random series are "
                "renumbered independently per frame (always non-trivial).")
    ctx.exhaustive = True
    ctx.assumptions += ["TLC/SANY and the CommunityModules Json reader are trusted",
                        "the generator's physical identities (true successor bijection) are the truth",
                        "tissue extent = the code's maxcoord (largest bounding-box side over the interface end points of both "
                        "frames); smallest junction spacing = minimum over both frames; bounding-box shape change = "
                        "sqrt(dw^2 + dh^2) relative to the extent; cases within 2% of a bound count as rejected input",
                        "with cm=True the premise is evaluated on the positions after construction (frames shifted in place)",
                        "MC instances are replayed on real Frame objects (necklace mesh), not on stand-ins"]


def replay(ctx, payload):
    inp = payload["input"]
    c, evs, err = _job((1, inp, WITH_VEL))
    if evs is None:
        raise core.MachineryFailure(err)
    ctx.add_case(inp)
    v = ctx.validate(TRACE, [(c, evs)])
    relay(ctx, v, PREFIX, EVENTS)
    ctx.judge(v, {c: inp})

"""accel — accelerations of tracked vertices (extension check, not one of the listed properties).

Behaviour covered: TimeSeries.calculate_acceleration (second difference of the tracked positions over three
consecutive time points: forward at the first frame, backward at the last, central in between; NaN without a tracked
partner), whole_tissue_acceleration / acceleration_per_edge / velocity_per_edge (|.| at the first end + |.| at the
last end of every interface, nan per step when an end has no successor or the tissue was skipped) and the
b_matrix="acceleration" right-hand side of ForceMatrix.set_velocity_matrix (rows map_vid_to_row[j], +1 hold the
acceleration of junction j, NaN replaced by zeros).  Specification: spec/Acceleration.tla (D and I).

Spec -> code: TLC (MC_Accel, three cfgs) explores exact integer series of three frames (junction sites x displacement
stencils of both steps incl. moves beyond the search radius and jumps that make a step "different tissue" x a vertex
absent from one frame x ALL numberings of the three frames), the correspondence being the transcription
Tracking!IMapping, and checks I => D in exact integer arithmetic; a sample of the leaves is rebuilt as REAL
three-frame series (necklace meshes, gen/series.py) and run through ForSys/TimeSeries.
Code -> spec: those and random 3..6-frame series (independent renumbering per frame, unequal time stamps, vertices
that disappear, displacement fields inside and outside the tracking bounds, cm on/off) are logged — acceleration of
every tracked vertex of every frame, the acceleration right-hand side with map_vid_to_row, per-interface rows — and
judged by TLC (Trace_Accel) in fixed point.

Observation recorded in the spec (not a violation): no case divides by the squared time step.
A call on a series with fewer than three frames is rejected input (documented requirement)."""
import concurrent.futures as cf
import hashlib
import json

from harness import core
from harness.gen import series
from harness.props import c12

LEVEL = "model_checking"
PID = "accel"
PREFIX = "ACC."
EVENTS = ("Accel", "AccRHS", "EdgeRows", "Whole")
TRACE = "Trace_Accel"
CFG = "Trace_Accel.cfg"


def _job(args):
    case, payload = args
    try:
        if payload["kind"] == "mc":
            ser = series.necklace_series_n(payload["inst"], payload["seed"])
            return case, series.observe_accel(case, ser, rhs_seed=payload["seed"]), ""
        # random series: the first of seed, seed + 15485863, .. whose coordinates stay inside the fixed-point range
        # (|x| < 2000 after a run of stretches outside the tracking bounds is not guaranteed by the generator)
        for j in range(6):
            ser = series.random_series_min3(payload["seed"] + 15485863 * j, payload.get("big", False))
            try:
                return case, series.observe_accel(case, ser, rhs_seed=payload["seed"]), ""
            except OverflowError:
                continue
        raise OverflowError("no series inside the fixed-point range")
    except Exception as exc:  # a failure outside the guarded calls = harness problem, not a verdict
        import traceback
        return case, None, f"{payload.get('kind')} seed={payload.get('seed')}: {exc!r} {traceback.format_exc()[-600:]}"


def mc_jobs(ctx):
    """[(module, cfg, workers)] for this tier"""
    return ctx.pick([("MC_Accel", "MC_Accel.cfg", 7), ("MC_Accel", "MC_Accel_vanish.cfg", 7), ("MC_Accel", "MC_Accel_skip.cfg", 2)],
                    [("MC_Accel", "MC_Accel_thorough.cfg", 8), ("MC_Accel", "MC_Accel_vanish_thorough.cfg", 8),
                     ("MC_Accel", "MC_Accel_skip.cfg", 2)])


def _relay(ctx, verdicts):
    """keep this check's events and clauses (the events of Trace_Tracking carry C12/C13 verdicts)"""
    c12.relay(ctx, verdicts, PREFIX, EVENTS)


def run(ctx):
    jobs_mc = mc_jobs(ctx)
    # the three model-checking jobs run side by side (explicit heaps; the machine is shared)
    with cf.ThreadPoolExecutor(max_workers=len(jobs_mc)) as ex:
        futs = [ex.submit(ctx.mc, m, c, workers=w, timeout=5400, heap=ctx.pick("2g", "6g")) for m, c, w in jobs_mc]
        results = [f.result() for f in futs]
    payloads, jobs = {}, []
    case, n_emitted = 0, 0
    max_mc = ctx.pick(200, 6000)
    for (module, cfg, _), res in zip(jobs_mc, results):
        insts = res.printed
        n_emitted += len(insts)
        # TLC's print order depends on worker scheduling: order (and thin) deterministically
        insts = sorted(insts, key=lambda d: hashlib.sha1(json.dumps(d, sort_keys=True).encode()).hexdigest())
        for inst in insts[:max_mc if "skip" not in cfg else 12]:
            case += 1
            inst = {k: v for k, v in inst.items() if k != "acc"}      # the model's own result is not an input
            payloads[case] = {"kind": "mc", "cfg": cfg, "inst": inst, "seed": ctx.seed * 1000003 + case}
            ctx.add_case(payloads[case], nontrivial=bool(inst.get("nontrivial")))
            jobs.append((case, payloads[case]))
    n_mc = case
    nrand = ctx.pick(70, 3000)
    for i in range(nrand):
        case += 1
        payloads[case] = {"kind": "random", "seed": ctx.seed * 104729 + i, "big": not ctx.quick}
        ctx.add_case(payloads[case])
        jobs.append((case, payloads[case]))
    results = core.parallel_map(_job, jobs, chunksize=4)
    bad = [r for r in results if r[1] is None]
    if bad:
        raise core.MachineryFailure(f"driver failed on {len(bad)} case(s); first: {bad[0][2]}")
    verdicts = ctx.validate(TRACE, [(c, evs) for c, evs, _ in results], cfg=CFG, timeout=5400, heap="2g")
    _relay(ctx, verdicts)
    ctx.judge(verdicts, payloads)
    ctx.extra["exhaustive_scope"] = {"mc": [c for _, c, _ in jobs_mc], "emitted": n_emitted, "replayed_mc_instances": n_mc,
                                     "random_series": nrand}
    ctx.rule = ("TLC enumerates three-frame integer series (sites x displacement stencils of both steps x absent vertex x ALL "
                "numberings of the three frames) and checks I => D for accelerations, the acceleration right-hand side and the "
                "per-interface rows in exact integer arithmetic; a hash-selected sample of the leaves (denser where a partner is "
                "lost or stolen, where a step is skipped) is rebuilt as real three-frame series and run through "
                "ForSys/TimeSeries; plus random 3..6-frame series. Non-trivial (MC) = some frame is numbered differently from "
                "the next one AND some vertex has a non-zero acceleration; random series are renumbered independently per "
                "frame with unequal time steps (always non-trivial).")
    ctx.exhaustive = True
    ctx.assumptions += ["TLC/SANY and the CommunityModules Json reader are trusted",
                        "extension check: `accel` is not one of the listed properties; the clauses are those of "
                        "spec/Acceleration.tla / Trace_Accel.tla",
                        "tracked partner = the vertex designated by the session's own correspondence (ForSys.mesh.mapping): "
                        "composition of the steps forward, the unique pre-image backward",
                        "acceleration = second difference of positions x(lo+2) - 2 x(lo+1) + x(lo); the code never divides by "
                        "the (squared) time step - recorded as an observation, not judged",
                        "a step skipped as DifferentTissue inside the needed span: NaN or DifferentTissueException are "
                        "accepted, anything else is the recorded finding KF_AccelSkippedStep / KF_PerEdgeSkippedStep",
                        "series with fewer than three frames and sessions whose interface end points are not all tracked "
                        "physical vertices are rejected input",
                        "norms are checked in fixed point (Q=1e6) for components up to 30 with tolerance 200 + s/10000 ulp; "
                        "second differences with tolerance 10 ulp"]


def replay(ctx, payload):
    inp = payload["input"]
    c, evs, err = _job((1, inp))
    if evs is None:
        raise core.MachineryFailure(err)
    ctx.add_case(inp)
    v = ctx.validate(TRACE, [(c, evs)], cfg=CFG, heap="2g")
    _relay(ctx, v)
    ctx.judge(v, {c: inp})

"""Workflow protocol of a ForSys analysis (Pipeline.tla) — not one of the listed properties: an extension of the
specification's coverage. TLC model-checks the protocol (MC_Pipeline) and produces random call sequences
(-simulate); each is executed on real objects, including the calls the specification refuses, and TLC validates
(Trace_Pipeline) that a call raised iff it was refused and that the availability of results matches."""
import glob
import os
import random
import re
import shutil

import numpy as np

from harness import core, infer, tissue, project
from harness.gen import cattissue

LEVEL = "model_checking"
PID = "pipeline"
REC = re.compile(r'last = \[([^\]]*)\]')


def _fields(txt):
    d = dict(re.findall(r'(\w+) \|-> ("?\w+"?)', txt))
    return d["call"].strip('"'), int(d["t"]), d["refused"] == "TRUE"


def walks_from_tlc(ctx, n, depth, nf):
    wdir = os.path.join(ctx.rundir, "walks")
    os.makedirs(wdir, exist_ok=True)
    res = core.run_tlc("MC_Pipeline", "MC_Pipeline_sim.cfg", workers=1, simulate=f"file={wdir}/w,num={n}", depth=depth,
                       seed=ctx.seed + 1, timeout=900)
    walks = []
    for f in sorted(glob.glob(os.path.join(wdir, "w*"))):
        calls = [_fields(m.group(1)) for m in REC.finditer(open(f).read())]
        calls = [c for c in calls if c[0] != "none"]
        if calls:
            walks.append(calls)
    shutil.rmtree(wdir, ignore_errors=True)
    return walks, res


def _execute(args):
    case, calls, seed = args
    import forsys as fs
    np.seterr(all="raise")
    rng = random.Random(seed)
    nf = 2
    t0 = cattissue.make("hexflower", sagitta=0.12, rng=random.Random(3))
    descs, objs, frames = {}, {}, {}
    forsys = None
    evs = [{"case": case, "ev": "Begin", "nf": nf}]

    def obs():
        if forsys is None:
            return {k: [False] * nf for k in ("fmat", "solved", "pmat", "psolved", "tensor")}
        return {"fmat": [t in forsys.force_matrices for t in range(nf)],
                "solved": [forsys.forces.get(t) is not None for t in range(nf)],
                "pmat": [t in forsys.pressure_matrices for t in range(nf)],
                "psolved": [all(c.pressure is not None for c in frames[t].cells.values()) for t in range(nf)],
                "tensor": [hasattr(frames[t], "principal_stress") for t in range(nf)]}

    for (call, t, _refused) in calls:
        raised = ""
        try:
            if call == "Parse":
                sim = tissue.Similarity(0.3, 1.0, 0.05 * t, 0.0)
                from harness import build
                pos = {v: (z.real, z.imag) for v, z in t0["pos"].items()}
                from harness.gen import equilibrium as eq
                desc, _ = tissue.instance_desc(pos, t0["cells"], 4, sim, interior_pts=eq.interior_points(t0, 4), id_offset=10 * t)
                objs[t] = list(build.build_mesh(desc))
            elif call == "Resample":
                v, e, c = objs[t]
                v, e, c, _ = fs.virtual_edges.generate_mesh(v, e, c, ne=3)
                objs[t] = [v, e, c]
            elif call == "BuildFrame":
                v, e, c = objs[t]
                frames[t] = fs.frames.Frame(t, v, e, c, time=float(t))
            elif call == "NewSession":
                forsys = fs.ForSys({k: frames[k] for k in sorted(frames)}, cm=False)   # ForSys assumes keys in increasing insertion order
            elif call == "BuildForce":
                forsys.build_force_matrix(when=t)
            elif call == "SolveStress":
                forsys.solve_stress(when=t)
            elif call == "BuildPressure":
                forsys.build_pressure_matrix(when=t)
            elif call == "SolvePressure":
                forsys.solve_pressure(when=t, method="lagrange_pressure")
            elif call == "SystemVelocity":
                forsys.get_system_velocity_per_frame()
            elif call == "StressTensor":
                frames[t].calculate_stress_tensor(coarsing=3, radius=2)
            elif call == "GetTensions":
                frames[t].get_tensions()
            elif call == "GetPressures":
                frames[t].get_pressures()
        except Exception as exc:
            raised = type(exc).__name__
        evs.append({"case": case, "ev": "Call", "call": call, "t": t, "raised": raised, "session": forsys is not None, "obs": obs()})
    return case, evs


def run(ctx):
    ctx.mc("MC_Pipeline", "MC_Pipeline.cfg", workers=4, timeout=900)
    walks, res = walks_from_tlc(ctx, ctx.pick(150, 3000), 40, 2)
    if not walks:
        raise core.MachineryFailure("no walks parsed from TLC simulation:\n" + res.error_text())
    jobs = [(i + 1, w, ctx.seed * 1000 + i) for i, w in enumerate(walks)]
    results = core.parallel_map(_execute, jobs, chunksize=4)
    payloads = {i + 1: {"calls": [list(c) for c in w]} for i, w in enumerate(walks)}
    verdicts = ctx.validate("Trace_Pipeline", results)
    for cid, vjs in verdicts.items():
        hits = set(h for vj in vjs for h in vj.get("hits", []))
        ctx.add_case(payloads[cid], nontrivial="PIPE.refused" in hits)
    ctx.judge(verdicts, payloads)
    ctx.rule = ("TLC-simulated call sequences (depth 40, two frames) of the workflow protocol, executed on real objects including "
                "the refused calls; non-trivial = the walk contains at least one refused call")
    ctx.assumptions += ["the protocol models one parse, optional resampling before the Frame, one Frame per mesh"]


def replay(ctx, payload):
    calls = [tuple(c) for c in payload["input"]["calls"]]
    c, evs = _execute((1, calls, payload.get("seed", 0)))
    ctx.add_case(payload["input"]); ctx.add_case({"replay": True})
    ctx.judge(ctx.validate("Trace_Pipeline", [(c, evs)]), {c: payload["input"]})

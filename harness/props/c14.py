"""C14 — Surface Evolver dumps are parsed faithfully.

Spec -> code: TLC (MC_SEDump) enumerates small abstract dumps x every wrapping of every face record into
physical lines x id numbering / reference signs / density presence / unattached records / body order,
checks that the implementation-shaped parser (line machine, section finder, tail-vertex rule, orphan
removal, positional pressures) satisfies the declarative verdict, and emits every instance. Each
instance is written to a real .dmp file by the independent serialiser (harness/gen/sedump.py), parsed by
forsys.surface_evolver.SurfaceEvolver, a Frame(gt=True) is built, and the projection is judged by TLC
(Trace_SEDump) against the abstract dump.
Code -> spec, further inputs: random large dumps from tissues (up to 150 cells, faces up to 60 edges,
any line length, coordinates 1e-4..1e5, id gaps, ...) and the shipped dumps, whose abstract dump is
obtained with an independent keyword-based reader."""
import glob
import json
import os
import random

for _v in ("OMP_NUM_THREADS", "OPENBLAS_NUM_THREADS", "MKL_NUM_THREADS"):   # 16 worker processes: no BLAS thread pools
    os.environ.setdefault(_v, "1")

from harness import core
from harness.gen import sedump

LEVEL = "model_checking"
PID = "C14"
DMP_DIR = os.path.join(core.VERIF, "run", PID, "dmp")
BIG = 2000000000


def trip(x):
    """float -> [sign, integer part, micro fraction] (ints only); [1, -1, 0] if not a finite number"""
    try:
        x = float(x)
    except (TypeError, ValueError):
        return [1, -1, 0]
    if x != x or abs(x) >= BIG:
        return [1, -2, 0]
    s = -1 if x < 0 else 1
    a = abs(x)
    ip = int(a)
    fp = int(round((a - ip) * 1000000))
    if fp >= 1000000:
        ip, fp = ip + 1, 0
    return [s, ip, fp]


def micro(x):
    try:
        x = float(x)
    except (TypeError, ValueError):
        return -1
    if x != x or abs(x) >= 2000:
        return -2
    return int(round(x * 1000000))


def project_parse(se, d):
    """SurfaceEvolver object -> projected parse `p` of SEDump.tla (ids and numbers only)"""
    vk = {r["id"]: i + 1 for i, r in enumerate(d["V"])}
    ek = {r["id"]: i + 1 for i, r in enumerate(d["E"])}
    fk = {r["id"]: i + 1 for i, r in enumerate(d["F"])}
    vkeys = list(se.vertices.keys())
    ekeys = list(se.edges.keys())
    ckeys = list(se.cells.keys())
    vpos = {k: i + 1 for i, k in enumerate(vkeys)}
    epos = {k: i + 1 for i, k in enumerate(ekeys)}

    def vref(v):
        k = getattr(v, "id", None)
        return vpos[k] if k in vpos and se.vertices[k] is v else 0

    p = {"raised": ""}
    p["V"] = [{"k": vk.get(int(se.vertices[k].id), 0), "id": int(se.vertices[k].id),
               "x": trip(se.vertices[k].x), "y": trip(se.vertices[k].y)} for k in vkeys]
    p["E"] = [{"k": ek.get(int(se.edges[k].id), 0), "id": int(se.edges[k].id), "a": vref(se.edges[k].v1),
               "b": vref(se.edges[k].v2), "g": trip(se.edges[k].gt)} for k in ekeys]
    p["C"] = [{"k": fk.get(int(se.cells[k].id), 0), "id": int(se.cells[k].id),
               "cyc": [vref(v) for v in se.cells[k].vertices], "pr": trip(se.cells[k].gt_pressure)} for k in ckeys]
    return p, vpos, epos


def project_frame(fr, vpos, epos):
    df = fr.get_gt_tensions(with_border=True)
    gts = dict(zip([int(i) for i in df["id"].tolist()], df["gt"].tolist()))
    out = []
    for i, path in enumerate(fr.big_edges_list):
        out.append({"path": [vpos.get(int(v), 0) for v in path],
                    "edges": [epos.get(e, 0) for e in fr.big_edges[i].edges],
                    "g": micro(gts[i]) if i in gts else -3})
    return out


def parse_events(case, d, path):
    """Env / Parse / Frame events of one dump file"""
    import forsys as fs
    evs = [{"case": case, "ev": "Env", "d": d}]
    se = None
    try:
        se = fs.surface_evolver.SurfaceEvolver(path)
        p, vpos, epos = project_parse(se, d)
    except Exception as exc:
        p = {"raised": type(exc).__name__, "V": [], "E": [], "C": []}
    evs.append({"case": case, "ev": "Parse", "p": p})
    f = {"raised": "", "skipped": se is None, "I": []}
    if se is not None:
        try:
            fr = fs.frames.Frame(0, se.vertices, se.edges, se.cells, time=0, gt=True)
            f["I"] = project_frame(fr, vpos, epos)
            del fr
        except Exception as exc:
            f["raised"] = type(exc).__name__
    evs.append({"case": case, "ev": "Frame", "f": f})
    return evs


def _file_case(case, d, seed):
    rng = random.Random(seed * 1000003 + case)
    path = os.path.join(DMP_DIR, f"case-{case}.dmp")
    sedump.write_dmp(d, path, rng, crlf=rng.random() < 0.7)
    try:
        return parse_events(case, d, path)
    finally:
        try:
            os.remove(path)
        except OSError:
            pass


def _mc_job(args):
    case, d, seed = args
    return case, _file_case(case, d, seed)


def random_params(seed):
    """deterministic in the seed: which known-defect triggers a random dump carries, and its size"""
    rng = random.Random(seed)
    r = rng.random()
    defects = [] if r < 0.64 else [rng.choice(["bare", "bodies", "chord"])]
    return {"seed": seed, "defects": defects}


def _random_job(args):
    case, params, ncells, seed = args
    rng = random.Random(params["seed"])
    d, _ = sedump.random_dump(rng, ncells=ncells, defects=tuple(params["defects"]))
    return case, _file_case(case, d, seed)


def _fixture_job(args):
    case, rel = args
    path = os.path.join(core.REPO, rel)
    try:
        d = sedump.read_dmp(path)
    except Exception as exc:
        raise core.MachineryFailure(f"independent reader failed on {rel}: {exc!r}")
    return case, parse_events(case, d, path)


def _mask(*ts):
    return sum(1 << (i - 1) for i in ts)


# one TLC job per batch of templates (bit masks of template indices, see MC_SEDump.tla)
MC_RUNS = {
    "quick": [("MC_SEDump.cfg", {})],
    "thorough": [("MC_SEDump_thorough.cfg", {"C14_TFULL": _mask(1, 2, 3, 4), "C14_TLIST": 0}),
                 ("MC_SEDump_thorough.cfg", {"C14_TFULL": _mask(5), "C14_TLIST": _mask(6)}),
                 ("MC_SEDump_thorough.cfg", {"C14_TFULL": _mask(7), "C14_TLIST": 0}),
                 ("MC_SEDump_thorough.cfg", {"C14_TFULL": 0, "C14_TLIST": _mask(8, 9)})],
}


def _settle(ctx, results, payloads, stats):
    """validate a batch of traces with TLC and relay the verdicts"""
    verdicts = ctx.validate("Trace_SEDump", results, heap="4g")
    for cid, vjs in verdicts.items():
        for vj in vjs:
            for dr in vj.get("drift", []):
                if dr not in stats["drift"]:
                    ctx.note(f"model_drift {dr}: the code no longer behaves like the transcription I of SEDump.tla "
                             f"while D holds (first seen in case {cid})")
                stats["drift"][dr] = stats["drift"].get(dr, 0) + 1
        if not any(vj.get("kf") or vj.get("fails") or vj.get("rejected") for vj in vjs):
            stats["clean"] += 1
    ctx.judge(verdicts, payloads)


def run(ctx):
    os.makedirs(DMP_DIR, exist_ok=True)
    stats = {"clean": 0, "drift": {}}
    case = 0
    n_mc = 0
    for cfg, env in MC_RUNS[ctx.tier]:
        res = ctx.mc("MC_SEDump", cfg, env=env, timeout=3000, heap="8g")
        jobs, payloads = [], {}
        # TLC's workers print in no fixed order: number the instances canonically (deterministic in the seed)
        for inst in sorted(res.printed, key=lambda x: json.dumps(x, sort_keys=True)):
            case += 1
            d = inst["d"]
            jobs.append((case, d, ctx.seed))
            payloads[case] = {"kind": "mc", "tmpl": inst["tmpl"], "prof": inst["prof"], "d": d}
            ctx.add_case(payloads[case], nontrivial=any(len(f["w"]) > 1 for f in d["F"]))
        n_mc += len(jobs)
        del res
        _settle(ctx, core.parallel_map(_mc_job, jobs, chunksize=32), payloads, stats)
    payloads, results = {}, []
    # random large dumps from tissues
    sizes = ctx.pick([1, 2, 3, 3, 6, 6, 12, 12, 30, 30, 70, 150],
                     [1, 2, 3, 6, 12, 12, 30, 30, 30, 70, 70, 150])
    nrand = ctx.pick(72, 1200)
    rjobs = []
    for i in range(nrand):
        case += 1
        params = random_params(ctx.seed * 104729 + i)
        ncells = sizes[i % len(sizes)]
        rjobs.append((case, params, ncells, ctx.seed))
        payloads[case] = {"kind": "random", "ncells": ncells, **params}
        ctx.add_case(payloads[case])
    for lo in range(0, len(rjobs), 240):                      # batches bound the memory held by projected traces
        batch = sorted(rjobs[lo:lo + 240], key=lambda j: -j[2])
        if lo + 240 < len(rjobs):
            _settle(ctx, core.parallel_map(_random_job, batch, chunksize=1),
                    {j[0]: payloads[j[0]] for j in batch}, stats)
        else:
            results += core.parallel_map(_random_job, batch, chunksize=1)
    # shipped dumps, abstract dump from the independent reader
    shipped = sorted(os.path.relpath(p, core.REPO) for p in
                     glob.glob(os.path.join(core.REPO, "tests", "data", "**", "*.dmp"), recursive=True))
    if ctx.quick:
        shipped = [p for p in shipped if "furrow_gauss" not in p or p.endswith("stage0.dmp")]
        shipped = [p for p in shipped if "12_12" not in p or p.endswith("step_20.dmp")]
    fjobs = []
    for rel in shipped:
        case += 1
        fjobs.append((case, rel))
        payloads[case] = {"kind": "shipped", "path": rel}
        ctx.add_case(payloads[case])
    results += core.parallel_map(_fixture_job, fjobs)
    _settle(ctx, results, payloads, stats)
    ctx.extra["cases_clean_of_known_findings_and_passed"] = stats["clean"]
    ctx.extra["model_drift"] = stats["drift"]
    ctx.extra["exhaustive_scope"] = {"cfg": [c for c, _ in MC_RUNS[ctx.tier]], "mc_instances": n_mc,
                                     "random_dumps": nrand, "shipped_dumps": len(fjobs)}
    ctx.rule = ("TLC enumerates template x profile (ids, reference signs, density presence, unattached records, "
                "body order) x EVERY wrapping of every face record into lines; each instance is serialised to a real "
                ".dmp by an independent writer, parsed by SurfaceEvolver, Frame(gt=True) built, projections judged by "
                "TLC against the abstract dump; plus random large dumps from tissues and the shipped dumps read by an "
                "independent keyword-based reader. Non-trivial = some face record spans several lines (MC) / any "
                "(random, shipped).")
    ctx.exhaustive = True
    ctx.assumptions += ["TLC/SANY and the CommunityModules Json reader are trusted",
                        "the projection (props/c14.py project_parse/project_frame) copies ids and numbers faithfully",
                        "token-level fidelity: character-level layout (column widths, CRLF, trailing blanks) comes from "
                        "the serialiser, which mimics the shipped files, not from TLC",
                        "which vertex paths are interfaces is C08's business; C14 judges the reference tension of "
                        "every interface the frame reports"]


def replay(ctx, payload):
    os.makedirs(DMP_DIR, exist_ok=True)
    inp = payload["input"]
    with core.quiet_stdout():
        if inp["kind"] == "mc":
            c, evs = _mc_job((payload["case"], inp["d"], payload["seed"]))
        elif inp["kind"] == "random":
            c, evs = _random_job((payload["case"], {"seed": inp["seed"], "defects": inp["defects"]}, inp["ncells"],
                                  payload["seed"]))
        else:
            c, evs = _fixture_job((payload["case"], inp["path"]))
    ctx.add_case(inp)
    v = ctx.validate("Trace_SEDump", [(c, evs)])
    ctx.judge(v, {c: inp})

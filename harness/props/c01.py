"""C01 — static inference recovers the tensions of any tissue in force balance.

Analytic equilibrium tissues (Voronoi + Maxwell tensions, Moebius images: gen/equilibrium.py). TLC evaluates
(premise) unit tangents / embedded frame consistency and the conditioning-derived tolerance supplied by the
generator from the TRUE system, (claim) every inferred interface carries true tension / mean true tension."""
import math
import random

from harness import core, infer

LEVEL = "exploration"
GRID = [(m, f) for m in ("default", "lsq", "lsq_linear") for f in ("dlite", "taubinSVD")]


def specs_for(ctx):
    rng = random.Random(ctx.seed + 1)
    specs = []
    n = ctx.pick(50, 500)
    for i in range(n):
        tissue = {"kind": "equilibrium", "ncells": rng.choice([6, 10, 16, 25] if ctx.quick else [6, 10, 16, 25, 40, 60]),
                  "mobius": rng.choice([0.0, 0.4, 0.9, 1.5])}
        k = rng.choice([0, 1, 2, 4, 7, 11, 16])
        # a third of the tissues are rotated so that one end segment at a used junction is exactly axis parallel (few points
        # per interface there: the end segment then differs most from the tangent)
        align = rng.random() < 0.33
        if align:
            k = rng.choice([1, 1, 2, 2, 4])
        far = rng.random() < 0.15
        seed = rng.randrange(10 ** 9)
        sim = {"theta": rng.choice([rng.uniform(0, 2 * math.pi), rng.choice([0, 1, 2, 3]) * math.pi / 2 + rng.choice([-1, 1]) * 1e-3]),
               "scale": 10 ** (rng.uniform(-8, -5) if rng.random() < 0.2 else rng.uniform(-3, 3)), "offset_sizes": rng.choice([1000, 2500, 3500, 8000]) if far else rng.uniform(0, 3),
               "offset_angle": rng.uniform(0, 6.28), "extent": 1.0, "reflect": rng.random() < 0.3}
        resample = rng.choice([None, None, 2, 4, 8, 12]) if k >= 2 else None
        # one in four un-resampled tissues is first analysed at another embedding and then moved IN PLACE on the live objects
        # (what TimeSeries(cm=True) and Frame.filter_edges do) before the judged inference
        inplace = None
        if resample is None and rng.random() < 0.25:
            inplace = {"theta": rng.uniform(0, 2 * math.pi), "scale": 10 ** rng.uniform(-1, 1), "offset_sizes": rng.uniform(0, 30),
                       "offset_angle": rng.uniform(0, 6.28), "extent": 1.0}
        for (method, fit) in (GRID if not ctx.quick else rng.sample(GRID, 3)):
            if method in ("lsq",) and tissue["ncells"] > 16:
                continue
            specs.append({"tissue": tissue, "k": k, "seed": seed, "want": ["C01"], "sim": sim,
                          "build": {"limit": "inf", "fit": fit}, "solve": {"method": method}, "resample": resample,
                          "require_conditioned": True, "inplace_sim": inplace, "align": align,
                          "ids": {"offset": rng.choice([0, 4]), "stride": rng.choice([1, 2]), "vperm": rng.random() < 0.5}})
    return specs


def run(ctx):
    specs = specs_for(ctx)
    verdicts, payloads = infer.run_specs(ctx, specs, prefixes=["C01"])
    for cid, vjs in verdicts.items():
        hits = set(h for vj in vjs for h in vj.get("hits", []))
        rej = any(vj.get("rejected") for vj in vjs if vj["ev"] == "SolveStress")
        ctx.add_case(payloads[cid], nontrivial=("C01.clean_case" in hits) and not rej)
    ctx.judge(verdicts, payloads)
    ctx.rule = ("random Voronoi tissues with Maxwell tensions and their Moebius images x interior points 0..16 x "
                "optional generate_mesh(ne) x rotation (random / near-axis) x scale 1e-3..1e3 (one in five: 1e-8..1e-5, lengths in metres) x translation x back-end x "
                "circle fit; non-trivial = premise holds (well conditioned true system) and no known tangent defect "
                "touches the case, so the recovery claim was decided on it")
    ctx.assumptions += ["truth (tensions, tangents) from closed forms of gen/equilibrium.py; force balance is an exact identity "
                        "of the construction (Maxwell reciprocal figure, conformal invariance)",
                        "tolerance = 10 x 3e-4 x max row norm of pinv(true augmented system) x max tension, floor 2e-3, cap 0.1; "
                        "cases above the cap or with sigma_min/sigma_max < 1e-3 are rejected input"]


def replay(ctx, payload):
    verdicts, payloads = infer.run_specs(ctx, [payload["input"]], prefixes=["C01"])
    ctx.add_case(payload["input"])
    ctx.add_case({"replay": True})
    ctx.judge(verdicts, payloads)

"""primitives — the object life-cycle of the mesh primitives (extension check, not one of the listed properties).

Behaviour covered: forsys.vertex.Vertex (add_/remove_ cell, edge, big_edge: return values, what raises),
forsys.edge.SmallEdge (constructor registering on both ends, the assertion on equal ends, __del__ deregistering,
replace_vertex, get_other_vertex_id), forsys.cell.Cell (constructor registering on its vertices, the circle fit that
raises for fewer than two vertices, the unguarded __del__, replace_vertex, get_next_vertex / get_previous_vertex,
get_area_sign, get_edges, calculate_neighbors) and forsys.edge.BigEdge (registration, no deregistration).
Specification: spec/Primitives.tla - an explicit state machine over the heap, one action per public call, in which
Python's reference lifetime is part of the state (an object is live while the dict or a stray reference holds it;
the destructor runs when the last one goes).

Spec -> code: TLC (MC_Primitives, several scopes) explores every operation sequence up to a bounded depth modulo
state equality, checks the invariants / the action property on the model, shows with vacuity guards that every
known-finding matcher is reachable, and prints one history per distinct state (sampled) plus random walks
(-simulate); each history is executed on REAL forsys objects (this module's Heap: liveness is observed through weak
references, never assumed).
Code -> spec: after every call the projected heap, the return value, the escaping exception, the number of
exceptions swallowed in destructors and the answers of all query methods are logged and judged by TLC
(Trace_Primitives): the recorded step must be exactly the model action's successor, and the declarative clauses
must hold on the recorded states. Long random operation sequences generated here are judged by the same spec."""
import hashlib
import json
import random
import sys
import weakref
import concurrent.futures as cf

from harness import core

LEVEL = "exploration"
PID = "primitives"
TRACE = "Trace_Primitives"
CFG = "Trace_Primitives.cfg"

BOOK = {"add_edge": ("e", True), "remove_edge": ("e", False), "add_cell": ("c", True), "remove_cell": ("c", False),
        "add_big_edge": ("b", True), "remove_big_edge": ("b", False)}


def pos(h):
    """position of vertex handle h (Primitives!PPos): integer points of a parabola, no three collinear"""
    return float(h), float(h * h)


class Heap:
    """Real forsys objects driven one public call at a time. The only strong references to SmallEdge / Cell objects are
    the dicts `edges` / `cells` (flag d of the model) and the stray references `epins` / `cpins` (flag p); the slot
    tables hold WEAK references, so whether an object is alive is observed, not assumed."""

    def __init__(self, seed):
        import forsys  # noqa
        from forsys import vertex, edge, cell
        self.V, self.SE, self.CL, self.BE = vertex.Vertex, edge.SmallEdge, cell.Cell, edge.BigEdge
        rng = random.Random(seed)
        # model ids / handles -> ids used on the real objects (injective, seed dependent)
        self.vid = rng.sample(range(0, 400), 64)
        self.eid = rng.sample(range(0, 60), 24)
        self.cid = rng.sample(range(0, 60), 24)
        self.bid = rng.sample(range(0, 60), 24)
        self.eback = {v: k for k, v in enumerate(self.eid)}
        self.cback = {v: k for k, v in enumerate(self.cid)}
        self.bback = {v: k for k, v in enumerate(self.bid)}
        self.verts = []          # handle h -> verts[h - 1]
        self.hof = {}            # id(Vertex object) -> handle
        self.edges, self.cells, self.bigs = {}, {}, {}
        self.epins, self.cpins = {}, {}
        self.eslots, self.cslots = [], []      # slot k -> weakref (index k - 1)
        self.unr = 0

    # ---- helpers ----------------------------------------------------------------------------------------
    def v(self, h):
        return self.verts[h - 1]

    def new_vertex(self):
        h = len(self.verts) + 1
        x, y = pos(h)
        obj = self.V(self.vid[h], x, y)
        self.verts.append(obj)
        self.hof[id(obj)] = h

    @staticmethod
    def _free(slots):
        for k, r in enumerate(slots):
            if r is None or r() is None:
                return k
        return len(slots)

    @staticmethod
    def _put(slots, k, obj):
        r = weakref.ref(obj)
        if k == len(slots):
            slots.append(r)
        else:
            slots[k] = r

    @staticmethod
    def _trim(slots):
        while slots and (slots[-1] is None or slots[-1]() is None):
            slots.pop()

    @staticmethod
    def _slot_of(slots, obj):
        for k, r in enumerate(slots):
            if r is not None and r() is obj:
                return k
        raise core.MachineryFailure("object without a slot")

    # ---- one operation ----------------------------------------------------------------------------------
    def _call(self, o):
        """perform the call; returns (ret, big). Exceptions propagate to step()."""
        op, i, a, b, cyc = o["op"], o["i"], o["a"], o["b"], o["cyc"]
        none = {"t": "n", "x": []}
        if op == "NewVertex":
            self.new_vertex()
            return none, None
        if op in BOOK:
            kind, add = BOOK[op]
            table, back = {"e": (self.eid, self.eback), "c": (self.cid, self.cback), "b": (self.bid, self.bback)}[kind]
            r = getattr(self.v(a), op)(table[i])
            if add:
                if r is not True and r is not False:
                    return {"t": "?", "x": []}, None
                return {"t": "b", "x": [1 if r else 0]}, None
            if not isinstance(r, list):
                return {"t": "?", "x": []}, None
            return {"t": "l", "x": [back.get(x, -1) for x in r]}, None
        if op == "NewEdge":
            k = self._free(self.eslots)
            self.edges[self.eid[i]] = self.SE(self.eid[i], self.v(a), self.v(b))     # ONE statement, as a user writes it
            self._put(self.eslots, k, self.edges[self.eid[i]])
            return none, None
        if op == "DelEdge":
            del self.edges[self.eid[i]]
            return none, None
        if op == "PinEdge":
            obj = self.edges[self.eid[i]]
            self.epins[self._slot_of(self.eslots, obj)] = obj
            return none, None
        if op == "UnpinEdge":
            del self.epins[i - 1]
            return none, None
        if op == "EdgeReplace":
            obj = self.eslots[i - 1]() if 0 < i <= len(self.eslots) and self.eslots[i - 1] is not None else None
            if obj is None:
                raise KeyError(i)
            r = obj.replace_vertex(self.v(a), self.v(b))
            return (none if r is None else {"t": "?", "x": []}), None
        if op == "NewCell":
            k = self._free(self.cslots)
            self.cells[self.cid[i]] = self.CL(self.cid[i], [self.v(h) for h in cyc])
            self._put(self.cslots, k, self.cells[self.cid[i]])
            return none, None
        if op == "DelCell":
            del self.cells[self.cid[i]]
            return none, None
        if op == "PinCell":
            obj = self.cells[self.cid[i]]
            self.cpins[self._slot_of(self.cslots, obj)] = obj
            return none, None
        if op == "UnpinCell":
            del self.cpins[i - 1]
            return none, None
        if op == "CellReplace":
            obj = self.cslots[i - 1]() if 0 < i <= len(self.cslots) and self.cslots[i - 1] is not None else None
            if obj is None:
                raise KeyError(i)
            r = obj.replace_vertex(self.v(a), self.v(b))
            return (none if r is None else {"t": "?", "x": []}), None
        if op == "NewBigEdge":
            self.bigs[self.bid[i]] = self.BE(self.bid[i], [self.v(h) for h in cyc])
            be = self.bigs[self.bid[i]]
            big = {"edges": [self.eback.get(x, -1) for x in be.edges], "cells": [self.cback.get(x, -1) for x in be.own_cells]}
            return {"t": "g", "x": [1 if be.external else 0]}, big
        if op == "DropBigEdge":
            del self.bigs[self.bid[i]]
            return none, None
        raise core.MachineryFailure(f"unknown operation {op}")

    def step(self, o):
        self.unr = 0
        raised, ret, big = "", {"t": "n", "x": []}, None
        try:
            ret, big = self._call(o)
        except core.MachineryFailure:
            raise
        except Exception as exc:       # the traceback (and with it a half-built object) is released with `exc`
            raised = type(exc).__name__
        self._trim(self.eslots)
        self._trim(self.cslots)
        return ret, raised, self.unr, big

    # ---- projection -------------------------------------------------------------------------------------
    def project(self):
        nv = len(self.verts)
        s = {"nv": nv,
             "oe": [[self.eback.get(x, -1) for x in v.ownEdges] for v in self.verts],
             "oc": [[self.cback.get(x, -1) for x in v.ownCells] for v in self.verts],
             "ob": [[self.bback.get(x, -1) for x in v.own_big_edges] for v in self.verts],
             "E": [], "C": [], "B": []}
        obs = {"eo": [], "vi": [], "sg": [], "nx": [], "pv": [], "ce": [], "nb": []}
        vh = {v.id: h + 1 for h, v in enumerate(self.verts)}
        for k, r in enumerate(self.eslots):
            obj = r() if r is not None else None
            if obj is None:
                s["E"].append({"id": -1, "a": 0, "b": 0, "d": False, "p": False})
                obs["eo"].append([])
                obs["vi"].append([])
                continue
            va = obj.get_vertices_array()
            s["E"].append({"id": self.eback.get(obj.id, -1), "a": self.hof.get(id(va[0]), 0), "b": self.hof.get(id(va[1]), 0),
                           "d": self.edges.get(obj.id) is obj, "p": self.epins.get(k) is obj})
            obs["vi"].append([vh.get(x, 0) for x in obj.get_vertices_id()])
            eo = []
            for v in self.verts:
                try:
                    eo.append(vh.get(obj.get_other_vertex_id(v.id), 0))
                except AssertionError:
                    eo.append(0)
            obs["eo"].append(eo)
            del obj, va
        for k, r in enumerate(self.cslots):
            obj = r() if r is not None else None
            if obj is None:
                s["C"].append({"id": -1, "vs": [], "d": False, "p": False})
                for key, val in (("sg", 0), ("nx", []), ("pv", []), ("ce", {"raised": "free", "x": []}), ("nb", {"raised": "free", "x": []})):
                    obs[key].append(val)
                continue
            s["C"].append({"id": self.cback.get(obj.id, -1), "vs": [self.hof.get(id(v), 0) for v in obj.get_cell_vertices()],
                           "d": self.cells.get(obj.id) is obj, "p": self.cpins.get(k) is obj})
            obs["sg"].append(int(obj.get_area_sign()))
            for key, fn in (("nx", obj.get_next_vertex), ("pv", obj.get_previous_vertex)):
                row = []
                for v in self.verts:
                    try:
                        row.append(self.hof.get(id(fn(v)), 0))
                    except ValueError:
                        row.append(0)
                obs[key].append(row)
            try:
                obs["ce"].append({"raised": "", "x": [self.eback.get(x, -1) for x in obj.get_edges()]})
            except Exception as exc:
                obs["ce"].append({"raised": type(exc).__name__, "x": []})
            try:
                obs["nb"].append({"raised": "", "x": [self.cback.get(x, -1) for x in obj.calculate_neighbors()]})
            except Exception as exc:
                obs["nb"].append({"raised": type(exc).__name__, "x": []})
            del obj, fn
        for key in sorted(self.bigs, key=lambda x: self.bback.get(x, -1)):
            s["B"].append({"id": self.bback.get(key, -1), "vs": [self.hof.get(id(v), 0) for v in self.bigs[key].vertices]})
        return s, obs


def _hook_install(heap_box):
    def hook(unraisable):       # "Exception ignored in: <function Cell.__del__ ...>": counted, nothing is kept
        if heap_box[0] is not None:
            heap_box[0].unr += 1
    sys.unraisablehook = hook


def execute(case, nv0, path, seed):
    """run one history on fresh real objects; returns the events"""
    import numpy as np
    np.seterr(all="raise")      # the state `import forsys` establishes (some solvers leave it changed)
    box = [None]
    _hook_install(box)
    hp = Heap(seed)
    box[0] = hp
    for _ in range(nv0):
        hp.new_vertex()
    s, obs = hp.project()
    evs = [{"case": case, "ev": "Begin", "nv0": nv0, "s": s, "obs": obs}]
    for o in path:
        ret, raised, unr, big = hp.step(o)
        s, obs = hp.project()
        evs.append({"case": case, "ev": "Step", "op": o, "ret": ret, "raised": raised, "unr": unr, "s": s, "obs": obs,
                    "big": big or {"edges": [], "cells": []}})
    box[0] = None
    return evs


# ---- random long sequences (driver-side choice of inputs only) ------------------------------------------------
def random_path(seed, length, nvmax=6, nid=4, wild=0.15):
    """a random operation sequence; `wild` = share of calls outside the documented use. The generator looks at a
    shadow of the real heap only to pick arguments that exist (slots, ids); nothing is compared here."""
    rng = random.Random(seed)
    import numpy as np
    np.seterr(all="raise")
    box = [None]
    _hook_install(box)
    hp = Heap(seed)
    box[0] = hp
    nv0 = rng.randint(2, 4)
    for _ in range(nv0):
        hp.new_vertex()
    path = []

    def op(name, i=0, a=0, b=0, cyc=()):
        return {"op": name, "i": i, "a": a, "b": b, "cyc": list(cyc)}

    for _ in range(length):
        nv = len(hp.verts)
        s, _obs = hp.project()
        liveE = [k + 1 for k, x in enumerate(s["E"]) if x["d"] or x["p"]]
        liveC = [k + 1 for k, x in enumerate(s["C"]) if x["d"] or x["p"]]
        usedE = {x["id"] for x in s["E"] if x["d"] or x["p"]}
        usedC = {x["id"] for x in s["C"] if x["d"] or x["p"]}
        w = rng.random() < wild
        r = rng.random()
        rv = lambda: rng.randint(1, nv)
        if r < 0.05 and nv < nvmax:
            o = op("NewVertex")
        elif r < 0.30:
            free = [i for i in range(nid) if i not in usedE]
            i = rng.randrange(nid) if (w or not free) else rng.choice(free)
            a = rv()
            b = rv() if (w or nv < 2) else rng.choice([h for h in range(1, nv + 1) if h != a])
            if len(liveE) >= 6:
                o = op("DelEdge", rng.randrange(nid))
            else:
                o = op("NewEdge", i, a, b)
        elif r < 0.40:
            o = op("DelEdge", rng.choice(sorted(usedE)) if (usedE and not w) else rng.randrange(nid))
        elif r < 0.46:
            o = op("PinEdge", rng.choice(sorted(usedE)) if (usedE and not w) else rng.randrange(nid))
        elif r < 0.52:
            pinned = [k + 1 for k, x in enumerate(s["E"]) if x["p"]]
            o = op("UnpinEdge", rng.choice(pinned) if (pinned and not w) else rng.randint(1, 6))
        elif r < 0.62 and liveE:
            k = rng.choice(liveE)
            x = s["E"][k - 1]
            if w:
                o = op("EdgeReplace", k, rv(), rv())
            else:
                others = [h for h in range(1, nv + 1) if h not in (x["a"], x["b"])]
                o = op("EdgeReplace", k, rng.choice([x["a"], x["b"]]), rng.choice(others) if others else rv())
        elif r < 0.74:
            free = [i for i in range(nid) if i not in usedC]
            i = rng.randrange(nid) if (w or not free) else rng.choice(free)
            n = rng.randint(0, 5) if w else rng.randint(2, min(5, nv))
            cyc = [rv() for _ in range(n)] if w else rng.sample(range(1, nv + 1), min(n, nv))
            if len(liveC) >= 4:
                o = op("DelCell", rng.randrange(nid))
            else:
                o = op("NewCell", i, cyc=cyc)
        elif r < 0.80:
            o = op("DelCell", rng.choice(sorted(usedC)) if (usedC and not w) else rng.randrange(nid))
        elif r < 0.83:
            o = op("PinCell", rng.choice(sorted(usedC)) if (usedC and not w) else rng.randrange(nid))
        elif r < 0.86:
            pinned = [k + 1 for k, x in enumerate(s["C"]) if x["p"]]
            o = op("UnpinCell", rng.choice(pinned) if (pinned and not w) else rng.randint(1, 4))
        elif r < 0.93 and liveC:
            k = rng.choice(liveC)
            vs = s["C"][k - 1]["vs"]
            o = op("CellReplace", k, rv() if (w or not vs) else rng.choice(vs), rv())
        elif r < 0.96:
            n = rng.randint(0, 4)
            # an interface path along existing mesh edges when possible
            cyc = []
            if liveE and not w:
                x = s["E"][rng.choice(liveE) - 1]
                cyc = [x["a"], x["b"]]
                for _k in range(n):
                    nxt = [y["b"] if y["a"] == cyc[-1] else y["a"] for y in s["E"] if (y["d"] or y["p"]) and cyc[-1] in (y["a"], y["b"])]
                    nxt = [h for h in nxt if h not in cyc]
                    if not nxt:
                        break
                    cyc.append(rng.choice(nxt))
            else:
                cyc = [rv() for _ in range(n)]
            o = op("NewBigEdge", rng.randrange(nid), cyc=cyc)
        elif r < 0.97:
            o = op("DropBigEdge", rng.randrange(nid))
        else:
            o = op(rng.choice(sorted(BOOK)), rng.randrange(nid), rv())
        path.append(o)
        hp.step(o)
    box[0] = None
    return nv0, path


def _job(args):
    case, payload = args
    try:
        if payload["kind"] == "random":
            nv0, path = random_path(payload["seed"], payload["length"], wild=payload["wild"])
        else:
            nv0, path = payload["nv0"], payload["path"]
        return case, execute(case, nv0, path, payload["seed"]), ""
    except Exception as exc:  # a failure outside the guarded calls = harness problem, not a verdict
        import traceback
        return case, None, f"{payload.get('kind')} seed={payload.get('seed')}: {exc!r} {traceback.format_exc()[-800:]}"


# ---- model-checking jobs ---------------------------------------------------------------------------------------
def mc_jobs(ctx):
    """[(cfg, workers, heap)]"""
    return ctx.pick([("MC_Primitives_edges.cfg", 1, "2g"), ("MC_Primitives_cells.cfg", 1, "2g"),
                     ("MC_Primitives_objects.cfg", 1, "2g"), ("MC_Primitives_big.cfg", 1, "2g")],
                    [("MC_Primitives_edges_thorough.cfg", 5, "6g"), ("MC_Primitives_cells_thorough.cfg", 2, "4g"),
                     ("MC_Primitives_cells1_thorough.cfg", 3, "4g"), ("MC_Primitives_objects_thorough.cfg", 3, "4g"),
                     ("MC_Primitives_big_thorough.cfg", 2, "4g"), ("MC_Primitives_big2_thorough.cfg", 1, "4g")])


GUARDS = ["SameIdAlive", "CellReplaceKeepsOld", "BigEdgeNeverDeregisters", "Zombie", "Unraisable"]


def _lines(res, tag):
    out = []
    for line in res.out.splitlines():
        if line.startswith(f'"{tag} '):
            out.append(json.loads(json.loads(line)[len(tag) + 1:]))
    return out


def _hkey(d):
    return hashlib.sha1(json.dumps(d, sort_keys=True).encode()).hexdigest()


def gather(ctx):
    """run the MC jobs, the guards and the simulation; returns [(kind, nv0, path)]"""
    jobs = mc_jobs(ctx)
    cases = []
    with cf.ThreadPoolExecutor(max_workers=len(jobs) + len(GUARDS) + 1) as ex:
        futs = [ex.submit(ctx.mc, "MC_Primitives", c, workers=w, timeout=5400, heap=h) for c, w, h in jobs]
        # vacuity guards as separate TLC runs (each stops at its first counterexample): thorough tier only; the quick tier
        # reads reachability from the tags of the histories the scopes emit (same predicates, evaluated by TLC)
        gfuts = [ex.submit(core.run_tlc, "MC_Primitives", f"MC_Primitives_guard_{g}.cfg", workers=1, timeout=900, heap="1g")
                 for g in (GUARDS if not ctx.quick else [])]
        nwalks = ctx.pick(40, 300)
        sfut = ex.submit(core.run_tlc, "MC_Primitives", "MC_Primitives_sim.cfg", workers=1, timeout=1800, heap="1g",
                         simulate=f"num={nwalks}", depth=14, seed=ctx.seed + 1)
        results = [f.result() for f in futs]
        gres = [f.result() for f in gfuts]
        sres = sfut.result()
    print(f"  [mc] guards {max([r.wall for r in gres] + [0]):.1f}s, simulation {sres.wall:.1f}s ({nwalks} walks)", file=sys.stderr)
    emitted = 0
    budget = ctx.pick(600, 1000000)
    seen_tags = {}
    for (cfg, _, _), res in zip(jobs, results):
        insts = _lines(res, "EJ")
        emitted += len(insts)
        insts = sorted(insts, key=_hkey)            # TLC's print order is not part of the result
        for inst in insts:
            for t in inst.get("tags", []):
                seen_tags.setdefault(t.split(":")[0], inst)
        for inst in insts[:budget]:
            cases.append(("mc:" + cfg, inst["nv0"], inst["path"], inst.get("tags", [])))
    reach = {}
    for g, res in zip(GUARDS, gres):
        hit = _lines(res, "GJ")
        violated = bool(res.invariant_violated) and bool(hit)
        reach[g] = violated
        ctx.mc_jobs.append({"module": "MC_Primitives", "cfg": f"MC_Primitives_guard_{g}.cfg", "distinct": res.distinct,
                            "generated": res.generated, "wall_s": round(res.wall, 1), "violated_as_expected": violated})
        if not violated:
            raise core.MachineryFailure(f"vacuity guard {g} was not violated (matcher unreachable in the model?):\n{res.error_text()}")
        cases.append(("counterexample:" + g, hit[0]["nv0"], hit[0]["path"], hit[0].get("tags", [])))
    # every matcher / lifetime situation must be reachable in the explored scopes, and one such history is always replayed
    for tag in ("KF_SameIdAlive", "KF_CellReplaceKeepsOld", "KF_BigEdgeNeverDeregisters", "zombie", "unr", "refused"):
        if tag not in seen_tags:
            raise core.MachineryFailure(f"no explored history is tagged {tag}: the scopes no longer reach it")
        inst = seen_tags[tag]
        cases.append(("tagged:" + tag, inst["nv0"], inst["path"], inst.get("tags", [])))
        reach["tag:" + tag] = True
    # in simulation mode TLC evaluates the invariants on EVERY successor of the walk's last state before it picks one:
    # one line per candidate last step. Keep one history per walk (the hash-smallest; selection of inputs only).
    groups = {}
    for wk in _lines(sres, "EJ"):
        groups.setdefault(_hkey(wk["path"][:-1]), []).append(wk)
    walks = [min(g, key=_hkey) for _, g in sorted(groups.items())]
    if len(walks) < nwalks // 2:
        raise core.MachineryFailure(f"simulation produced {len(walks)} walks of {nwalks}:\n{sres.error_text()}")
    for wk in walks:
        cases.append(("walk", wk["nv0"], wk["path"], wk.get("tags", [])))
    ctx.extra["exhaustive_scope"] = {"mc": [c for c, _, _ in jobs], "emitted_histories": emitted, "walks": len(walks),
                                     "guards_violated_as_expected": reach}
    return cases


def run(ctx):
    cases = gather(ctx)
    payloads, jobs = {}, []
    case = 0
    for kind, nv0, path, tags in cases:
        case += 1
        payloads[case] = {"kind": kind, "nv0": nv0, "path": path, "seed": ctx.seed * 1000003 + case}
        ctx.add_case({"nv0": nv0, "path": path}, nontrivial=len(path) >= 2)
        jobs.append((case, payloads[case]))
    nrand = ctx.pick(120, 3000)
    for i in range(nrand):
        case += 1
        payloads[case] = {"kind": "random", "seed": ctx.seed * 104729 + i, "length": ctx.pick(40, 80),
                          "wild": [0.0, 0.1, 0.3][i % 3]}
        ctx.add_case(payloads[case])
        jobs.append((case, payloads[case]))
    import time
    t0 = time.time()
    results = core.parallel_map(_job, jobs, chunksize=8)
    print(f"  [exec] {len(jobs)} histories on real objects: {time.time() - t0:.1f}s", file=sys.stderr)
    bad = [r for r in results if r[1] is None]
    if bad:
        raise core.MachineryFailure(f"driver failed on {len(bad)} case(s); first: {bad[0][2]}")
    verdicts = ctx.validate(TRACE, [(c, evs) for c, evs, _ in results], cfg=CFG, timeout=5400, heap="2g", shards=ctx.pick(8, 16))
    ctx.judge(verdicts, payloads)
    ctx.extra["exhaustive_scope"]["random_sequences"] = nrand
    ctx.extra["cases_clean_of_known_findings"] = sum(1 for vjs in verdicts.values() if not any(vj.get("kf") for vj in vjs))
    ctx.rule = ("TLC explores every sequence of primitive operations up to the configured depth (modulo equality of heap and "
                "contract history) in four (thorough: six) scopes (edges, cells, objects, interfaces), checks invariants and the action property on "
                "the model, and prints one history per distinct state; a hash-selected sample, the guards' counterexamples and "
                "random walks are executed on real forsys objects, plus seeded random sequences of 40-80 calls. "
                "Non-trivial = at least two calls.")
    ctx.exhaustive = True
    ctx.assumptions += ["TLC/SANY and the CommunityModules Json reader are trusted",
                        "extension check: `primitives` is not one of the listed properties; the clauses are those of "
                        "spec/Primitives.tla / Trace_Primitives.tla",
                        "vertex ids are unique (one `vertices` dict); vertex handle h sits at (h, h^2), so every cycle of three "
                        "distinct vertices has non-zero area and the area sign is exact",
                        "CPython reference counting: a destructor runs when the last reference goes away; liveness is observed "
                        "through weak references, the only strong references are the dict and the modelled stray reference",
                        "per-id contract: add_/remove_ called by hand with an effect, replace_vertex with an old vertex that is no "
                        "end / a new vertex that is the other end or the same vertex, and cycles with a repeated vertex put the "
                        "id outside what the declarative clauses demand (the step itself is still compared with the model)"]


def replay(ctx, payload):
    inp = payload["input"]
    with core.quiet_stdout():
        c, evs, err = _job((1, inp))
    if evs is None:
        raise core.MachineryFailure(err)
    ctx.add_case(inp)
    v = ctx.validate(TRACE, [(c, evs)], cfg=CFG, heap="2g")
    ctx.judge(v, {c: inp})


# ---- the binding is real: a recorded trace is accepted, the same trace with one field corrupted is rejected ----------
def selfcheck():
    """/venv/bin/python -c "import sys; sys.path[:0]=['/verif','/verif/harness']; from harness.props import primitives as p; sys.exit(p.selfcheck())" """
    import copy
    core.import_forsys()
    op = lambda name, i=0, a=0, b=0, cyc=(): {"op": name, "i": i, "a": a, "b": b, "cyc": list(cyc)}
    path = [op("NewEdge", 0, 1, 2), op("NewEdge", 1, 2, 3), op("NewEdge", 2, 3, 1), op("NewCell", 0, cyc=[1, 2, 3]),
            op("add_edge", 0, 1), op("DelEdge", 1), op("NewVertex"), op("EdgeReplace", 1, 2, 4)]
    with core.quiet_stdout():
        good = execute(1, 3, path, 5)

    def own_list(evs):
        evs[2]["s"]["oe"][2].append(0)                # a vertex lists an edge it is no end of
    def ret_flag(evs):
        evs[5]["ret"]["x"] = [1]                      # add_edge of a listed id reported a change
    def kept_registration(evs):
        evs[6]["s"]["oe"][1] = [0, 1]                 # deleted edge still listed at one end
    def end_not_replaced(evs):
        evs[8]["s"]["E"][0]["b"] = 2                  # replace_vertex did not substitute the end
    def nxt(evs):
        o = evs[4]["obs"]                             # next runs against the area sign
        o["nx"][0], o["pv"][0] = o["pv"][0], o["nx"][0]
    def raised(evs):
        evs[1]["raised"] = "ValueError"
    def ghost(evs):                                   # the deleted edge object is still alive (weak reference resolves)
        evs[6]["s"]["E"][1] = {"id": 1, "a": 2, "b": 3, "d": False, "p": False}
    table = [("own list gains a foreign id", own_list, "PRIM.step.own_edges"),
             ("add_edge return flag flipped", ret_flag, "PRIM.step.ret"),
             ("a deleted edge stays registered", kept_registration, "PRIM.del_edge_exact"),
             ("replace_vertex leaves the old end", end_not_replaced, "PRIM.edge_replace_maps"),
             ("get_next_vertex reversed", nxt, "PRIM.obs.next"),
             ("a call reported as raising", raised, "PRIM.step.raised"),
             ("a deleted edge object is still alive", ghost, "PRIM.lifetime.destroyed_with_last_reference")]
    ctx = core.Ctx(PID + "-selfcheck", "quick", 0, LEVEL)
    cases = [(1, good)]
    for n, (_, mut, _) in enumerate(table):
        evs = copy.deepcopy(good)
        for e in evs:
            e["case"] = n + 2
        mut(evs)
        cases.append((n + 2, evs))
    v = ctx.validate(TRACE, cases, cfg=CFG, heap="1g")
    okall = True
    fails0 = sorted({c for vj in v[1] for c in vj["fails"]})
    print(f"recorded trace: {'accepted' if not fails0 else 'REJECTED ' + str(fails0)}")
    okall &= not fails0
    for n, (label, _, want) in enumerate(table):
        got = sorted({c for vj in v[n + 2] for c in vj["fails"]})
        ok = any(c.startswith(want) for c in got)
        okall &= ok
        print(f"corrupted ({label}): {'rejected' if got else 'ACCEPTED'} {got} expected {want} -> {'ok' if ok else 'MISSING'}")
    return 0 if okall else 1

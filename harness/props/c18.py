"""C18 — coarse-grained stress tensor: symmetric, linear, isotropic for pure pressure; principal stresses.

Spec -> code: MC_StressTensor (TLC) enumerates grid sizes 1..12 x grid positions, models the dictionary
key str(row)+str(column) on integer pairs, proves it injective for grids <= 10 and produces the collision
counterexample beyond; it also brute-forces the eigen certificate on small matrices. The grid sizes it
enumerates are all executed on the real code.
Code -> spec: every case builds a fresh tissue (catalogue or random Voronoi, k interior points per edge,
arcs, similarity near unit scale), assigns pressures and tensions directly, calls
stress_tensor(frame, grid, radius) four times (two independent assignments, their linear combination, a
pure-pressure assignment) and Frame.calculate_stress_tensor once; TLC (Trace_StressTensor) recomputes grid
centres, selections and Batchelor sums from the logged per-cell / per-interface data and judges every
clause. Python computes no verdict."""
import math
import random
import re

import numpy as np

from harness import core, build, tissue
from harness.gen import catalogue, voronoi

LEVEL = "exploration"
PID = "C18"
QS = 1000000
CLIPV = 1999900000

CATALOGUE = ["hexflower", "hex33", "brick33", "squares33", "irregular", "hex43"]
RADII = [0.5, 0.75, 1.0, 1.5, 2.0, 3.0, 4.5, 6.0]
KINDS = ["random", "random", "random", "zero", "negative", "uniform", "sparse", "positive"]


def fxc(x):
    """float -> fixed point, clipped (|x| >= 1999 is 'out of range' for the specification)"""
    x = float(x)
    if not math.isfinite(x):
        return CLIPV
    v = int(round(x * QS))
    return max(-CLIPV, min(CLIPV, v))


def keystr(k):
    """dictionary key -> string: the code's own string, or "row,column" for an unambiguous key"""
    if isinstance(k, tuple) and len(k) == 2:
        return f"{int(k[0])},{int(k[1])}"
    m = re.fullmatch(r"\D*(\d+)\D+(\d+)\D*", str(k))
    return f"{m[1]},{m[2]}" if m else str(k)


def _poly_area(pts):
    return 0.5 * sum(pts[i][0] * pts[(i + 1) % len(pts)][1] - pts[(i + 1) % len(pts)][0] * pts[i][1]
                     for i in range(len(pts)))


def make_desc(spec):
    """abstract case -> mesh description (embedded near unit scale: mean cell area ~ s^2)"""
    rng = random.Random(spec["seed"])
    if spec["kind"] == "catalogue":
        base = catalogue.load(spec["base"])
        pos = {i + 1: tuple(p) for i, p in enumerate(base["pos"])}
        cells = [base["cells"][i] for i in spec["cells"]] if spec.get("cells") else base["cells"]
    else:
        pos, cells, _, _ = voronoi.random_tissue(random.Random(spec["vseed"]), spec["ncells"])
        if spec.get("keep"):
            cells = cells[:spec["keep"]]
    mean_area = sum(abs(_poly_area([pos[v] for v in cyc])) for cyc in cells) / len(cells)
    s = spec["s"] / math.sqrt(mean_area)
    # centre the tissue before the similarity so that the translation alone decides where it sits
    used = sorted({v for cyc in cells for v in cyc})
    mx = sum(pos[v][0] for v in used) / len(used)
    my = sum(pos[v][1] for v in used) / len(used)
    pos = {v: (pos[v][0] - mx, pos[v][1] - my) for v in used}
    sim = tissue.Similarity(spec["theta"], s, spec["tx"], spec["ty"], spec["reflect"])
    k = spec["k"]
    bulge = None
    if k > 0 and spec["arcs"]:
        edges, _ = tissue.base_edges(cells)
        bulge = {e: rng.choice([-1, 1]) * rng.uniform(0.06, 0.3) for e in edges}
    desc, _ = tissue.instance_desc(pos, cells, k, sim, id_offset=spec["id_offset"], id_stride=spec["id_stride"],
                                   bulge=bulge, shuffle_rng=rng if spec["shuffle"] else None)
    lam = 2.0 ** spec.get("u", 0)
    if lam != 1.0:
        # the same tissue written in another length unit (x 2**u, exact in binary floating point)
        for row in desc["V"]:
            row[1], row[2] = row[1] * lam, row[2] * lam
    return desc


def connected_subset(rng, cells, size):
    """indices of `size` cells grown from a random cell through shared edges"""
    def ekeys(cyc):
        return {(min(cyc[i], cyc[(i + 1) % len(cyc)]), max(cyc[i], cyc[(i + 1) % len(cyc)])) for i in range(len(cyc))}
    keys = [ekeys(c) for c in cells]
    chosen = [rng.randrange(len(cells))]
    while len(chosen) < size:
        cand = [i for i in range(len(cells)) if i not in chosen and any(keys[i] & keys[j] for j in chosen)]
        if not cand:
            break
        chosen.append(rng.choice(cand))
    return sorted(chosen)


def assignment(rng, kind, n, m):
    if kind == "zero":
        return [0.0] * n, [0.0] * m
    if kind == "negative":
        return [-rng.uniform(0.1, 5) for _ in range(n)], [-rng.uniform(0.1, 5) for _ in range(m)]
    if kind == "positive":
        return [rng.uniform(0.1, 5) for _ in range(n)], [rng.uniform(0.1, 5) for _ in range(m)]
    if kind == "uniform":
        p0, t0 = rng.uniform(-5, 5), rng.uniform(-5, 5)
        return [p0] * n, [t0] * m
    if kind == "sparse":
        return ([rng.uniform(-5, 5) if rng.random() < 0.3 else 0.0 for _ in range(n)],
                [rng.uniform(-5, 5) if rng.random() < 0.3 else 0.0 for _ in range(m)])
    return [rng.uniform(-5, 5) for _ in range(n)], [rng.uniform(-5, 5) for _ in range(m)]


def _assign(fr, p, T, lam=1.0):
    """lam: length unit of the embedding; a tension is a force per length, so the same physical state has tension T x lam
    (the logged values stay in the unit-free frame: areas / lam^2, lengths / lam, tensions / lam)"""
    for c, v in zip(fr.cells.values(), p):
        c.pressure = v
    for b, v in zip(fr.big_edges.values(), T):
        b.tension = v * lam


def _read(fr, lam=1.0):
    return ([fxc(c.pressure) for c in fr.cells.values()], [fxc(b.tension / lam) for b in fr.big_edges.values()])


def _tb(exc):
    import traceback
    return type(exc).__name__ + ": " + traceback.format_exc()[-300:]


def case_events(case, spec):
    """runs the implementation for one case; returns the trace events"""
    import forsys as fs
    import forsys.stress_tensor as st
    rng = random.Random(spec["seed"] + 17)
    G, radius = spec["grid"], spec["radius"]
    lam = 2.0 ** spec.get("u", 0)
    try:
        vertices, edges, cells = build.build_mesh(make_desc(spec))
        fr = fs.frames.Frame(0, vertices, edges, cells, time=0)
        del edges, cells
        cids = list(fr.cells.keys())
        cidx = {cid: i + 1 for i, cid in enumerate(cids)}
        # the objects also carry ground-truth values (as parsed Surface Evolver tissues do): nothing of them may enter
        for c_ in fr.cells.values():
            c_.gt_pressure = rng.uniform(0.5, 3.0)
        for b_ in fr.big_edges.values():
            b_.gt = rng.uniform(0.5, 3.0)
        n, m = len(cids), len(fr.big_edges)
        cms = [[z / lam for z in c.get_cm()] for c in fr.cells.values()]
        areas = [abs(c.get_area()) / lam / lam for c in fr.cells.values()]
        oc = [[cidx.get(cid, 0) for cid in b.own_cells] for b in fr.big_edges.values()]
        _assign(fr, [0.0] * n, [0.0] * m)
        vec = [[z / lam for z in v] for v in st.get_big_edges_df(fr)["vector"]] if m else []
        with np.errstate(all="ignore"):
            xe_fallback = np.histogram([c[0] for c in cms], G)[1]      # cms are already in the unit-free frame
            ye_fallback = np.histogram([c[1] for c in cms], G)[1]
    except Exception as exc:  # building the input failed: machinery, not a verdict
        raise core.MachineryFailure(f"C18 case {case} {spec}: {exc!r}")

    def tensor_event(p, T, extra):
        _assign(fr, p, T, lam)
        lp, lT = _read(fr, lam)
        ev = {"case": case, "ev": "Tensor", "p": lp, "T": lT, "ent": [], "bc": [[], []], "xe": [], "ye": [],
              "finite": True, "raised": ""}
        ev.update(extra)
        out = None
        try:
            out = st.stress_tensor(fr, G, radius)
            sig, bc, bins = out
            with np.errstate(all="ignore"):
                ev["ent"] = [{"k": keystr(k), "s": [fxc(a[0][0]), fxc(a[0][1]), fxc(a[1][0]), fxc(a[1][1])]}
                             for k, a in sig.items()]
                ev["finite"] = bool(all(np.all(np.isfinite(np.asarray(a, dtype=float))) for a in sig.values()))
                ev["bc"] = [[fxc(x / lam) for x in bc[0]], [fxc(y / lam) for y in bc[1]]]
                ev["xe"] = [fxc(x / lam) for x in bins[0]]
                ev["ye"] = [fxc(y / lam) for y in bins[1]]
        except Exception as exc:
            ev["raised"] = _tb(exc)
        return ev, out

    k1, k2 = spec["kinds"]
    p1, T1 = assignment(rng, k1, n, m)
    p2, T2 = assignment(rng, k2, n, m)
    a, b = spec["ab"]
    p3 = [a * x + b * y for x, y in zip(p1, p2)]
    T3 = [a * x + b * y for x, y in zip(T1, T2)]
    p0 = spec["p0"]
    evs = []
    e1, out1 = tensor_event(p1, T1, {"run": 1, "what": k1})
    e2, _ = tensor_event(p2, T2, {"run": 2, "what": k2})
    e3, _ = tensor_event(p3, T3, {"run": 3, "what": "combination", "lin": [1, 2, fxc(a), fxc(b)]})
    e4, _ = tensor_event([p0] * n, [0.0] * m, {"run": 4, "what": "pure"})
    # principal stresses on one of the assignments
    pp, TT = [(p1, T1), (p2, T2), (p3, T3)][spec["principal_on"]]
    _assign(fr, pp, TT, lam)
    lp, lT = _read(fr, lam)
    e5 = {"case": case, "ev": "Principal", "p": lp, "T": lT, "items": [], "raised": ""}
    try:
        if case % 3 == 0:
            # an earlier evaluation on the same frame with ANOTHER grid must leave nothing behind: the principal stresses
            # reported for a frame are those of the last call's grid (C18.principal_key demands no stray items)
            fr.calculate_stress_tensor(coarsing=G + 2 if G < 10 else G - 3, radius=radius)
        fr.calculate_stress_tensor(coarsing=G, radius=radius)
        with np.errstate(all="ignore"):
            for key, (w, v) in fr.principal_stress.items():
                w = np.asarray(w)
                v = np.asarray(v)
                cplx = bool(np.iscomplexobj(w) and np.any(np.imag(w) != 0)) or \
                    bool(np.iscomplexobj(v) and np.any(np.imag(v) != 0))
                w, v = np.real(w), np.real(v)
                e5["items"].append({"kx": fxc(key[0] / lam), "ky": fxc(key[1] / lam), "w": [fxc(w[0]), fxc(w[1])],
                                    "v": [fxc(v[0][0]), fxc(v[0][1]), fxc(v[1][0]), fxc(v[1][1])],
                                    "cplx": cplx})
    except Exception as exc:
        e5["raised"] = _tb(exc)
    xe = e1["xe"] if e1["raised"] == "" and e1["xe"] else [fxc(x) for x in xe_fallback]
    ye = e1["ye"] if e1["raised"] == "" and e1["ye"] else [fxc(y) for y in ye_fallback]
    big = [bool(abs(v[0]) > 1000 or abs(v[1]) > 1000 or not math.isfinite(v[0]) or not math.isfinite(v[1]))
           for v in vec]
    env = {"case": case, "ev": "Env", "G": G, "radius": fxc(radius), "n": n, "m": m,
           "cx": [fxc(c[0]) for c in cms], "cy": [fxc(c[1]) for c in cms], "A": [fxc(x) for x in areas],
           "oc": oc, "vx": [fxc(v[0]) for v in vec], "vy": [fxc(v[1]) for v in vec], "big": big,
           "xe": xe, "ye": ye, "ids": [int(c) for c in cids], "src": spec["src"]}
    del fr
    return [env, e1, e2, e3, e4, e5]


def _job(args):
    case, spec = args
    try:  # 16 worker processes x multi-threaded BLAS oversubscribe the machine (measured 4x slower)
        from threadpoolctl import threadpool_limits
    except ImportError:
        return case, case_events(case, spec)
    with threadpool_limits(limits=1):
        return case, case_events(case, spec)


# ---------------------------------------------------------------------------------------------
def make_specs(ctx, grids):
    """deterministic list of abstract cases; every grid size the model enumerated is executed"""
    rng = random.Random(ctx.seed * 104729 + 18)
    specs = []

    def common(src):
        a = round(rng.uniform(-1.5, 1.5), 3)
        b = round(rng.uniform(-1.5, 1.5), 3)
        k = rng.choice([0, 0, 1, 2, 3, 4])
        return {"src": src, "seed": rng.randrange(1 << 30), "k": k, "arcs": rng.random() < 0.9,
                "s": round(rng.uniform(0.75, 1.3), 4),
                # one case in five keeps the catalogue's own axes (exactly axis-parallel interfaces in the square / brick tissues)
                "theta": 0.0 if rng.random() < 0.2 else rng.uniform(0, 2 * math.pi),
                "tx": round(rng.uniform(-8, 8), 3), "ty": round(rng.uniform(-8, 8), 3),
                "reflect": rng.random() < 0.3, "id_offset": rng.choice([0, 0, 5, 100]),
                "id_stride": rng.choice([1, 1, 3]), "shuffle": rng.random() < 0.5,
                "radius": rng.choice(RADII) if rng.random() < 0.6 else round(rng.uniform(0.5, 6.0), 3),
                "kinds": [rng.choice(KINDS), rng.choice(KINDS)], "ab": [a, b],
                "p0": rng.choice([round(rng.uniform(-5, 5), 3), round(rng.uniform(-5, 5), 3), -2.5, 0.0, 3.0]),
                "principal_on": rng.choice([0, 1, 2]),
                # one case in five is written in another length unit (x 2**u: e.g. microns as metres)
                "u": rng.choice([-20, -27, -34, 14]) if rng.random() < 0.2 else 0}

    reps_cat = ctx.pick(1, 8)
    for rep in range(reps_cat):
        for base in CATALOGUE:
            nc = catalogue.load(base)["nc"]
            for G in grids:
                sp = common(f"catalogue:{base}")
                sp.update({"kind": "catalogue", "base": base, "grid": G})
                if rng.random() < 0.2:      # an edge-connected sub-tissue: ragged border, very small tissues
                    sp["cells"] = connected_subset(rng, catalogue.load(base)["cells"],
                                                   rng.choice([2, 3, max(2, nc // 2), nc - 1]))
                specs.append(sp)
    sizes = ctx.pick([8, 14, 22], [8, 14, 22, 35, 50])
    reps_vor = ctx.pick(3, 40)
    for rep in range(reps_vor):
        for G in grids:
            nc = rng.choice(sizes if G < 11 else sizes[:3])
            sp = common(f"voronoi:n{nc}")
            sp.update({"kind": "voronoi", "vseed": rng.randrange(1 << 30), "ncells": nc, "grid": G})
            specs.append(sp)
    return specs


def run(ctx):
    # ---- the model: keys and certificate ---------------------------------------------------
    res = ctx.mc("MC_StressTensor", "MC_StressTensor.cfg", env={"C18_GMAX": 12, "C18_INJ_UPTO": 10, "C18_N": ctx.pick(3, 5)})
    keymodel = {r["G"]: r for r in res.printed}
    grids = sorted(keymodel)
    # the same invariant demanded of every grid size of the quantifier: TLC's counterexample is the
    # design-level finding (reported through the trace verdicts below; here only recorded)
    res2 = ctx.mc("MC_StressTensor", "MC_StressTensor.cfg", env={"C18_GMAX": 12, "C18_INJ_UPTO": 12, "C18_N": 1},
                  expect_complete=False, workers=1)
    if res2.completed or res2.invariant_violated != ["KeysInjective"]:
        ctx.note("MC_StressTensor: KeysInjective holds for every grid size 1..12 in the model")
    else:
        bad = [g for g in grids if not keymodel[g]["injective"]]
        ctx.note(f"MC_StressTensor: KeysInjective violated by the key model for grid sizes {bad} "
                 f"(distinct keys {[(g, keymodel[g]['nkeys'], keymodel[g]['npos']) for g in bad]}); holds for the others")
    ctx.extra["key_model"] = [{k: v for k, v in keymodel[g].items()} for g in grids]

    # ---- the implementation ----------------------------------------------------------------
    specs = make_specs(ctx, grids)
    jobs, payloads = [], {}
    for i, sp in enumerate(specs):
        case = i + 1
        jobs.append((case, sp))
        payloads[case] = sp
    # big grids first (they are the slow ones)
    order = sorted(jobs, key=lambda j: -(j[1]["grid"] ** 2) * (j[1].get("ncells", 10) + 5))
    results = core.parallel_map(_job, order, chunksize=1)
    verdicts = ctx.validate("Trace_StressTensor", results, heap="2g")
    _account(ctx, verdicts)
    for case, sp in payloads.items():
        hits = {h for vj in verdicts.get(case, []) for h in vj.get("hits", [])}
        ctx.add_case(sp, nontrivial={"C18.batchelor", "C18.linear", "C18.principal_is_eigen"} <= hits)
    ctx.judge(verdicts, payloads)
    ctx.rule = ("cases = (catalogue tissue | random Voronoi tissue) x k in 0..4 interior points per edge (arcs) x "
                "random similarity near unit scale x every grid size 1..12 enumerated by the TLC key model x "
                "radius in 0.5..6 x two assignments of pressures/tensions (random, zero, negative, positive, "
                "uniform, sparse), their linear combination, a pure-pressure assignment, and "
                "Frame.calculate_stress_tensor; all verdicts by TLC from the logged per-cell/per-interface data. "
                "A case is non-trivial when TLC judged, in that case, the Batchelor clause on a non-empty selection, "
                "the linearity clause (premise verified) and the eigen clause on at least one grid position; "
                "per-clause exercise counts are in clause_hits, decided/undecidable grid positions in positions.")
    ctx.exhaustive = False
    ctx.assumptions += ["TLC/SANY and the CommunityModules Json reader are trusted",
                        "the driver reads centroids (Cell.get_cm), |areas| (Cell.get_area), pressures, tensions and "
                        "own_cells from the frame objects and the vector per interface from get_big_edges_df; the "
                        "vector itself is not judged (not part of C18's statement)",
                        "grid positions whose selection is within the pi-gap/quantisation margin of the threshold, "
                        "interfaces with |vector| > 30 or < 0.02 (degenerate circle fits of straight interfaces) and "
                        "values >= 1999 are rejected input for the affected grid positions (counted)",
                        "fixed point Q = 1e6; tolerances in spec/StressTensor.tla"]


def _account(ctx, verdicts):
    npos = nund = use = 0
    failing = {}
    for vjs in verdicts.values():
        for vj in vjs:
            if vj["ev"] in ("Tensor", "Principal"):
                npos += vj.get("npos", 0)
                nund += vj.get("nund", 0)
                use = max(use, vj.get("use", 0))
            for d in vj.get("drift", []):
                ctx.note(f"model_drift {d} (first seen in case {vj['case']})")
            for cl in list(vj.get("fails", [])) + list(vj.get("kf", [])):
                failing[cl] = failing.get(cl, 0) + 1
    ctx.extra["positions"] = {"judged": npos, "undecidable_or_out_of_range": nund}
    ctx.extra["batchelor_tolerance_used_percent_max"] = use
    ctx.extra["failing_clause_events"] = failing   # relayed from TLC's verdicts (all of them, not the first 40)


def replay(ctx, payload):
    spec = payload["input"]
    c, evs = 1, None
    with core.quiet_stdout():
        c, evs = _job((1, spec))
    ctx.add_case(spec)
    v = ctx.validate("Trace_StressTensor", [(c, evs)])
    _account(ctx, v)
    ctx.judge(v, {c: spec})

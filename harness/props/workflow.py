"""workflow (extension check) - WHICH OBJECT GENERATION every result of a ForSys session belongs to.

Specification: spec/Workflow.tla, a refinement of Pipeline.tla in which every object carries the Frame generation /
mesh version it was made from (Frame objects replaced by ForSys.remove_cell / remove_outermost_edges, the matrices and
the Frame they reference, the stores forces[t] / pressures[t], the tensions on mesh edges and interfaces, the cell
pressures, the stress tensor, the coordinate cache of the interfaces, the vertex mapping of the TimeSeries).

Spec -> code: MC_Workflow explores every call sequence of a two-frame session to a bounded depth (the declarative
  properties relative to the known-finding matchers are invariants / action properties; the bare properties are guard
  configurations that TLC refutes - the counterexamples are the design-level findings) and `-simulate` writes call
  sequences; each is REPLAYED on a real ForSys session (catalogue tissue, second frame = slightly displaced copy),
  refused calls included.
Code -> spec: seeded random call sequences (longer, more edits).  After every call the driver records the observable
  generation facts: generation stamp of every Frame object (external wrapper around Frame.__post_init__), which Frame
  the matrices reference, mesh version (interned fingerprint of the cells present and all positions), version of the
  coordinates cached in the interfaces, exactness of Vertex.own_big_edges, every table in fixed point (Q = 1e6), and -
  as a projection - the same quantities computed by a FRESH session on a deep-rebuilt copy of the mesh versions
  involved (`refs`).  Trace_Workflow threads the model state through the events (same `Step` as MC_Workflow), judges
  every recorded step against the model's successor (clauses WF.*) and evaluates the declarative properties on the
  recorded numbers against the fresh references (clauses WF.D.*).  Nothing is judged in Python.
"""
import glob
import hashlib
import json
import math
import os
import random
import re
import shutil
import sys
import tempfile

import numpy as np

from harness import core, tissue, build
from harness.gen import cattissue, equilibrium as eq

LEVEL = "exploration"
PID = "workflow"
TRACE = "Trace_Workflow"
CFG = "Trace_Workflow.cfg"
QS = 1000000
LIMV = 1900.0
LIM_ANGLE = 2.8
EXTRA_KF = os.path.join(core.VERIF, "findings", "workflow_known_findings.json")
NFR = 2
MAXGEN = 6

BUILD_KW = {"pi": {}, "lim": {"angle_limit": LIM_ANGLE}, "inf": {"angle_limit": np.inf}}
SOLVE_KW = {"static": {}, "vel": {"b_matrix": "velocity", "adimensional_velocity": True}}
OPS = ("BuildForce", "SolveStress", "BuildPressure", "SolvePressure", "SystemVelocity", "RemoveCell", "RemoveOutermost",
       "FilterEdges", "LogForce", "GetTensions", "GetPressures", "StressTensor")


# ------------------------------------------------------------------------------------------------
# external tracing: generation stamp of Frame objects
# ------------------------------------------------------------------------------------------------
_REC = {"cur": None}


def _install_stamp():
    import forsys as fs
    F = fs.frames.Frame
    if getattr(F, "_wf_wrapped", False):
        return
    orig = F.__post_init__

    def post(self):
        orig(self)
        rec = _REC["cur"]
        if rec is not None:                       # only successful constructions are counted
            k = rec.counter.get(self.frame_id, -1) + 1
            rec.counter[self.frame_id] = k
            self._wf_gen = k
    F.__post_init__ = post
    F._wf_wrapped = True


def q(x):
    """float -> [flag, fixed point]: 1 number, 0 None, 2 NaN / out of range"""
    if x is None:
        return [0, 0]
    try:
        f = float(x)
    except (TypeError, ValueError):
        return [2, 0]
    if not math.isfinite(f) or abs(f) >= LIMV:
        return [2, 0]
    return [1, int(round(f * QS))]


def qv(xs):
    return [q(x) for x in xs]


# ------------------------------------------------------------------------------------------------
# sessions
# ------------------------------------------------------------------------------------------------
def make_descs(spec):
    """two frames: the second a slightly displaced copy (same ids)"""
    rng = random.Random(spec["gseed"])
    t0 = cattissue.make(spec["tissue"], sagitta=spec.get("sag", 0.12), rng=random.Random(3))
    pos = {v: (z.real, z.imag) for v, z in t0["pos"].items()}
    ip = eq.interior_points(t0, spec["k"])
    sim = tissue.Similarity(spec.get("theta", 0.3), 1.0, 0.0, 0.0)
    descs = []
    for t in range(NFR):
        desc, _ = tissue.instance_desc(pos, t0["cells"], spec["k"], sim, interior_pts=ip, id_offset=spec.get("off", 0))
        if t > 0:
            for row in desc["V"]:
                row[1] += rng.uniform(-0.05, 0.05)
                row[2] += rng.uniform(-0.05, 0.05)
        descs.append(desc)
    return descs


def session_from(descs):
    import forsys as fs
    frames = {}
    for t, d in enumerate(descs):
        v, e, c = build.build_mesh(d)
        frames[t] = fs.frames.Frame(t, v, e, c, time=float(t))
        del v, e, c
    return fs.ForSys(frames)


def snapshot(fr):
    return {"V": [[int(k), float(v.x), float(v.y)] for k, v in fr.vertices.items()],
            "E": [[int(k), int(e.v1.id), int(e.v2.id)] for k, e in fr.edges.items()],
            "C": [[int(k), [int(v.id) for v in c.vertices]] for k, c in fr.cells.items()]}


def fingerprint(fr):
    return (tuple(int(k) for k in fr.cells.keys()), tuple((int(k), float(v.x), float(v.y)) for k, v in fr.vertices.items()))


def reg_clean(fr):
    want = {}
    for i, be in fr.big_edges.items():
        for v in be.vertices:
            want.setdefault(v.id, set()).add(i)
    for k, v in fr.vertices.items():
        if sorted(v.own_big_edges) != sorted(want.get(k, set())):
            return False
    return True


def outer_cells(fr):
    return [cid for cid, c in fr.cells.items() if any(len(v.ownCells) == 1 for v in c.vertices)]


def private_count(fr, cid):
    return sum(1 for v in fr.cells[cid].vertices if len(v.ownCells) < 2)


class Driver:
    def __init__(self, case, spec, opts_used):
        import forsys as fs
        self.fs = fs
        _install_stamp()
        np.seterr(all="raise")
        self.case = case
        self.spec = spec
        self.rng = random.Random(spec["gseed"] * 7 + 1)
        self.counter = {}
        self.opts_used = opts_used          # {"b": set of build options, "s": set of solve options} occurring in the sequence
        _REC["cur"] = self
        self.S = session_from(make_descs(spec))
        _REC["cur"] = None
        self.eidx = [{int(k): i + 1 for i, k in enumerate(self.S.frames[t].edges.keys())} for t in range(NFR)]
        self.vers = [[] for _ in range(NFR)]        # per frame: list of (fingerprint, snapshot desc, {vid: (x, y)})
        self.keep = []                              # strong references to every matrix / Frame seen (ids are never reused)
        self.prev_fm = [None] * NFR
        self.prev_pm = [None] * NFR
        self.refs_done = set()
        self.mats = {}
        self.poisoned = False
        self.events = []
        self._versions()
        ev = {"case": case, "ev": "Begin", "nf": NFR, "ne": [len(self.eidx[t]) for t in range(NFR)],
              "nmap": [len(self.S.mesh.mapping.get(t) or {}) for t in range(NFR - 1)]}
        ev["refs"] = self._new_refs()
        ev["obs"] = [self.obs(t) for t in range(NFR)]
        ev["dangling"] = self.dangling()
        self.events.append(ev)

    # ---- versions and references ---------------------------------------------------------------
    def _versions(self):
        for t in range(NFR):
            fr = self.S.frames[t]
            fp = fingerprint(fr)
            if not any(fp == x[0] for x in self.vers[t]):
                self.vers[t].append((fp, snapshot(fr), {int(k): (float(v.x), float(v.y)) for k, v in fr.vertices.items()}))

    def ver_index(self, t):
        fp = fingerprint(self.S.frames[t])
        for i, x in enumerate(self.vers[t]):
            if x[0] == fp:
                return i
        return -1

    def cache_version(self, t):
        fr = self.S.frames[t]
        for i in range(len(self.vers[t]) - 1, -1, -1):
            pos = self.vers[t][i][2]
            ok = True
            for be in fr.big_edges.values():
                for v, x, y in zip(be.vertices, be.xs, be.ys):
                    if pos.get(int(v.id)) != (float(x), float(y)):
                        ok = False
                        break
                if not ok:
                    break
            if ok:
                return i
        return -1

    def _ref_session(self, t, v, pv):
        descs = [None] * NFR
        descs[t] = self.vers[t][v][1]
        u = 1 - t
        descs[u] = self.vers[u][pv if pv >= 0 else len(self.vers[u]) - 1][1]
        return session_from(descs)

    def _ref(self, t, v, pv, bo, so):
        """what a FRESH session on a deep-rebuilt copy of mesh version v of frame t (partner version pv) shows"""
        R = self._ref_session(t, v, pv)
        fr = R.frames[t]
        rec = {"t": t, "v": v, "pv": pv, "opt": bo, "sopt": so, "raised": "", "x": [], "ew": [], "bt": [], "cp": [], "prhs": [],
               "sig": [], "ifl": [[int(x) for x in be] for be in fr.big_edges_list], "cids": [int(c) for c in fr.cells.keys()]}
        try:
            R.build_force_matrix(when=t, **BUILD_KW[bo])
            self.mats[(t, v, bo)] = np.array(R.force_matrices[t].matrix, dtype=float)
            R.solve_stress(when=t, **SOLVE_KW[so])
            rec["x"] = qv(R.forces[t].values())
            written = set()
            for be in fr.internal_big_edges:
                written.update(be.edges)
            ew = [[0, 0]] * len(self.eidx[t])
            ew = [list(z) for z in ew]
            for e in written:
                ew[self.eidx[t][int(e)] - 1] = [1, q(fr.edges[e].tension)[1]] if q(fr.edges[e].tension)[0] == 1 else [2, 0]
            rec["ew"] = ew
            rec["bt"] = qv(be.tension for be in fr.big_edges.values())
            try:
                R.build_pressure_matrix(when=t)
                rec["prhs"] = qv(R.pressure_matrices[t].rhs_matrix.tolist())
                R.solve_pressure(when=t, method="lagrange_pressure")
                rec["cp"] = qv(c.pressure for c in fr.cells.values())
                fr.calculate_stress_tensor(coarsing=3, radius=2)
                rec["sig"] = self._sig(fr)
            except Exception as exc:
                rec["praised"] = type(exc).__name__
        except Exception as exc:
            rec["raised"] = type(exc).__name__
        rec.setdefault("praised", "")
        return rec

    @staticmethod
    def _sig(fr):
        out = []
        st = fr.stress_tensor[0]
        for key in sorted(st.keys()):
            m = st[key]
            out += [q(m[0][0]), q(m[0][1]), q(m[1][1])]
        return out

    def _new_refs(self):
        """references for every provenance key that can be named with the versions seen so far (options: those that occur in
        the call sequence)"""
        new = []
        bos = sorted(self.opts_used["b"])
        sos = sorted(self.opts_used["s"])
        for t in range(NFR):
            u = 1 - t
            for v in range(len(self.vers[t])):
                for bo in bos:
                    for so in sos:
                        pvs = range(len(self.vers[u])) if so == "vel" else [-1]
                        for pv in pvs:
                            key = (t, v, pv, bo, so)
                            if key in self.refs_done:
                                continue
                            self.refs_done.add(key)
                            new.append(self._ref(t, v, pv, bo, so))
                    if (t, v, bo) not in self.mats:        # the matrix alone (build without a solve in the sequence)
                        try:
                            R = self._ref_session(t, v, -1)
                            R.build_force_matrix(when=t, **BUILD_KW[bo])
                            self.mats[(t, v, bo)] = np.array(R.force_matrices[t].matrix, dtype=float)
                        except Exception:
                            self.mats[(t, v, bo)] = None
        return new

    # ---- observation -----------------------------------------------------------------------------
    def dangling(self):
        n = 0
        mp = self.S.mesh.mapping
        for t in range(NFR - 1):
            m = mp.get(t)
            if not m:
                continue
            a, b = self.S.frames[t].vertices, self.S.frames[t + 1].vertices
            n += sum(1 for k, v in m.items() if k not in a or (v is not None and v not in b))
        return n

    @staticmethod
    def _opt(fm):
        al = fm.angle_limit
        if al == np.inf:
            return "inf"
        if abs(al - np.pi) < 1e-12:
            return "pi"
        if abs(al - LIM_ANGLE) < 1e-12:
            return "lim"
        return "other"

    def obs(self, t):
        S = self.S
        fr = S.frames[t]
        self.keep.append(fr)
        o = {"fgen": int(getattr(fr, "_wf_gen", -1)), "tsgen": int(getattr(S.mesh.time_series[t], "_wf_gen", -1)),
             "ver": self.ver_index(t), "cachever": self.cache_version(t), "regclean": bool(reg_clean(fr)),
             "ncell": len(fr.cells), "cids": [int(c) for c in fr.cells.keys()]}
        fm = S.force_matrices.get(t)
        if fm is None:
            o["fm"] = {"has": False, "fgen": -1, "opt": "", "new": False, "meq": []}
        else:
            self.keep.append(fm)
            bo = self._opt(fm)
            meq = []
            M = np.array(fm.matrix, dtype=float)
            for v in range(len(self.vers[t])):
                Rm = self.mats.get((t, v, bo))
                if Rm is not None and Rm.shape == M.shape and (M.size == 0 or np.allclose(M, Rm, rtol=0, atol=1e-9)):
                    meq.append(v)
            o["fm"] = {"has": True, "fgen": int(getattr(fm.frame, "_wf_gen", -1)), "opt": bo, "new": fm is not self.prev_fm[t],
                       "meq": meq}
        self.prev_fm[t] = fm
        pm = S.pressure_matrices.get(t)
        if pm is None:
            o["pm"] = {"has": False, "fgen": -1, "new": False, "rhs": []}
        else:
            self.keep.append(pm)
            o["pm"] = {"has": True, "fgen": int(getattr(pm.frame, "_wf_gen", -1)), "new": pm is not self.prev_pm[t],
                       "rhs": qv(pm.rhs_matrix.tolist())}
        self.prev_pm[t] = pm
        f = S.forces.get(t) if isinstance(S.forces, dict) else None
        o["forces"] = {"has": f is not None, "x": qv(f.values()) if f is not None else []}
        fa = getattr(fr, "forces", None)
        o["fattr"] = "none" if not hasattr(fr, "forces") else ("store" if fa is f and f is not None else "other")
        et = [[0, 0] for _ in range(len(self.eidx[t]))]
        for k, e in fr.edges.items():
            et[self.eidx[t][int(k)] - 1] = q(e.tension)
        o["et"] = et
        bes = list(fr.big_edges.values())
        o["bt"] = qv(b.tension for b in bes)
        o["ext"] = [bool(b.external) for b in bes]
        o["bedges"] = [[self.eidx[t].get(int(e), 0) for e in b.edges] for b in bes]
        o["ifl"] = [[int(x) for x in be] for be in fr.big_edges_list]
        o["cp"] = qv(c.pressure for c in fr.cells.values())
        p = S.pressures.get(t) if isinstance(S.pressures, dict) else None
        o["pstore"] = {"has": p is not None, "x": qv(p) if p is not None else []}
        o["tensor"] = {"has": hasattr(fr, "principal_stress"), "sig": self._sig(fr) if hasattr(fr, "stress_tensor") else []}
        return o

    def _stub_obs(self, t):
        fr = self.S.frames[t]
        try:
            rc = bool(reg_clean(fr))
        except Exception:
            rc = False
        return {"fgen": int(getattr(fr, "_wf_gen", -1)), "tsgen": int(getattr(self.S.mesh.time_series[t], "_wf_gen", -1)), "ver": -1,
                "cachever": -1, "regclean": rc, "ncell": len(fr.cells), "cids": [int(c) for c in fr.cells.keys()],
                "fm": {"has": False, "fgen": -1, "opt": "", "new": False, "meq": []}, "pm": {"has": False, "fgen": -1, "new": False, "rhs": []},
                "forces": {"has": False, "x": []}, "fattr": "none", "et": [], "bt": [], "ext": [], "bedges": [], "ifl": [], "cp": [],
                "pstore": {"has": False, "x": []}, "tensor": {"has": False, "sig": []}}

    # ---- calls -------------------------------------------------------------------------------------
    def _pick_cell(self, t, kind):
        fr = self.S.frames[t]
        cands = [cid for cid in fr.cells.keys() if (private_count(fr, cid) > 0) == (kind == "border")]
        if not cands:
            cands = list(fr.cells.keys())
        return cands[self.rng.randrange(len(cands))] if cands else None

    def call(self, c):
        """c = {"op", "t", "a", "n"}; returns False when the call cannot be issued in this session (dropped)"""
        if self.poisoned:
            return False
        S = self.S
        op, t = c["op"], int(c.get("t", 0))
        fr = S.frames[t]
        pre = {"priv": 0, "nflag": 0, "cell": -1, "ncell": len(fr.cells), "in0": True}
        res = {"kind": "", "rows": [], "x": []}
        thunk = None
        if op == "BuildForce":
            thunk = lambda: S.build_force_matrix(when=t, **BUILD_KW[c["a"]])
        elif op == "SolveStress":
            thunk = lambda: S.solve_stress(when=t, **SOLVE_KW[c["a"]])
        elif op == "BuildPressure":
            thunk = lambda: S.build_pressure_matrix(when=t)
        elif op == "SolvePressure":
            thunk = lambda: S.solve_pressure(when=t, method="lagrange_pressure")
        elif op == "SystemVelocity":
            def thunk():
                r = S.get_system_velocity_per_frame()
                res["kind"], res["x"] = "sysvel", qv(r)
            # projection: what a fresh session on a deep-rebuilt copy of the current meshes answers
            res["ref"], res["refraised"] = [], ""
            try:
                R = session_from([self.vers[u][self.ver_index(u)][1] for u in range(NFR)])
                res["ref"] = qv(R.get_system_velocity_per_frame())
                del R
            except Exception as exc:
                res["refraised"] = type(exc).__name__
            finally:
                np.seterr(all="raise")
        elif op == "RemoveCell":
            if len(fr.cells) <= 3 or fr._wf_gen >= MAXGEN:
                return False
            cid = self._pick_cell(t, c["a"])
            pre["priv"], pre["cell"], pre["in0"] = private_count(fr, cid), int(cid), cid in S.frames[0].cells
            thunk = lambda: S.remove_cell(t, cid)
        elif op == "RemoveOutermost":
            n = int(c.get("n", 0))
            for u in range(NFR):                    # the parser's duty: is_border flags (set here on every frame alike)
                oc = set(outer_cells(S.frames[u])) if n > 0 else set()
                for cid, cell in S.frames[u].cells.items():
                    cell.is_border = cid in oc
            flagged = [cid for cid, cell in S.frames[0].cells.items() if cell.is_border]
            if n > 0 and (len(fr.cells) - len(flagged) < 3 or fr._wf_gen + len(flagged) > MAXGEN):
                return False
            pre["nflag"] = len(flagged)
            if flagged and flagged[0] in fr.cells:
                pre["priv"] = private_count(fr, flagged[0])
            thunk = lambda: S.remove_outermost_edges(t, 1)
        elif op == "FilterEdges":
            thunk = lambda: fr.filter_edges()
        elif op == "LogForce":
            def thunk():
                df = S.log_force(t)
                res["kind"], res["x"] = "logforce", qv(df[0].tolist()) if 0 in df.columns else []
        elif op == "GetTensions":
            def thunk():
                df = fr.get_tensions(with_border=bool(c.get("wb", False)))
                res["kind"] = "tensions"
                res["rows"] = [[int(i) + 1, q(s)] for i, s in zip(df["id"].tolist(), df["stress"].tolist())]
                res["wb"] = bool(c.get("wb", False))
        elif op == "GetPressures":
            def thunk():
                df = fr.get_pressures()
                res["kind"] = "pressures"
                res["rows"] = [[int(i), q(None if (p is None or (isinstance(p, float) and math.isnan(p))) else p)]
                               for i, p in zip(df["id"].tolist(), df["pressure"].tolist())]
        elif op == "StressTensor":
            thunk = lambda: fr.calculate_stress_tensor(coarsing=3, radius=2)
        else:
            raise ValueError(op)
        raised = ""
        _REC["cur"] = self
        try:
            thunk()
        except Exception as exc:
            raised = type(exc).__name__
        finally:
            _REC["cur"] = None
            np.seterr(all="raise")
        del fr
        ev = {"case": self.case, "ev": "Call", "op": op, "t": t, "a": c.get("a", ""), "raised": raised, "pre": pre, "res": res}
        if op in ("RemoveCell", "RemoveOutermost") and t != 0 and (pre["nflag"] > 0 if op == "RemoveOutermost" else
                                                                   not (raised and pre["priv"] == 0 and not pre["in0"])):
            # `self.frames[0]` where frame_number is meant (KF_FrameZeroWF): the meshes no longer are cell complexes; the
            # specification stops judging this session here, the driver stops driving it
            self.poisoned = True
            ev["refs"] = []
            ev["obs"] = [self._stub_obs(u) for u in range(NFR)]
            ev["dangling"] = 0
        else:
            self._versions()
            ev["refs"] = self._new_refs()
            ev["obs"] = [self.obs(u) for u in range(NFR)]
            ev["dangling"] = self.dangling()
        self.events.append(ev)
        return True


def opts_in(calls):
    b = {c["a"] for c in calls if c["op"] == "BuildForce"}
    if any(c["op"] == "SystemVelocity" for c in calls):
        b.add("inf")
    s = {c["a"] for c in calls if c["op"] == "SolveStress"}
    return {"b": b or {"pi"}, "s": s or {"static"}}


def _job(args):
    case, payload = args
    try:
        d = Driver(case, payload["spec"], opts_in(payload["calls"]))
        done = []
        for c in payload["calls"]:
            if d.call(c):
                done.append(c)
        return case, d.events, "", len(done)
    except Exception as exc:       # a failure outside the guarded calls = harness problem, not a verdict
        import traceback
        return case, None, f"{payload.get('spec')}: {exc!r} {traceback.format_exc()[-1200:]}", 0


# ------------------------------------------------------------------------------------------------
# call sequences: from TLC (-simulate) and seeded random ones
# ------------------------------------------------------------------------------------------------
REC = re.compile(r'last = \[\s*op \|-> "(\w+)",\s*t \|-> (\d+),\s*a \|-> "(\w*)",\s*n \|-> (\d+),\s*nd \|-> (\w+),\s*raised \|-> (\w+)')


def walks_from_tlc(ctx, n, depth):
    wdir = os.path.join(ctx.rundir, "walks")
    os.makedirs(wdir, exist_ok=True)
    res = core.run_tlc("MC_Workflow", "MC_Workflow_sim.cfg", workers=1, simulate=f"file={wdir}/w,num={n}", depth=depth,
                       seed=ctx.seed + 1, timeout=900, heap="1g")
    walks = []
    for f in sorted(glob.glob(os.path.join(wdir, "w*")), key=lambda p: int(re.sub(r"\D", "", os.path.basename(p)) or 0)):
        calls = [{"op": m.group(1), "t": int(m.group(2)), "a": m.group(3), "n": int(m.group(4))}
                 for m in REC.finditer(open(f).read()) if m.group(1) != "none"]
        if calls:
            walks.append(calls)
    shutil.rmtree(wdir, ignore_errors=True)
    return walks, res


WEIGHTS = [("BuildForce", 5), ("SolveStress", 6), ("BuildPressure", 3), ("SolvePressure", 3), ("SystemVelocity", 1),
           ("RemoveCell", 3), ("RemoveOutermost", 1), ("FilterEdges", 2), ("LogForce", 1), ("GetTensions", 2),
           ("GetPressures", 1), ("StressTensor", 1)]


def random_calls(rng, n):
    ops = [o for o, w in WEIGHTS for _ in range(w)]
    calls = []
    for _ in range(n):
        op = rng.choice(ops)
        t = rng.choice([0, 0, 0, 1, 1]) if op in ("RemoveCell", "RemoveOutermost") else rng.randrange(NFR)
        if op in ("RemoveCell", "RemoveOutermost") and t != 0 and rng.random() < 0.7:
            t = 0                                   # frame_number # 0 poisons the session (KF_FrameZeroWF): keep it rare
        c = {"op": op, "t": t, "a": "", "n": 0}
        if op == "BuildForce":
            c["a"] = rng.choice(["pi", "pi", "lim"])
        elif op == "SolveStress":
            c["a"] = rng.choice(["static", "static", "vel"])
        elif op == "RemoveCell":
            c["a"] = rng.choice(["border", "border", "interior"])
        elif op == "RemoveOutermost":
            c["n"] = rng.choice([0, 2, 2])
        elif op == "GetTensions":
            c["wb"] = rng.random() < 0.5
        calls.append(c)
    return calls


def scenario_calls(rng):
    """code -> spec, directed: analyse, edit, re-issue the four calls (the sequence the property `Recomputed` is about)"""
    t = rng.choice([0, 0, 1])
    bo, so = rng.choice(["pi", "pi", "lim"]), rng.choice(["static", "static", "vel"])
    four = [{"op": "BuildForce", "t": t, "a": bo}, {"op": "SolveStress", "t": t, "a": so}, {"op": "BuildPressure", "t": t},
            {"op": "SolvePressure", "t": t}]
    edit = rng.choice([{"op": "FilterEdges", "t": t}, {"op": "FilterEdges", "t": t}, {"op": "RemoveCell", "t": 0, "a": "interior"},
                       {"op": "RemoveCell", "t": 0, "a": "border"}, {"op": "RemoveOutermost", "t": 0, "n": 2},
                       {"op": "FilterEdges", "t": 1 - t}])
    calls = (four if rng.random() < 0.7 else []) + [edit]
    if rng.random() < 0.3:
        calls.append(rng.choice([{"op": "SolveStress", "t": t, "a": so}, {"op": "SolvePressure", "t": t}, {"op": "LogForce", "t": t}]))
    calls += four + [{"op": "GetTensions", "t": t, "wb": True}, {"op": "StressTensor", "t": t}, {"op": "GetPressures", "t": t}]
    if rng.random() < 0.4:
        calls += [{"op": "FilterEdges", "t": t}] + four
    for c in calls:
        c.setdefault("a", "")
        c.setdefault("n", 0)
    return [dict(c) for c in calls]


def spec_for(rng, allow_big=True):
    name = rng.choice(["hexflower", "hexflower", "irregular"]) if allow_big else "hexflower"
    return {"tissue": name, "k": 3, "gseed": rng.randrange(1, 10 ** 6), "off": rng.choice([0, 0, 3]), "theta": rng.choice([0.3, 1.1, 2.0])}


def load_kf(ctx):
    if os.path.exists(EXTRA_KF):
        for ent in json.load(open(EXTRA_KF)).get("findings", []):
            if ent.get("status", "open") == "open" and ent["property"] == PID:
                ctx.kf.setdefault(ent["matcher"], ent)


GUARDS = ["Staleness", "Recomputed", "Rebuild", "Mapping", "Isolated", "Refusal", "KFFilterCache"]
GUARDS_THOROUGH = ["KFBorderRows"]          # 1.5e6 states before the shortest counterexample (depth 7)


def run(ctx):
    import concurrent.futures as cf
    load_kf(ctx)
    cfg = ctx.pick("MC_Workflow.cfg", "MC_Workflow_thorough.cfg")
    guards = GUARDS + ([] if ctx.quick else GUARDS_THOROUGH)
    ex = cf.ThreadPoolExecutor(max_workers=4)
    # the model-checking jobs run while the sequences are replayed on the real code
    mcf = ex.submit(ctx.mc, "MC_Workflow", cfg, workers=ctx.pick(4, 16), timeout=3000, heap=ctx.pick("3g", "12g"))
    gf = {g: ex.submit(core.run_tlc, "MC_Workflow", f"MC_Workflow_guard_{g}.cfg", workers=1, timeout=1800, heap="2g") for g in guards}
    try:
        walks, res = walks_from_tlc(ctx, ctx.pick(60, 600), ctx.pick(9, 12))
        if not walks:
            raise core.MachineryFailure("no walks parsed from TLC simulation:\n" + res.error_text())
        payloads, jobs = {}, []
        case = 0
        rng = random.Random(ctx.seed * 7919 + 5)
        for w in walks:
            case += 1
            payloads[case] = {"kind": "mc", "spec": spec_for(rng, allow_big=rng.random() < 0.25), "calls": w}
            jobs.append((case, payloads[case]))
        nrand = ctx.pick(40, 600)
        for i in range(nrand):
            case += 1
            r2 = random.Random(ctx.seed * 104729 + i)
            if i % 3 == 2:
                payloads[case] = {"kind": "scenario", "spec": spec_for(r2), "calls": scenario_calls(r2)}
            else:
                payloads[case] = {"kind": "random", "spec": spec_for(r2), "calls": random_calls(r2, r2.randrange(8, 17))}
            jobs.append((case, payloads[case]))
        results = core.parallel_map(_job, jobs, chunksize=2)
        bad = [r for r in results if r[1] is None]
        if bad:
            raise core.MachineryFailure(f"driver failed on {len(bad)} case(s); first: {bad[0][2]}")
        for c, evs, _, ndone in results:
            ctx.add_case(payloads[c], nontrivial=any(e.get("op") in ("RemoveCell", "RemoveOutermost", "FilterEdges") for e in evs))
        verdicts = ctx.validate(TRACE, [(c, evs) for c, evs, _, _ in results], cfg=CFG, timeout=3000, heap="2g")
        mcf.result()
        refuted = {}
        for g, fut in gf.items():
            r = fut.result()
            calls = [m.group(1) + "(" + m.group(2) + ("," + m.group(3) if m.group(3) else "") + ")" + ("!" if m.group(6) == "TRUE" else "")
                     for m in REC.finditer(r.out) if m.group(1) != "none"]
            refuted[g] = {"refuted": bool(r.invariant_violated) or "is violated" in r.out, "counterexample": calls}
            if not refuted[g]["refuted"]:
                raise core.MachineryFailure(f"vacuity guard Guard{g}: the bare property holds in the model - the known-finding matchers "
                                            f"would match nothing\n{r.error_text()}")
    finally:
        ex.shutdown(wait=True)
    ctx.extra["design_level_findings"] = refuted
    ctx.judge(verdicts, payloads)
    ctx.extra["sequences"] = {"tlc_simulated": len(walks), "random_and_scenario": nrand}
    ctx.exhaustive = True
    ctx.rule = ("TLC explores every call sequence of a two-frame session with up to MaxDepth state-changing calls (12 public calls x "
                "frames x options x data-dependent outcomes; queries and clean refusals interleaved freely), checks the declarative "
                "properties relative to the known-finding matchers, refutes each bare property (guard configurations: the counterexamples "
                "are recorded under design_level_findings) and writes simulated call sequences; those, seeded random sequences of 8-16 calls "
                "and directed analyse / edit / re-analyse scenarios are replayed on real ForSys sessions (hexflower / irregular catalogue "
                "tissues, 3 interior points per edge, second frame a displaced copy); every call is one event judged by Trace_Workflow. "
                "Non-trivial = the sequence contains an accepted or refused edit (remove_cell, remove_outermost_edges, filter_edges).")
    ctx.assumptions += ["TLC/SANY and the CommunityModules Json reader are trusted",
                        "extension check: `workflow` is not one of the listed properties; the clauses are those of spec/Workflow.tla",
                        "generation of a Frame object = number of successful Frame constructions for that frame_id in the session "
                        "(external wrapper around Frame.__post_init__)",
                        "mesh version = interned fingerprint of the cell ids present and all vertex positions of the frame",
                        "references are computed by forsys itself on a fresh session built from a deep-rebuilt copy of the mesh "
                        "versions named by the provenance record; values compared in fixed point (Q = 1e6, 3 ulp)",
                        "after a remove_cell / remove_outermost_edges with frame_number # 0 that changed something (KF_FrameZeroWF) the "
                        "session is poisoned: the driver stops the sequence there",
                        "is_border flags are set by the driver (outer-cell rule) before remove_outermost_edges"]


def replay(ctx, payload):
    load_kf(ctx)
    inp = payload["input"]
    c, evs, err, _ = _job((1, inp))
    if evs is None:
        raise core.MachineryFailure(err)
    ctx.add_case(inp)
    ctx.judge(ctx.validate(TRACE, [(c, evs)], cfg=CFG, heap="2g"), {c: inp})


# ------------------------------------------------------------------------------------------------
# the binding is real: a recorded trace is accepted, the same trace with one corrupted field is rejected
# ------------------------------------------------------------------------------------------------
SELF_CALLS = [{"op": "BuildForce", "t": 0, "a": "pi"}, {"op": "SolveStress", "t": 0, "a": "static"}, {"op": "BuildPressure", "t": 0},
              {"op": "SolvePressure", "t": 0}, {"op": "GetTensions", "t": 0, "wb": True}, {"op": "LogForce", "t": 0},
              {"op": "BuildForce", "t": 1, "a": "lim"}, {"op": "SolveStress", "t": 1, "a": "vel"}, {"op": "StressTensor", "t": 0},
              {"op": "RemoveCell", "t": 0, "a": "border"}, {"op": "SolveStress", "t": 0, "a": "static"}, {"op": "SolvePressure", "t": 0},
              {"op": "GetPressures", "t": 0}]


def selfcheck():
    """python -m harness.props.workflow selfcheck   (cwd /verif)"""
    core.import_forsys()
    spec = {"tissue": "hexflower", "k": 3, "gseed": 11, "off": 0, "theta": 0.3}
    with core.quiet_stdout():
        _, evs, err, _ = _job((1, {"kind": "selfcheck", "spec": spec, "calls": SELF_CALLS}))
    if evs is None:
        print("selfcheck: driver failed", err)
        return 2

    def run_trace(events, tag):
        d = tempfile.mkdtemp(prefix="wf_self_")
        path = os.path.join(d, "t.ndjson")
        with open(path, "w") as f:
            for e in events:
                f.write(json.dumps(e, separators=(",", ":")) + "\n")
        r = core.run_tlc(TRACE, CFG, workers=1, env={"TRACE_FILE": path}, heap="1g", timeout=600)
        shutil.rmtree(d, ignore_errors=True)
        if not r.completed or len(r.vj) != len(events):
            print(f"selfcheck[{tag}]: TLC did not complete: {r.error_text()}")
            return None
        return sorted({c for vj in r.vj for c in vj["fails"]})

    def mutate(fn):
        e2 = json.loads(json.dumps(evs))
        fn(e2)
        return e2

    def nth(e, op, k=0):
        return [x for x in e if x["ev"] == "Call" and x["op"] == op][k]

    def m_gen(e):        # remove_cell did not install a new Frame object
        nth(e, "RemoveCell")["obs"][0]["fgen"] = 0
    def m_fmframe(e):    # the force matrix references the new Frame after the removal
        nth(e, "RemoveCell")["obs"][0]["fm"]["fgen"] = 1
    def m_forces(e):     # one stored tension of the first solve
        nth(e, "SolveStress")["obs"][0]["forces"]["x"][2][1] += 700
    def m_edge(e):       # one mesh-edge tension after the stale solve
        ev = nth(e, "SolveStress", 2)
        k = next(i for i, z in enumerate(ev["obs"][0]["et"]) if z[0] == 1 and z[1] != 0)
        ev["obs"][0]["et"][k][1] += 900
    def m_table(e):      # the new Frame's table is not zero after the removal
        nth(e, "RemoveCell")["obs"][0]["bt"][0][1] = 123456
    def m_other(e):      # a call on frame 0 changes the store of frame 1
        nth(e, "RemoveCell")["obs"][1]["forces"]["x"][0][1] += 5000
    def m_raise(e):      # a refused call reported as accepted
        nth(e, "LogForce")["raised"] = "AttributeError"
    def m_cp(e):         # pressures after the stale solve_pressure
        nth(e, "SolvePressure", 1)["obs"][0]["cp"][0][1] += 4000
    def m_query(e):      # the returned table differs from the interfaces' values
        nth(e, "GetTensions")["res"]["rows"][1][1][1] += 999

    rc = 0
    base = run_trace(evs, "recorded")
    print(f"selfcheck: recorded trace ({len(evs)} events): failing clauses {base}")
    if base != []:
        rc = 1
    for name, fn, want in (("frame generation after remove_cell", m_gen, "WF.frame_gen"),
                           ("frame referenced by the old matrix", m_fmframe, "WF.fm"),
                           ("stored tension", m_forces, "WF.forces_store"),
                           ("mesh-edge tension (stale solve)", m_edge, "WF.edge_layer"),
                           ("table of the new Frame", m_table, "WF.table"),
                           ("store of the other frame", m_other, "WF.forces_store"),
                           ("refusal flag", m_raise, "WF.raised:LogForce"),
                           ("cell pressure (stale solve)", m_cp, "WF.cell_pressures"),
                           ("query result", m_query, "WF.result")):
        got = run_trace(mutate(fn), name)
        okk = got is not None and want in got
        print(f"selfcheck: corrupted {name:38s} -> {got}  expected {want}: {'rejected as expected' if okk else 'NOT DETECTED'}")
        if not okk:
            rc = 1
    return rc


if __name__ == "__main__":
    sys.path.insert(0, core.VERIF)
    sys.exit(selfcheck() if sys.argv[1:] == ["selfcheck"] else 2)

"""C08 — interfaces partition the mesh edges; internal/external classification is exact.

TLC (MC_Interfaces) enumerates every sub-tissue of the catalogue tissues x interior-point counts,
checks that the implementation-shaped decomposition satisfies the declarative verdict, and emits
every instance; each instance is built as real objects, Frame() is constructed, the projected
frame is validated by TLC (Trace_Mesh) against the same declarative verdict. Random large Voronoi
tissues (random cell subsets), the shipped fixtures and resampled meshes go through the same
trace spec."""
import os
import random

from harness import core, project, build, tissue
from harness.gen import catalogue, voronoi

LEVEL = "model_checking"
PID = "C08"


def frame_events(case, desc, src, resample=None):
    """build -> (optional generate_mesh) -> Frame; returns trace events"""
    import forsys as fs
    evs = []
    raised = ""
    try:
        vertices, edges, cells = build.build_mesh(desc)
        if resample:
            vertices, edges, cells, _ = fs.virtual_edges.generate_mesh(vertices, edges, cells, ne=resample)
        m, vi, ei, ci = project.project_mesh(vertices, edges, cells)
    except Exception as exc:  # builder failure = machinery, not a verdict
        raise core.MachineryFailure(f"building {src}: {exc!r}")
    evs.append({"case": case, "ev": "Mesh", "mesh": m, "raised": "", "src": src})
    try:
        fr = fs.frames.Frame(0, vertices, edges, cells, time=0)
        f = project.project_frame(fr, vi, ei, ci)
        del fr
    except Exception as exc:
        import traceback
        f, raised = {}, type(exc).__name__ + ": " + traceback.format_exc()[-400:]
    evs.append({"case": case, "ev": "Frame", "f": f, "raised": raised})
    return evs


def _catalogue_job(args):
    case, base_name, inst, seed = args
    base = catalogue.load(base_name)
    rng = random.Random(seed * 1000003 + case)
    pos = {i + 1: tuple(p) for i, p in enumerate(base["pos"])}
    sim = tissue.Similarity.random(rng)
    desc, _ = instance_desc_cached(pos, inst["cells"], inst["k"], sim, rng)
    return case, frame_events(case, desc, f"{base_name}:{inst['sub']}:k{inst['k']}")


def instance_desc_cached(pos, cells, k, sim, rng):
    return tissue.instance_desc(pos, cells, k, sim, id_offset=rng.choice([0, 0, 5, 100]),
                                id_stride=rng.choice([1, 1, 3]))


def _random_job(args):
    case, seed = args
    rng = random.Random(seed)
    ncells = rng.choice([12, 25, 40, 70])
    pos, cells, _, _ = voronoi.random_tissue(rng, ncells)
    # random cell subset: ragged borders, holes, bridges
    keep = [c for c in cells if rng.random() < rng.choice([1.0, 0.85, 0.6])] or cells[:1]
    k = rng.choice([0, 1, 2, 3, 5, 8, 16])
    sim = tissue.Similarity.random(rng)
    desc, _ = tissue.instance_desc(pos, keep, k, sim, id_offset=rng.choice([0, 7]), id_stride=rng.choice([1, 2]),
                                   shuffle_rng=rng if rng.random() < 0.5 else None)
    resample = rng.choice([None, None, 2, 4, 6]) if k >= 2 else None
    return case, frame_events(case, desc, f"voronoi:seed{seed}:n{len(keep)}:k{k}:ne{resample}", resample=resample)


def _fixture_job(args):
    case, path = args
    import forsys as fs
    cwd = os.getcwd()
    se = fs.surface_evolver.SurfaceEvolver(os.path.join(core.REPO, path))
    m, vi, ei, ci = project.project_mesh(se.vertices, se.edges, se.cells)
    evs = [{"case": case, "ev": "Mesh", "mesh": m, "raised": "", "src": path}]
    fr = fs.frames.Frame(0, se.vertices, se.edges, se.cells, time=0, gt=True)
    evs.append({"case": case, "ev": "Frame", "f": project.project_frame(fr, vi, ei, ci), "raised": ""})
    return case, evs


def run(ctx):
    bases = ctx.pick(["hexflower", "brick33", "squares33", "lens5"], ["hexflower", "brick33", "squares33", "lens5", "fan5", "hex33", "irregular", "hex43"])
    ks_cfg = ctx.pick("MC_Interfaces.cfg", "MC_Interfaces_thorough.cfg")
    big_cfg = "MC_Interfaces_k02.cfg"      # the 2^15 / 2^12 subset spaces of the two large bases: two sampling densities
    jobs, payloads = [], {}
    case = 0
    for b in bases:
        res = ctx.mc("MC_Interfaces", big_cfg if b in ("irregular", "hex43") else ks_cfg, env={"BASE_FILE": os.path.join(core.VERIF, "models", "catalogue", b + ".json")},
                     timeout=3000)
        for inst in res.printed:
            case += 1
            jobs.append((case, b, inst, ctx.seed))
            payloads[case] = {"kind": "catalogue", "base": b, "sub": inst["sub"], "k": inst["k"], "cells": inst["cells"]}
            ctx.add_case(payloads[case], nontrivial=inst["ninternal"] > 0)
    n_cat = len(jobs)
    results = core.parallel_map(_catalogue_job, jobs, chunksize=16)
    # random large tissues
    nrand = ctx.pick(60, 1500)
    rjobs = []
    for i in range(nrand):
        case += 1
        s = ctx.seed * 7919 + i
        rjobs.append((case, s))
        payloads[case] = {"kind": "voronoi", "seed": s}
        ctx.add_case(payloads[case])
    results += core.parallel_map(_random_job, rjobs, chunksize=4)
    # shipped fixtures
    fixtures = ["tests/data/initial_furrow.dmp", "tests/data/last_furrow.dmp"] + \
        ([f"tests/data/furrow_gauss_velocity/stage{i}.dmp" for i in range(8)] if not ctx.quick else [])
    fjobs = []
    for p in fixtures:
        case += 1
        fjobs.append((case, p))
        payloads[case] = {"kind": "fixture", "path": p}
        ctx.add_case(payloads[case])
    results += core.parallel_map(_fixture_job, fjobs)
    if not ctx.quick:
        # thorough tier: every distinct mesh / frame the repository's own tests construct (traced from outside)
        from harness.props import suite
        scases, tail, errors = suite.collect(ctx)
        if "passed" not in tail or "failed" in tail or errors:
            raise core.MachineryFailure(f"traced test-suite: {tail} {errors[:2]}")
        for c, evs in scases.items():
            case += 1
            for e in evs:
                e["case"] = case
            results.append((case, evs))
            payloads[case] = {"kind": "suite", "src": evs[0].get("src"), "nv": evs[0]["mesh"]["nv"]}
            ctx.add_case(payloads[case])
        ctx.extra["traced_suite"] = {"result": tail, "distinct_meshes": len(scases)}
    verdicts = ctx.validate("Trace_Mesh", results)
    # this check owns C08 clauses only; C09 clauses on the same traces are C09's business but a mesh
    # that is inconsistent invalidates the C08 oracle, so they are relayed as notes
    for cid, vjs in verdicts.items():
        for vj in vjs:
            c09 = [c for c in vj["fails"] if c.startswith("C09")]
            if c09:
                ctx.note(f"case {cid}: mesh inconsistent ({c09}); C08 verdict on it not meaningful")
            vj["fails"] = [c for c in vj["fails"] if not c.startswith("C09")]
            for d in vj.get("drift", []):
                ctx.note(f"model_drift {d} (first seen in case {cid})")
    ctx.judge(verdicts, payloads)
    ctx.rule = ("TLC enumerates every non-empty cell subset of each catalogue tissue x interior points per edge; "
                "each instance is built with real objects under a random similarity/id numbering and Frame() is "
                "projected and judged by TLC; plus random Voronoi tissues with random cell subsets (optionally "
                "resampled) and shipped Surface Evolver fixtures. Non-trivial = has at least one internal interface "
                "(catalogue) / any (random, fixtures).")
    ctx.exhaustive = True
    ctx.extra["exhaustive_scope"] = {"bases": bases, "cfg": ks_cfg, "catalogue_instances": n_cat}
    ctx.assumptions += ["TLC/SANY and the CommunityModules Json reader are trusted",
                        "projection (harness/project.py) copies the implementation's state faithfully",
                        "meshes given to Frame() are consistent (checked on the same trace by C09 clauses)"]


def replay(ctx, payload):
    inp = payload["input"]
    if inp["kind"] == "suite":
        raise core.MachineryFailure("meshes traced from the test-suite are replayed by re-running `./check C08 --tier thorough`")
    if inp["kind"] == "catalogue":
        c, evs = _catalogue_job((1, inp["base"], inp, payload["seed"]))
    elif inp["kind"] == "voronoi":
        c, evs = _random_job((1, inp["seed"]))
    else:
        c, evs = _fixture_job((1, inp["path"]))
    ctx.add_case(inp)
    ctx.add_case({"replay": True})
    v = ctx.validate("Trace_Mesh", [(c, evs)])
    ctx.judge(v, {c: inp})

"""C05 — reported tensions are the non-negative least-squares optimum with mean one.

Spec: Certificates.tla (IsNNLSOptimum: KKT conditions of the augmented system built by the SPEC from the
public matrix, closed-form multiplier), judged by Trace_Inference.tla on every SolveStress event.
Meta-check: MC_KKT.tla brute-forces the certificate on tiny exact systems (sound and not over-strict)."""
import math
import random

from harness import core, infer

LEVEL = "exploration"


def specs_for(ctx):
    rng = random.Random(ctx.seed + 5)
    specs = []
    n = ctx.pick(90, 1500)
    for i in range(n):
        kind = rng.random()
        if kind < 0.2:
            # square systems (2 * junctions = interfaces): the inversion path
            tissue = {"kind": "catalogue", "base": "hexflower", "sagitta": rng.choice([None, 0.1, 0.2]),
                      "tseed": rng.randrange(10 ** 6)}
            k = rng.choice([1, 3, 6])
        else:
            tissue = {"kind": "equilibrium", "ncells": rng.choice([5, 8, 14, 25, 40]),
                      "mobius": rng.choice([0.0, 0.6, 1.2]), "noise": rng.choice([0, 0, 0.05, 0.3, 1.0])}
            k = rng.choice([1, 2, 3, 5, 9])
        method = rng.choice(["default", "default", "default", "lsq", "lsq_linear", "fix_stress"] if tissue["kind"] == "equilibrium" and not tissue.get("noise")
                            else ["default", "default", "default", "lsq", "fix_stress"])
        if method in ("lsq", "lsq_linear") and tissue.get("ncells", 0) > 14:
            tissue["ncells"] = rng.choice([5, 8, 14]) if ctx.quick else rng.choice([8, 14, 25])
        specs.append({"tissue": tissue, "k": k, "seed": rng.randrange(10 ** 9), "want": ["C05"],
                      "sim": {"theta": rng.uniform(0, 2 * math.pi), "scale": 10 ** rng.uniform(-2, 2), "offset_sizes": rng.choice([0, 1, 5]),
                              "extent": 1.0 if tissue["kind"] == "equilibrium" else 10.0, "reflect": rng.random() < 0.3},
                      "build": {"limit": "inf", "fit": rng.choice(["dlite", "taubinSVD"])},
                      "solve": {"method": method, "allow_negatives": rng.random() < 0.5}})
    # many small SQUARE systems with distorted geometry: exact solutions with negative entries at varying positions
    # (inversion path with allow_negatives on / off; the fallback must take over whenever any tension is negative)
    for i in range(ctx.pick(260, 2000)):
        specs.append({"tissue": {"kind": "catalogue", "base": "hexflower", "sagitta": rng.choice([None, None, 0.1]),
                                 "tseed": rng.randrange(10 ** 6), "jitter": rng.choice([0.3, 0.5, 0.7])},
                      "k": rng.choice([1, 2]), "seed": rng.randrange(10 ** 9), "want": ["C05"],
                      "sim": {"theta": rng.uniform(0, 2 * math.pi), "scale": 10 ** rng.uniform(-1, 1), "offset_sizes": 0.5, "extent": 10.0,
                              "reflect": rng.random() < 0.3},
                      "build": {"limit": "inf", "fit": "taubinSVD"},
                      "solve": {"method": "default", "allow_negatives": rng.random() < 0.3}})
    # velocity right-hand sides (dynamic series): inconsistent or consistent systems with b != 0
    for i in range(ctx.pick(16, 300)):
        nframes = rng.choice([2, 3, 4])
        tissue = {"kind": "equilibrium", "ncells": rng.choice([6, 10, 16]), "mobius": rng.choice([0.0, 0.8])} if rng.random() < 0.7 else \
                 {"kind": "catalogue", "base": rng.choice(["hexflower", "hex33"]), "sagitta": rng.choice([None, 0.15]), "tseed": rng.randrange(10 ** 6)}
        specs.append({"dynamic": True, "tissue": tissue, "k": rng.choice([1, 3, 6]), "seed": rng.randrange(10 ** 9), "want": ["C05"],
                      "nframes": nframes, "when": rng.randrange(nframes), "step_frac": rng.choice([0.05, 0.2]),
                      "sim": {"theta": rng.uniform(0, 2 * math.pi), "scale": 10 ** rng.uniform(-1, 1), "offset_sizes": rng.uniform(0, 2),
                              "extent": 1.0 if tissue["kind"] == "equilibrium" else 10.0, "reflect": rng.random() < 0.3},
                      "build": {"fit": rng.choice(["dlite", "taubinSVD"])}, "solve": {"method": rng.choice(["default", "default", "lsq"])}})
    return specs


def run(ctx):
    ctx.mc("MC_KKT", ctx.pick("MC_KKT.cfg", "MC_KKT_thorough.cfg"), timeout=3000)
    specs = specs_for(ctx)
    verdicts, payloads = infer.run_specs(ctx, specs, prefixes=["C05", "SOLVE"])
    for cid, vjs in verdicts.items():
        hits = set(h for vj in vjs for h in vj.get("hits", []))
        ctx.add_case(payloads[cid], nontrivial="C05.solve" in hits)
    ctx.judge(verdicts, payloads)
    ctx.rule = ("random tissues (exact equilibrium = consistent systems, log-normal tension noise = inconsistent), "
                "square systems from the hexagonal flower (inversion path), x solver back-ends x allow_negatives; "
                "non-trivial = a solve happened and the certificate was evaluated (path recorded in clause_hits)")
    ctx.assumptions += ["the right-hand side of the spec system is the velocity term rounded to 3 decimals (zero in static mode)",
                        "KKT tolerances: 2e-3 + 4e-5 per junction on the gradient (quantisation of 1e-6 logs, dense multiplier column)"]


def replay(ctx, payload):
    verdicts, payloads = infer.run_specs(ctx, [payload["input"]], prefixes=["C05", "SOLVE"])
    ctx.add_case(payload["input"])
    ctx.add_case({"replay": True})
    ctx.judge(verdicts, payloads)

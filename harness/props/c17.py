"""C17 — myosin quantification is a normalised, linear window statistic of the image.

Spec -> code: TLC (MC_Myosin) enumerates interface-list configurations x placements (rescale / offset)
x layers x integrate x image mode on small integer images, checks the model-level invariants and
prints every leaf; each leaf is executed on the real forsys.myosin.get_intensities with real PIL images
and real Vertex / SmallEdge / BigEdge objects.
Code -> spec: every call is logged (Env / Impulse / Myosin events) and judged by TLC (Trace_Myosin)
against the declarative clauses of Myosin.tla. Integrate mode is characterised by impulse responses
(one call per pixel and interface), which needs no transcription of the walk.
Random larger cases: random polyline lists (repeated / equal-valued entries, dyadic or arbitrary float
rescale / offset) and synthetic tissues (catalogue, Voronoi) placed in random float and 8-bit images,
through get_intensities and read_myosin (TIFF round trip).

Python only drives, projects and relays; every verdict is TLC's."""
import math
import os
import random

import numpy as np

from harness import core, tissue, build
from harness.gen import catalogue, voronoi

LEVEL = "model_checking"
PID = "C17"
QS = 1000000
BIG = 2000000000
H_IMPULSE = 64


# ----------------------------------------------------------------------------------------------
# projection
# ----------------------------------------------------------------------------------------------
def fxc(v):
    """float -> fixed point at Q = 1e6; anything not representable (|v| >= 2000, nan, inf, not a number)
    becomes the out-of-range mark BIG, which no clause accepts"""
    try:
        v = float(v)
    except Exception:
        return BIG
    if not math.isfinite(v) or abs(v) >= 2000.0:
        return BIG
    return int(round(v * QS))


def project_result(res, n):
    """returned mapping / sequence -> values by list position 0..n-1 ([] if a position is missing)"""
    try:
        if isinstance(res, dict):
            vals = [res[j] for j in range(n)]
        else:
            vals = [res[j] for j in range(n)]
            if len(res) != n:
                return []
    except Exception:
        return []
    return [fxc(v) for v in vals]


# ----------------------------------------------------------------------------------------------
# real objects
# ----------------------------------------------------------------------------------------------
def call_params(inst):
    """concrete rescale / offset / vertex coordinates of an instance. `exact`: everything is a dyadic
    rational taken from the abstract input (float arithmetic on them is exact); `float`: the abstract
    input holds the positions in the image, the driver embeds them through arbitrary float
    rescale / offset (a change of coordinates known to the driver only)."""
    env = inst["env"]
    if "embed" in inst:
        r, o = inst["embed"]["rescale"], inst["embed"]["offset"]
        coords = [[((x / env["dv"] - o[0]) / r[0], (y / env["dv"] - o[1]) / r[1])
                   for x, y in zip(f["x"], f["y"])] for f in env["ifs"]]
        return list(r), list(o), coords
    r = [env["rs"][0] / env["dr"], env["rs"][1] / env["dr"]]
    o = [env["off"][0] / env["dq"], env["off"][1] / env["dq"]]
    coords = [[(x / env["dv"], y / env["dv"]) for x, y in zip(f["x"], f["y"])] for f in env["ifs"]]
    return r, o, coords


def build_interfaces(env, coords):
    """one BigEdge per interface definition, built like tests/test_myosin.py does (Vertex, SmallEdge
    between consecutive vertices, BigEdge(id, vertices)); mesh edges are kept alive by the caller"""
    import forsys as fs
    objs, keep = [], []
    for f, pts in zip(env["ifs"], coords):
        vs = [fs.vertex.Vertex(int(vid), float(p[0]), float(p[1])) for vid, p in zip(f["vid"], pts)]
        es = [fs.edge.SmallEdge(int(f["vid"][i]), vs[i], vs[i + 1]) for i in range(len(vs) - 1)]
        objs.append(fs.edge.BigEdge(int(f["bid"]), vs))
        keep.append(es)
    return objs, keep


def make_image(rows, vden, mode):
    from PIL import Image
    with np.errstate(all="ignore"):
        if mode == "L":
            return Image.fromarray(np.array(rows, dtype=np.uint8))
        return Image.fromarray((np.array(rows, dtype=np.float64) / vden).astype(np.float32))


def impulse_event(case, env, r, o, coords):
    """response of every interface definition alone to H * e_p for every pixel p"""
    import forsys as fs
    from PIL import Image
    w, h, mode = env["w"], env["h"], env["mode"]
    objs, keep = build_interfaces(env, coords)
    img = Image.new(mode, (w, h), 0)
    hval = H_IMPULSE if mode == "L" else float(H_IMPULSE)
    resp, raised = [], ""
    used = {k - 1 for k in env["list"]}
    try:
        for k, be in enumerate(objs):
            rows = []
            for y in range(h):
                row = []
                for x in range(w):
                    if k not in used:
                        row.append(0)
                        continue
                    img.putpixel((x, y), hval)
                    res = fs.myosin.get_intensities([be], img, True, None, env["layers"], rescale=r, offset=o)
                    img.putpixel((x, y), 0)
                    v = project_result(res, 1)
                    row.append(v[0] if v else BIG)
                rows.append(row)
            resp.append(rows)
    except Exception as exc:
        resp, raised = [], type(exc).__name__
    del objs, keep
    return {"case": case, "ev": "Impulse", "H": H_IMPULSE, "resp": resp, "raised": raised}


def events_for(case, inst, frame_builder=None):
    """Env, (Impulse), then for every image: call with normalize None, call with 'average', call on
    lin * image with normalize None. Fresh interface objects (or a fresh Frame) for every call."""
    import forsys as fs
    env = inst["env"]
    r, o, coords = call_params(inst)
    evs = [{"case": case, "ev": "Env", "env": env}]
    if env["integrate"]:
        evs.append(impulse_event(case, env, r, o, coords))
    api = inst.get("api", "get_intensities")

    def fresh():
        if frame_builder is not None:
            ctx = frame_builder()
            return ctx["list"], ctx, ctx["frame"]
        objs, keep = build_interfaces(env, coords)
        return [objs[k - 1] for k in env["list"]], (objs, keep), None

    def arg(x):
        """the same numbers as a list, a float64 array or a tuple (all documented as acceptable): a fresh object per call"""
        return [list(x), np.array(x, dtype=float), tuple(x)][case % 3]

    def call(rows, normalize, lin):
        image = make_image(rows, env["vden"], env["mode"])
        norm = None if normalize == "none" else normalize
        lst, keep, frame = fresh()
        n = len(lst)
        try:
            if api == "read_myosin":
                path = os.path.join(core.VERIF, "run", PID, "tiff", f"case{case}-{os.getpid()}.tif")
                os.makedirs(os.path.dirname(path), exist_ok=True)
                image.save(path)
                try:
                    res = fs.myosin.read_myosin(frame, path, env["integrate"], norm, env["layers"], rescale=arg(r), offset=arg(o))
                finally:
                    os.remove(path)
            else:
                if normalize == "none" and case % 2 == 0:
                    # an earlier quantification of the SAME interface objects at another placement (same layers) must leave
                    # nothing behind: results are a function of this call's arguments only
                    try:
                        fs.myosin.get_intensities(lst, image, env["integrate"], None, env["layers"],
                                                  rescale=[r[0] * 0.5, r[1] * 0.5], offset=[o[0] * 0.5 + 2, o[1] * 0.5 + 2])
                    except Exception:
                        pass
                res = fs.myosin.get_intensities(lst, image, env["integrate"], norm, env["layers"], rescale=arg(r), offset=arg(o))
            ret, gt, raised = project_result(res, n), [fxc(b.gt) for b in lst], ""
        except Exception as exc:
            ret, gt, raised = [], [], type(exc).__name__
        del lst, keep, frame
        evs.append({"case": case, "ev": "Myosin", "img": rows, "normalize": normalize, "lin": lin,
                    "ret": ret, "gt": gt, "raised": raised})

    for im in inst["imgs"]:
        rows = im["rows"]
        call(rows, "none", 0)
        call(rows, "average", 0)
        lin = im.get("lin", 3)
        if lin >= 2:
            call([[lin * v for v in row] for row in rows], "none", lin)
    return evs


# ----------------------------------------------------------------------------------------------
# jobs
# ----------------------------------------------------------------------------------------------
def _mc_job(args):
    case, inst = args
    return case, events_for(case, inst)


def _rand_image(rng, w, h, mode, vden, vmax):
    kind = rng.choice(["noise", "noise", "blobs", "ramp", "dark"])
    top = vmax * vden
    if kind == "noise":
        rows = [[rng.randint(1, top) for _ in range(w)] for _ in range(h)]
    elif kind == "ramp":
        a, b = rng.randint(0, 5), rng.randint(0, 5)
        rows = [[1 + (a * x + b * y + rng.randint(0, 2)) % top for x in range(w)] for y in range(h)]
    else:
        # "dark": bright spots on a background that is exactly 0 (interfaces lying wholly on the background measure 0)
        rows = [[0 if kind == "dark" else 1 + rng.randint(0, max(1, top // 8)) for _ in range(w)] for _ in range(h)]
        for _ in range(rng.randint(1, 6)):
            cx, cy, rad = rng.randrange(w), rng.randrange(h), rng.randint(1, 4)
            for y in range(max(0, cy - rad), min(h, cy + rad + 1)):
                for x in range(max(0, cx - rad), min(w, cx + rad + 1)):
                    rows[y][x] = rng.randint(max(1, top // 2), top)
    return rows


def _images(rng, env, integrate):
    """two random images (one with its 3x multiple) and a uniform one"""
    w, h, mode, vden = env["w"], env["h"], env["mode"], env["vden"]
    if integrate:
        vmax = 8
    else:
        vmax = 85 if mode == "L" else rng.choice([8, 60, 400])
    imgs = [{"name": "rand-lin", "rows": _rand_image(rng, w, h, mode, vden, vmax), "lin": 3}]
    vfull = vmax if integrate else (255 if mode == "L" else vmax * 3)
    imgs.append({"name": "rand", "rows": _rand_image(rng, w, h, mode, vden, vfull), "lin": 0})
    u = rng.randint(1, vmax * vden)
    imgs.append({"name": "uniform", "rows": [[u] * w for _ in range(h)], "lin": 0})
    return imgs


def _dyadic_transform(rng, integrate):
    dr = rng.choice([1, 2, 4] if integrate else [1, 2, 4, 16])
    dq = rng.choice([1, 2, 4] if integrate else [1, 2, 8])
    lo, hi = max(1, dr // 4), 4 * dr
    rs = [rng.randint(lo, hi), rng.randint(lo, hi)]
    if rng.random() < 0.5:
        rs[1] = rs[0]
    return dr, dq, rs


def _finish_env(rng, ifs, lst, dv, dr, dq, rs, layers, integrate, mode, vden, float_embed):
    """choose the offset and the image size so that every position has a margin of layers + 2 (+ slack);
    returns the instance or None when the tissue does not fit a 64 x 64 image"""
    m = layers + 2
    den = dv * dr * dq
    xs = [x * rs[0] * dq for f in ifs for x in f["x"]]
    ys = [y * rs[1] * dq for f in ifs for y in f["y"]]
    offn = []
    for vals in (xs, ys):
        # offset numerator over dq: smallest value giving min position >= m, plus random slack
        need = m * den - min(vals)
        on = -((-need) // (dv * dr)) + rng.randint(0, 3 * dq)
        offn.append(on)
    px = [v + offn[0] * dv * dr for v in xs]
    py = [v + offn[1] * dv * dr for v in ys]
    w = max(px) // den + layers + 3 + rng.randint(0, 2)
    h = max(py) // den + layers + 3 + rng.randint(0, 2)
    if w > 64 or h > 64:
        return None
    env = {"w": w, "h": h, "vden": vden, "mode": mode, "layers": layers, "integrate": integrate,
           "dv": dv, "dr": dr, "dq": dq, "rs": rs, "off": offn, "ifs": ifs, "list": lst}
    inst = {"env": env}
    if float_embed:
        # abstract input = positions in the image (odd numerators over 2 * den: never on a pixel boundary);
        # the real call uses arbitrary float rescale / offset and coordinates (P - offset) / rescale
        d2 = 2 * den
        ifs2 = [{"bid": f["bid"], "vid": f["vid"],
                 "x": [2 * (x * rs[0] * dq + offn[0] * dv * dr) + 1 for x in f["x"]],
                 "y": [2 * (y * rs[1] * dq + offn[1] * dv * dr) + 1 for y in f["y"]]} for f in ifs]
        inst["pre"] = {"dv": dv, "dr": dr, "dq": dq, "rs": list(rs), "off": list(offn)}
        env.update({"dv": d2, "dr": 1, "dq": 1, "rs": [1, 1], "off": [0, 0], "ifs": ifs2})
        inst["embed"] = {"rescale": [10 ** rng.uniform(-1.5, 1.5), 10 ** rng.uniform(-1.5, 1.5)],
                         "offset": [rng.uniform(-20, 20), rng.uniform(-20, 20)]}
    inst["imgs"] = _images(rng, env, integrate)
    return inst


def _poly_instance(rng, thorough):
    """random polyline list: repeated / equal-valued / equal-coordinate entries"""
    integrate = rng.random() < 0.5
    layers = rng.choice([0, 1, 2, 3])
    mode = rng.choice(["F", "L"])
    vden = 1 if mode == "L" else rng.choice([1, 2] if integrate else [1, 2, 16])
    dv = rng.choice([1, 2, 4] if integrate else [1, 2, 8])
    dr, dq, rs = _dyadic_transform(rng, integrate)
    float_embed = rng.random() < 0.4
    if float_embed and integrate:
        dv, dr, dq = rng.choice([1, 2]), rng.choice([1, 2]), rng.choice([1, 2])
        rs = [min(r, 4 * dr) for r in rs]
        rs = [max(1, min(rs[0], 4 * dr)), max(1, min(rs[1], 4 * dr))]
    nif = rng.choice([1, 2, 3, 4])
    ext = (14 if integrate else 30)  # extent in pixels
    ifs = []
    for k in range(nif):
        nv = rng.choice([2, 2, 3, 4, 6])
        # own-frame coordinates: numerators over dv, scaled so that the image extent is <= ext
        sx = max(1, int(ext * dv * dr / rs[0]))
        sy = max(1, int(ext * dv * dr / rs[1]))
        step = rng.choice([3, 6, 10])
        pts = [(rng.randint(0, sx), rng.randint(0, sy))]
        while len(pts) < nv:
            q = (pts[-1][0] + rng.randint(-step * dv * dr // rs[0] - 1, step * dv * dr // rs[0] + 1),
                 pts[-1][1] + rng.randint(-step * dv * dr // rs[1] - 1, step * dv * dr // rs[1] + 1))
            if q != pts[-1] and 0 <= q[0] <= sx and 0 <= q[1] <= sy:
                pts.append(q)
        ifs.append({"bid": k, "vid": [10 * k + i for i in range(nv)],
                    "x": [p[0] for p in pts], "y": [p[1] for p in pts]})
    lst = list(range(1, nif + 1))
    dup = rng.choice(["none", "none", "none", "repeat", "equal", "coords", "ids"])
    if dup == "repeat":
        lst.insert(rng.randint(0, len(lst)), rng.choice(lst))
    elif dup == "equal":
        src = rng.randrange(nif)
        ifs.append(dict(ifs[src]))
        lst.insert(rng.randint(0, len(lst)), len(ifs))
    elif dup == "coords":
        src = rng.randrange(nif)
        c = dict(ifs[src])
        c["bid"] = nif + 3
        c["vid"] = [900 + i for i in range(len(c["x"]))]
        ifs.append(c)
        lst.insert(rng.randint(0, len(lst)), len(ifs))
    elif dup == "ids":
        rng.shuffle(lst)
        for f in ifs:
            f["bid"] = f["bid"] * 7 + 3
    inst = _finish_env(rng, ifs, lst, dv, dr, dq, rs, layers, integrate, mode, vden, float_embed)
    if inst:
        inst["kind"] = "poly:" + dup
    return inst


def _tissue_geometry(rng, integrate):
    """junction-level tissue + k interior points, snapped to the grid 1/dv of its own frame"""
    if rng.random() < 0.5:
        name = rng.choice(["hexflower", "squares33"] if integrate else ["hexflower", "brick33", "squares33", "hex33", "irregular"])
        base = catalogue.load(name)
        pos = {i + 1: (float(p[0]), float(p[1])) for i, p in enumerate(base["pos"])}
        cells = base["cells"]
    else:
        name = "voronoi"
        pos, cells, _, _ = voronoi.random_tissue(rng, rng.choice([5, 8] if integrate else [8, 14, 25]))
    if integrate and len(cells) > 9:
        cells = cells[:9]
    k = rng.choice([0, 1, 2] if integrate else [0, 1, 2, 3, 5])
    desc, _ = tissue.instance_desc(pos, cells, k, None, id_offset=rng.choice([0, 7]), id_stride=rng.choice([1, 2]))
    return name, k, desc


def _tissue_instance(rng, thorough):
    integrate = rng.random() < 0.3
    layers = rng.choice([0, 1, 2, 3])
    mode = rng.choice(["F", "L"])
    vden = 1 if mode == "L" else rng.choice([1, 2] if integrate else [1, 2, 16])
    dv = rng.choice([1, 2, 4] if integrate else [2, 8])
    dr, dq, rs = _dyadic_transform(rng, integrate)
    float_embed = rng.random() < 0.4
    if float_embed and integrate:
        dv, dr, dq = 2, rng.choice([1, 2]), rng.choice([1, 2])
        rs = [max(1, min(rs[0], 4 * dr)), max(1, min(rs[1], 4 * dr))]
    name, k, desc = _tissue_geometry(rng, integrate)
    with np.errstate(all="ignore"):
        P = np.array([[v[1], v[2]] for v in desc["V"]], dtype=float)
        P -= P.min(axis=0)
        size = P.max(axis=0)
        target = rng.uniform(10, 16) if integrate else rng.uniform(20, 40)   # pixels
        # own-frame coordinate = model * a, image position = own * rescale (+ offset)
        ax = target / max(size[0], 1e-9) / (rs[0] / dr)
        ay = target / max(size[1], 1e-9) / (rs[1] / dr)
        a = min(ax, ay)
        xn = np.rint(P[:, 0] * a * dv).astype(int)
        yn = np.rint(P[:, 1] * a * dv).astype(int)
    if len({(int(x), int(y)) for x, y in zip(xn, yn)}) != len(xn):
        return None
    for row, x, y in zip(desc["V"], xn, yn):
        row[1], row[2] = int(x), int(y)          # numerators over dv
    use_all = rng.random() < 0.3
    api = "get_intensities" if use_all else rng.choice(["read_myosin", "get_intensities"])
    inst0 = {"desc": desc, "dv": dv, "use_all": use_all, "pick": None}
    ctx = _frame_ctx(inst0)
    ifs = ctx["ifs"]
    del ctx
    if not ifs:
        return None
    pick = None
    cap = 5 if integrate else 24
    if len(ifs) > cap or (api == "get_intensities" and rng.random() < 0.3):
        # a sub-list in arbitrary order (get_intensities only; read_myosin always takes the frame's list)
        api = "get_intensities"
        pick = rng.sample(range(len(ifs)), min(cap, rng.randint(1, len(ifs))))
        ifs = [ifs[i] for i in pick]
    inst = _finish_env(rng, ifs, list(range(1, len(ifs) + 1)), dv, dr, dq, rs, layers, integrate, mode, vden, float_embed)
    if inst is None:
        return None
    inst.update({"kind": f"tissue:{name}:k{k}", "api": api, "desc": desc, "use_all": use_all, "tissue_dv": dv,
                 "pick": pick})
    return inst


def _frame_ctx(inst, coords_of=None):
    """build the tissue as real objects and a Frame; returns the interface list handed to the code and its
    projection (bid, vertex ids, coordinate numerators)"""
    import forsys as fs
    desc, dv = inst["desc"], inst.get("tissue_dv", inst.get("dv"))
    num = {row[0]: (row[1], row[2]) for row in desc["V"]}
    if coords_of is None:
        real = {"V": [[vid, x / dv, y / dv] for vid, x, y in desc["V"]], "E": desc["E"], "C": desc["C"]}
    else:
        real = {"V": [[vid] + list(coords_of[vid]) for vid, _, _ in desc["V"]], "E": desc["E"], "C": desc["C"]}
    vertices, edges, cells = build.build_mesh(real)
    frame = fs.frames.Frame(0, vertices, edges, cells, time=0)
    lst = list(frame.big_edges.values()) if inst["use_all"] else list(frame.internal_big_edges)
    if inst.get("pick") is not None:
        lst = [lst[i] for i in inst["pick"]]
    ifs = [{"bid": int(b.big_edge_id), "vid": [int(v.id) for v in b.vertices],
            "x": [num[v.id][0] for v in b.vertices], "y": [num[v.id][1] for v in b.vertices]} for b in lst]
    return {"frame": frame, "list": lst, "ifs": ifs, "keep": (vertices, edges, cells)}


def _instance_events(case, inst):
    if not inst["kind"].startswith("tissue"):
        return events_for(case, inst)
    env = inst["env"]
    r, o, coords = call_params(inst)
    # real coordinates per vertex id (every interface sharing a vertex agrees on it)
    cmap = {}
    for f, pts in zip(env["ifs"], coords):
        for vid, p in zip(f["vid"], pts):
            cmap[vid] = p
    dv = inst["tissue_dv"]
    for vid, x, y in inst["desc"]["V"]:
        if vid in cmap:
            continue
        if "embed" in inst:       # vertex on no listed interface: same embedding
            pre = inst["pre"]
            den2 = 2 * pre["dv"] * pre["dr"] * pre["dq"]
            px = (2 * (x * pre["rs"][0] * pre["dq"] + pre["off"][0] * pre["dv"] * pre["dr"]) + 1) / den2
            py = (2 * (y * pre["rs"][1] * pre["dq"] + pre["off"][1] * pre["dv"] * pre["dr"]) + 1) / den2
            cmap[vid] = ((px - o[0]) / r[0], (py - o[1]) / r[1])
        else:
            cmap[vid] = (x / dv, y / dv)

    def fb():
        ctx = _frame_ctx(inst, cmap)
        if [(f["bid"], f["vid"]) for f in ctx["ifs"]] != [(f["bid"], f["vid"]) for f in env["ifs"]]:
            raise core.MachineryFailure("tissue interfaces differ between two builds of the same description")
        return ctx
    return events_for(case, inst, frame_builder=fb)


def _random_job(args):
    case, inst = args
    return case, _instance_events(case, inst)


def _make_random(seed, thorough):
    rng = random.Random(seed)
    for _ in range(50):
        with np.errstate(all="ignore"):
            inst = (_tissue_instance if rng.random() < 0.45 else _poly_instance)(rng, thorough)
        if inst is not None:
            inst["seed"] = seed
            return inst
    raise core.MachineryFailure(f"no random instance for seed {seed}")


# ----------------------------------------------------------------------------------------------
# check
# ----------------------------------------------------------------------------------------------
def _nontrivial(inst):
    env = inst["env"]
    return len(env["list"]) >= 2 or env["integrate"] or env["layers"] >= 1


def _relay(ctx, verdicts, payloads):
    drift = {}
    for cid, vjs in sorted(verdicts.items()):
        for vj in vjs:
            for d in vj.get("drift", []):
                drift.setdefault(d, []).append(cid)
    for d, cids in sorted(drift.items()):
        ctx.note(f"model_drift {d}: {len(set(cids))} case(s), first case {min(cids)}")
    rej = ctx.extra.setdefault("rejected_cases", [])
    rej += sorted({cid for cid, vjs in verdicts.items() for vj in vjs if vj.get("rejected")})[:50]
    by_clause = ctx.extra.setdefault("failing_cases_by_clause", {})
    for cid, vjs in verdicts.items():
        for c in {c for vj in vjs for c in list(vj.get("fails", [])) + list(vj.get("kf", []))}:
            by_clause[c] = by_clause.get(c, 0) + 1
    ctx.judge(verdicts, payloads)


def run(ctx):
    cfg = ctx.pick("MC_Myosin.cfg", "MC_Myosin_thorough.cfg")
    res = ctx.mc("MC_Myosin", cfg, timeout=3000, heap="4g")
    jobs, payloads = [], {}
    case = 0
    clean = 0
    for leaf in res.printed:
        case += 1
        inst = {"kind": "mc", "conf": leaf["conf"], "tr": leaf["tr"], "env": leaf["env"], "imgs": leaf["imgs"],
                "expect": leaf["expect"], "kf_key": leaf["kf_key"], "kf_float": leaf["kf_float"]}
        jobs.append((case, inst))
        payloads[case] = inst
        ctx.add_case(inst, nontrivial=_nontrivial(inst))
        clean += not (leaf["kf_key"] or leaf["kf_float"])
    n_mc = len(jobs)
    results = core.parallel_map(_mc_job, jobs, chunksize=2)
    nrand = ctx.pick(48, 1400)
    rjobs = []
    for i in range(nrand):
        case += 1
        inst = _make_random(ctx.seed * 100003 + i, not ctx.quick)
        rjobs.append((case, inst))
        payloads[case] = inst
        ctx.add_case(inst, nontrivial=_nontrivial(inst))
    results += core.parallel_map(_random_job, rjobs, chunksize=1)
    verdicts = ctx.validate("Trace_Myosin", results, timeout=3000, heap="2g")
    _relay(ctx, verdicts, payloads)
    ctx.rule = ("TLC enumerates interface-list configurations (distinct, repeated object, equal-valued objects, equal "
                "coordinates with other ids, ids unrelated to position) x placements (integer / half-integer rescale and "
                "offset) x layers x integrate x image mode, each leaf with all value patterns; every leaf is executed on the "
                "real get_intensities (normalize None, 3 x image, 'average'; integrate mode additionally one impulse per "
                "pixel and interface) and judged by TLC; plus random polyline lists and synthetic tissues (catalogue, "
                "Voronoi; get_intensities and read_myosin) in random float / 8-bit images under dyadic or arbitrary float "
                "rescale / offset. Non-trivial = at least two list entries, or integrate, or layers >= 1.")
    ctx.exhaustive = True
    ctx.extra["exhaustive_scope"] = {"cfg": cfg, "mc_leaves": n_mc, "mc_leaves_clean_of_known_findings": clean,
                                     "random_cases": nrand}
    ctx.assumptions += ["TLC/SANY and the CommunityModules Json reader are trusted",
                        "Pillow's getpixel truncates float coordinates towards zero (probed: 12.3.0); inside the image "
                        "that is the pixel containing the position",
                        "float arithmetic on the dyadic rationals of the exact instances is exact; in float-embedded "
                        "instances positions are >= 1/(2*den) away from every pixel boundary, far above rounding error",
                        "integrate mode is linear in the image (checked: an arbitrary image is compared with the "
                        "superposition of the measured impulse responses)",
                        "value equality of interface objects is determined by (id, vertex ids, coordinates) for the "
                        "objects the driver builds"]


def replay(ctx, payload):
    inst = payload["input"]
    ctx.add_case(inst)
    ctx.add_case({"replay": True})
    c, evs = _random_job((1, inst)) if inst["kind"] != "mc" else _mc_job((1, inst))
    v = ctx.validate("Trace_Myosin", [(c, evs)], heap="2g")
    _relay(ctx, v, {c: inst})

"""reporting — the reporting / ground-truth API of a Frame and of the ForSys wrapper (extension check, not one of the
listed properties).  Specification: spec/Reporting.tla (state machine: state = the abstract frame, actions = the
public calls; declarative layer `Judge`, implementation-shaped layer `IStep`, known-finding matchers KF_*).

Spec -> code: TLC (MC_Reporting) explores the COMPLETE reachable graph of the state machine over three (thorough:
four) tiny abstract frames - every public call with every flag combination from every reachable state - checks
I => D except the recorded findings plus the cross-call invariants, and prints a hash-selected sample of call
sequences (one per transition, denser among those that end in a known-finding instance). Every printed sequence is
REPLAYED on real forsys objects: catalogue tissues (interior points / two-point interfaces / permuted ids), a
hand-made tissue in which two cells share two interfaces, and the repository's Surface Evolver dumps (tests/data,
read-only). After every call the returned table / list / object / exported FILE (parsed back) and the complete values
of the frame (mesh-edge, interface and cell attributes, Frame.forces, the export stores) are recorded.
Code -> spec: Trace_Reporting judges every recorded call with the same `Judge` (clauses REP.*); seeded random
longer call sequences (20-40 calls) are validated by the same specification.

No judgement happens here: this module builds inputs, drives the real objects and projects what they return to
dense indices and fixed-point integers."""
import hashlib
import json
import math
import os
import random
import shutil
import sys
import tempfile
import warnings

import numpy as np

from harness import core, tissue, build
from harness.gen import catalogue

LEVEL = "exploration"
PID = "reporting"
TRACE = "Trace_Reporting"
CFG = "Trace_Reporting.cfg"
QS = 1000000
LIM = 1000.0
DATA = os.path.join(core.REPO, "tests", "data")
SE_SETS = [["furrow_gauss_velocity/stage0.dmp", "furrow_gauss_velocity/stage1.dmp"],
           ["12_12/step_20.dmp", "12_12/step_21.dmp"],
           ["furrow_gauss_velocity/stage3.dmp"],
           ["initial_furrow.dmp"]]
EXTRA_KF = os.path.join(core.VERIF, "findings", "reporting_known_findings.json")

UPDATES = ("AssignGT", "AssignGTSmall", "AssignPressures", "AssignSmall", "ToBig", "Solve", "SolveP")
QUERIES = ("BigEdges", "External", "ExternalIds", "Tensions", "GT", "Pressures", "Export", "ByCells", "CellProps",
           "EdgeProps", "EdgesId", "LogForce", "EdgeForce")


# ------------------------------------------------------------------------------------------------
# projection
# ------------------------------------------------------------------------------------------------
def val(x):
    """python value -> <<flag, fixed point>>: 1 number, 0 None, 2 NaN, -6 outside the fixed-point range"""
    if x is None:
        return [0, 0]
    try:
        f = float(x)
    except (TypeError, ValueError):
        return [-7, 0]
    if math.isnan(f):
        return [2, 0]
    if math.isinf(f) or abs(f) > LIM:
        return [-6, 0]
    return [1, int(round(f * QS))]


def fxi(x):
    return int(round(float(x) * QS))


class View:
    """dense 1..n indices of one real Frame (dict orders); keeps ids only, no object references besides the frame"""

    def __init__(self, frame):
        self.frame = frame
        self.vkeys = list(frame.vertices)
        self.ekeys = list(frame.edges)
        self.ckeys = list(frame.cells)
        self.bkeys = list(frame.big_edges)
        self.vidx = {k: i + 1 for i, k in enumerate(self.vkeys)}
        self.eidx = {k: i + 1 for i, k in enumerate(self.ekeys)}
        self.cidx = {k: i + 1 for i, k in enumerate(self.ckeys)}
        self.bidx = {k: i + 1 for i, k in enumerate(self.bkeys)}

    def bes(self):
        return [self.frame.big_edges[k] for k in self.bkeys]

    def b_of(self, obj):
        for i, k in enumerate(self.bkeys):
            if self.frame.big_edges[k] is obj:
                return i + 1
        return 0

    def bid(self, x):
        try:
            return self.bidx.get(int(x), 0) if float(x) == int(x) else 0
        except (TypeError, ValueError):
            return 0

    def cid(self, x):
        try:
            return self.cidx.get(int(x), 0) if float(x) == int(x) else 0
        except (TypeError, ValueError):
            return 0

    def structure(self):
        fr = self.frame
        bes = self.bes()
        internal = list(fr.internal_big_edges)
        coords = [abs(c) for v in fr.vertices.values() for c in (v.x, v.y)]
        geom = bool(coords and max(coords) <= LIM)
        raw = {"nb": len(bes), "nc": len(self.ckeys), "ne": len(self.ekeys),
               "ext": [bool(b.external) for b in bes],
               "inl": [any(b is x for x in internal) for b in bes],
               "edges": [[self.eidx.get(e, 0) for e in b.edges] for b in bes],
               "npt": [len(b.vertices) for b in bes],
               "touch": [], "gtflag": bool(fr.gt), "geom": geom,
               "ifx": [[fxi(v.x) for v in b.vertices] for b in bes] if geom else [],
               "ify": [[fxi(v.y) for v in b.vertices] for b in bes] if geom else [],
               "cx": [[fxi(v.x) for v in fr.cells[k].vertices] for k in self.ckeys] if geom else [],
               "cy": [[fxi(v.y) for v in fr.cells[k].vertices] for k in self.ckeys] if geom else []}
        mesh = {"E": [[self.vidx.get(fr.edges[k].v1.id, 0), self.vidx.get(fr.edges[k].v2.id, 0)] for k in self.ekeys],
                "C": [[self.vidx.get(v.id, 0) for v in fr.cells[k].vertices] for k in self.ckeys],
                "ifv": [[self.vidx.get(v.id, 0) for v in b.vertices] for b in bes]}
        return raw, mesh

    def state(self):
        fr = self.frame
        bes = self.bes()
        has = hasattr(fr, "forces") and fr.forces is not None
        forces = [val(v) for v in fr.forces.values()] if has and isinstance(fr.forces, dict) else []
        return {"egt": [val(fr.edges[k].gt) for k in self.ekeys],
                "eT": [val(fr.edges[k].tension) for k in self.ekeys],
                "igt": [val(b.gt) for b in bes], "iT": [val(b.tension) for b in bes],
                "cgt": [val(fr.cells[k].gt_pressure) for k in self.ckeys],
                "cP": [val(fr.cells[k].pressure) for k in self.ckeys],
                "hasF": bool(has), "forces": forces,
                "stGT": [[self.bid(k), val(v)] for k, v in fr.big_edge_gt_tension.items()],
                "stT": [[self.bid(k), val(v)] for k, v in fr.big_edge_tension.items()]}


def res0():
    return {"raised": "", "kind": "", "ids": [], "cols": [], "rows": [], "rows2": [], "j": 0}


def table(df, width, idmap):
    """DataFrame -> (column names, rows <<index of the id, values...>>), rows padded / cut to `width`"""
    cols = [str(c) for c in df.columns]
    rows = []
    for rec in df.values.tolist():
        row = [idmap(rec[0]) if rec else 0] + [val(x) for x in rec[1:width]]
        while len(row) < width:
            row.append([3, 0])
        rows.append(row)
    return cols, rows


def parse_csv(path, view):
    """the exported file, parsed back: (kind, header, rows <<index of the id, value>>)"""
    if not os.path.exists(path):
        return "nofile", [], []
    text = open(path).read()
    lines = text.split("\n")
    if lines and lines[-1] == "":
        lines = lines[:-1]
    header = [h for h in lines[0].split(",")] if lines and lines[0] != "" else []
    rows, kind = [], "file"
    for ln in lines[1:]:
        parts = ln.split(",")
        try:
            rows.append([view.bid(float(parts[0])), val(float(parts[1])) if parts[1] != "" else [2, 0]])
        except (ValueError, IndexError):
            kind = "badfile"
    return kind, header, rows


# ------------------------------------------------------------------------------------------------
# real objects
# ------------------------------------------------------------------------------------------------
def lens_base():
    """two large cells that share TWO interfaces (above and below a small diamond cell between them)"""
    polys = [[(0, 0), (4, 0), (4, 2), (3, 3), (4, 4), (4, 6), (0, 6)],
             [(4, 0), (8, 0), (8, 6), (4, 6), (4, 4), (5, 3), (4, 2)],
             [(4, 2), (5, 3), (4, 4), (3, 3)]]
    return catalogue.complex_from_polygons("lens", polys)


def cat_desc(spec, shift=0.0):
    base = lens_base() if spec["tissue"] == "lens" else catalogue.load(spec["tissue"])
    pos = {i + 1: (float(p[0]) + shift, float(p[1]) + 0.5 * shift) for i, p in enumerate(base["pos"])}
    cells = base["cells"]
    if spec.get("ncells"):
        cells = cells[:spec["ncells"]]
    rs = random.Random(spec.get("ids", 0))
    kw = {}
    if spec.get("ids"):
        kw = {"id_offset": rs.choice([0, 3, 100]), "id_stride": rs.choice([1, 2, 7]),
              "shuffle_rng": random.Random(spec["ids"] + 1), "vperm_rng": random.Random(spec["ids"] + 2)}
    bulge = None
    if spec.get("bulge"):
        edges, _ = tissue.base_edges(cells)
        rb = random.Random(spec["bulge"])
        bulge = {e: rb.choice([-1, 1]) * rb.uniform(0.03, 0.1) for e in edges}
    with np.errstate(all="ignore"):
        desc, _ = tissue.instance_desc(pos, cells, spec["k"], None, bulge=bulge, **kw)
    return desc


def make_session(spec):
    """-> (ForSys object, frame 0). Fresh objects per case."""
    import forsys as fs
    np.seterr(all="raise")
    frames = {}
    if spec["kind"] == "se":
        for t, rel in enumerate(spec["files"]):
            se = fs.surface_evolver.SurfaceEvolver(os.path.join(DATA, rel))
            frames[t] = fs.frames.Frame(t, se.vertices, se.edges, se.cells, time=float(t), gt=bool(spec.get("gt", True)))
    else:
        nfr = 2 if spec.get("two") else 1
        for t in range(nfr):
            v, e, c = build.build_mesh(cat_desc(spec, shift=0.01 * t))
            if t == 0:
                rg = random.Random(spec.get("gtseed", 0))
                if spec.get("gtseed"):
                    for k in e:
                        e[k].gt = round(rg.uniform(0.2, 3.0), rg.choice([1, 3, 6]))
                if spec.get("cgt"):
                    for k in c:
                        c[k].gt_pressure = round(rg.uniform(-1.0, 1.0), 4)
            frames[t] = fs.frames.Frame(t, v, e, c, time=float(t), gt=bool(spec.get("gt", False)))
    return fs.ForSys(frames, cm=False), frames[0]


def pattern(p, i, rng):
    if p == "a":
        return 0.5 + 0.25 * i
    if p == "b":
        return 3.0 - 0.125 * i
    if p == "c":
        return 1.0 + 0.01 * i * i
    return round(rng.uniform(-2.0, 5.0), rng.choice([0, 2, 6]))


def cell_pairs(view):
    """(adjacent pairs, other pairs) of dense cell indices, from the cell cycles"""
    owner = {}
    for ci, k in enumerate(view.ckeys):
        cyc = [v.id for v in view.frame.cells[k].vertices]
        for a, b in zip(cyc, cyc[1:] + cyc[:1]):
            owner.setdefault((min(a, b), max(a, b)), set()).add(ci + 1)
    adj = sorted({tuple(sorted(s)) for s in owner.values() if len(s) == 2})
    n = len(view.ckeys)
    other = [(a, b) for a in range(1, n + 1) for b in range(a + 1, n + 1) if (a, b) not in set(adj)]
    return adj, other


class Driver:
    def __init__(self, case, spec, seed):
        self.case = case
        self.rng = random.Random(seed)
        self.fs, self.frame = make_session(spec)
        self.two = len(self.fs.frames) > 1
        self.view = View(self.frame)
        self.tmp = tempfile.mkdtemp(prefix="rep_")
        self.adj, self.other = cell_pairs(self.view)
        self.last_pair = None
        raw, mesh = self.view.structure()
        self.events = [{"case": case, "ev": "Frame", "raised": "", "raw": raw, "mesh": mesh, "obs": self.view.state()}]

    def close(self):
        shutil.rmtree(self.tmp, ignore_errors=True)

    # ---- instantiate an abstract call (op, flags, pattern names) at the size of the real frame -----------
    def concretise(self, a):
        op = a["op"]
        v, fr, rng = self.view, self.frame, self.rng
        c = {"op": op, "wb": bool(a.get("wb", False)), "isgt": bool(a.get("isgt", False)), "g": [], "map": [], "a": 0, "b": 0}
        args = {}
        n_all = len(v.bkeys)
        n_non = sum(1 for b in v.bes() if not b.external)
        if op == "AssignGT":
            n = n_all if c["wb"] else n_non
            vals = [pattern(a.get("pat", "r"), i + 1, rng) for i in range(n)]
            args["g"] = vals if rng.random() < 0.5 else {i: x for i, x in enumerate(vals)}
            c["g"] = [val(x) for x in vals]
        elif op == "AssignPressures":
            n = len(v.ckeys)
            vals = [pattern(a.get("pat", "r"), i + 1, rng) for i in range(n)]
            perm = list(range(n))
            if a.get("mp", "r") == "rev":
                perm.reverse()
            elif a.get("mp", "r") != "id":
                rng.shuffle(perm)
            keys = [f"c{i}" for i in range(n)] if rng.random() < 0.5 else list(range(n))
            as_list = keys[0] == 0 and rng.random() < 0.3
            args["pressures"] = list(vals) if as_list else {keys[i]: vals[i] for i in range(n)}
            args["mapping"] = {ck: keys[perm[i]] for i, ck in enumerate(v.ckeys)}
            c["g"] = [val(x) for x in vals]
            c["map"] = [perm[i] + 1 for i in range(n)]
        elif op == "AssignSmall":
            vals = [pattern(a.get("pat", "r"), i + 1, rng) for i in range(n_all)]
            args["x"] = vals
            c["g"] = [val(x) for x in vals]
        elif op == "Solve":
            args["limit"] = 0.8 * math.pi if a.get("pat") == "x" else None
        elif op == "ByCells":
            if a.get("swap") and self.last_pair:
                pa = (self.last_pair[1], self.last_pair[0])
            elif a.get("a") and a.get("a") == a.get("b"):
                k = rng.randrange(1, len(v.ckeys) + 1)
                pa = (k, k)
            else:
                pool = self.adj if (rng.random() < 0.75 and self.adj) or not self.other else self.other
                pa = rng.choice(pool) if pool else (1, 1)
                if rng.random() < 0.5:
                    pa = (pa[1], pa[0])
            self.last_pair = pa
            c["a"], c["b"] = pa
        elif op in ("EdgesId", "EdgeForce"):
            c["a"] = rng.randrange(1, n_all + 1) if n_all else 0
        elif op == "CellProps":
            c["wb"] = True      # center_method = "centroid"
        return c, args

    # ---- execute one call on the real objects, project what it returns -----------------------------------
    def call(self, a):
        c, args = self.concretise(a)
        op = c["op"]
        if op == "EdgeForce" and not self.two:
            return                                     # needs a time series: only in two-frame sessions
        v, fr, fs_ = self.view, self.frame, self.fs
        r = res0()
        np.seterr(all="raise")
        try:
            with warnings.catch_warnings():
                warnings.simplefilter("ignore")
                if op == "AssignGT":
                    fr.assign_gt_tensions_to_big_edges(args["g"], use_all=c["wb"])
                elif op == "AssignGTSmall":
                    fr.assign_gt_small_edges("ext" if c["wb"] else "internal")
                elif op == "AssignPressures":
                    fr.assign_pressures(args["pressures"], args["mapping"])
                elif op == "AssignSmall":
                    fr.assign_tensions(args["x"])
                elif op == "ToBig":
                    fr.assign_tensions_to_big_edges()
                elif op == "Solve":
                    if args["limit"] is None:
                        fs_.build_force_matrix(when=0)
                    else:
                        fs_.build_force_matrix(when=0, angle_limit=args["limit"])
                    fs_.solve_stress(when=0)
                    c["g"] = [val(x) for x in fs_.forces[0].values()]
                elif op == "SolveP":
                    fs_.build_pressure_matrix(when=0)
                    fs_.solve_pressure(when=0, method="lagrange_pressure")
                    c["g"] = [val(x) for x in fs_.pressures[0]]
                    mo = fs_.pressure_matrices[0].mapping_order
                    c["map"] = [int(mo[k]) + 1 for k in v.ckeys]
                elif op == "BigEdges":
                    out = fr.get_big_edges(use_all=c["wb"])
                    r["kind"] = "list" if isinstance(out, list) else "dict" if isinstance(out, dict) else type(out).__name__
                    r["ids"] = [v.b_of(b) for b in (out.values() if isinstance(out, dict) else out)]
                elif op == "External":
                    out = fr.get_external_edges()
                    r["kind"] = "list" if isinstance(out, list) else type(out).__name__
                    r["ids"] = [v.b_of(b) for b in out]
                elif op == "ExternalIds":
                    out = fr.get_external_edges_ids()
                    r["kind"] = "list" if isinstance(out, list) else type(out).__name__
                    r["ids"] = [v.bid(k) for k in out]
                elif op == "Tensions":
                    r["cols"], r["rows"] = table(fr.get_tensions(with_border=c["wb"]), 3, v.bid)
                elif op == "GT":
                    r["cols"], r["rows"] = table(fr.get_gt_tensions(with_border=c["wb"]), 2, v.bid)
                elif op == "Pressures":
                    r["cols"], r["rows"] = table(fr.get_pressures(), 3, v.cid)
                elif op == "Export":
                    path = os.path.join(self.tmp, "export.csv")
                    if os.path.exists(path):
                        os.remove(path)
                    fr.export_tensions("export.csv", self.tmp, is_gt=c["isgt"], with_border=c["wb"])
                    r["kind"], r["cols"], r["rows"] = parse_csv(path, v)
                elif op == "ByCells":
                    out = fr.get_big_edge_by_cells(v.ckeys[c["a"] - 1], v.ckeys[c["b"] - 1])
                    r["j"] = v.b_of(out)
                elif op == "CellProps":
                    df = fr.get_cell_properties_df("centroid")
                    r["cols"], r["rows"] = table(df, 6, v.cid)
                    r["rows2"] = [[val(fr.cells[k].get_perimeter()), val(fr.cells[k].get_area())] for k in v.ckeys]
                elif op == "EdgeProps":
                    r["cols"], r["rows"] = table(fr.get_edges_props_df(), 5, v.bid)
                elif op == "EdgesId":
                    out = fr.get_big_edge_edgesid(fr.big_edges_list[c["a"] - 1])
                    r["ids"] = [v.eidx.get(e, 0) for e in out]
                elif op == "LogForce":
                    df = fs_.log_force(0)
                    r["cols"] = [str(x) for x in df.columns]
                    r["rows"] = [[int(lab) if isinstance(lab, (int, np.integer)) else -1, val(rec[0]), 1 if rec[1] else 0]
                                 for lab, rec in zip(df.index.tolist(), df.values.tolist())]
                elif op == "EdgeForce":
                    ids = fr.big_edges_list[c["a"] - 1]
                    out = fs_.get_edge_force(ids[0], ids[1], 0, 1)
                    r["rows"] = [[val(x)] for x in out]
                else:
                    raise core.MachineryFailure(f"unknown op {op}")
        except core.MachineryFailure:
            raise
        except Exception as exc:  # the error path is part of the observable behaviour
            r = res0()
            r["raised"] = type(exc).__name__
        self.events.append({"case": self.case, "ev": "Call", "c": c, "r": r, "obs": v.state()})


# ------------------------------------------------------------------------------------------------
# cases
# ------------------------------------------------------------------------------------------------
FAMILY = {  # abstract frame of MC_Reporting -> real tissues of the same kind
    1: [{"tissue": "squares33", "k": 1}, {"tissue": "hexflower", "k": 2}, {"tissue": "brick33", "k": 1},
        {"tissue": "irregular", "k": 1}, {"tissue": "hex33", "k": 3}],
    2: [{"tissue": "lens", "k": 1}, {"tissue": "lens", "k": 2}, {"tissue": "lens", "k": 0}],
    3: [{"tissue": "squares33", "k": 0}, {"tissue": "hexflower", "k": 0}, {"tissue": "irregular", "k": 0}],
    4: [{"tissue": "hex33", "k": 2}, {"tissue": "hex43", "k": 1}, {"tissue": "hexflower", "k": 4}],
}


def spec_for(frame_no, rng, se_ok=False):
    if se_ok:
        return {"kind": "se", "files": rng.choice(SE_SETS), "gt": rng.random() < 0.8}
    s = dict(rng.choice(FAMILY[frame_no]))
    s.update({"kind": "cat", "gt": frame_no != 2 or rng.random() < 0.3, "gtseed": rng.randrange(1, 10 ** 6),
              "cgt": rng.random() < 0.5, "ids": rng.choice([0, 0, rng.randrange(1, 10 ** 6)]),
              "two": rng.random() < 0.35, "bulge": rng.choice([0, 0, rng.randrange(1, 10 ** 6)]) if s["k"] > 0 else 0})
    return s


RANDOM_OPS = (["AssignGT"] * 4 + ["AssignGTSmall"] * 2 + ["AssignPressures"] * 3 + ["AssignSmall"] * 2 + ["ToBig"] * 3 +
              ["Solve"] * 3 + ["SolveP"] * 2 + ["BigEdges"] * 2 + ["External", "ExternalIds"] + ["Tensions"] * 4 + ["GT"] * 3 +
              ["Pressures"] * 3 + ["Export"] * 3 + ["ByCells"] * 6 + ["CellProps"] * 2 + ["EdgeProps"] * 2 + ["EdgesId"] * 2 +
              ["LogForce"] * 2 + ["EdgeForce"])


def random_calls(rng, n):
    calls = []
    for _ in range(n):
        op = rng.choice(RANDOM_OPS)
        a = {"op": op, "wb": rng.random() < (0.25 if op in ("AssignGT", "AssignGTSmall") else 0.5),
             "isgt": rng.random() < 0.5, "pat": rng.choice(["r", "r", "a", "x"]), "mp": rng.choice(["r", "r", "id", "rev"])}
        calls.append(a)
        if op == "ByCells" and rng.random() < 0.6:
            calls.append({"op": "ByCells", "swap": True})      # the same pair, arguments swapped
    return calls


def _job(args):
    case, payload = args
    d = None
    try:
        d = Driver(case, payload["spec"], payload["seed"])
        for a in payload["calls"]:
            d.call(a)
        return case, d.events, ""
    except Exception as exc:  # a failure outside the guarded calls = harness problem, not a verdict
        import traceback
        return case, None, f"{payload.get('kind')} {payload.get('spec')}: {exc!r} {traceback.format_exc()[-800:]}"
    finally:
        if d is not None:
            d.close()


def load_kf(ctx):
    """known findings of this check: known_findings.json (core) or, until they are listed there, the side file"""
    if os.path.exists(EXTRA_KF):
        for ent in json.load(open(EXTRA_KF)).get("findings", []):
            if ent.get("status", "open") == "open" and ent["property"] == PID:
                ctx.kf.setdefault(ent["matcher"], ent)


def relay_drift(ctx, verdicts):
    drift, where = {}, {}
    for cid, vjs in verdicts.items():
        for vj in vjs:
            for dn in vj.get("drift", []):
                drift[dn] = drift.get(dn, 0) + 1
    for dn, n in sorted(drift.items()):
        if dn.startswith("premise."):
            ctx.note(f"{n} event(s) rejected: {dn} (structure premise owned by C08/C09)")
        else:
            ctx.note(f"model_drift {dn}: {n} event(s) where the code differs from the implementation-shaped layer I "
                     f"(the declarative clauses still decide)")
    ctx.extra["model_drift"] = drift


def run(ctx):
    load_kf(ctx)
    cfg = ctx.pick("MC_Reporting.cfg", "MC_Reporting_thorough.cfg")
    res = ctx.mc("MC_Reporting", cfg, workers=ctx.pick(1, 16), timeout=3000, heap=ctx.pick("2g", "6g"))
    guard = ctx.mc("MC_Reporting", "MC_Reporting_guard.cfg", workers=1, timeout=600, heap="1g", expect_complete=False)
    ctx.extra["matchers_reachable_in_model"] = bool(guard.invariant_violated)
    if not guard.invariant_violated:
        raise core.MachineryFailure("vacuity guard: ConformRaw holds, the known-finding matchers match nothing in the model")
    seqs = sorted(res.printed, key=lambda d: hashlib.sha1(json.dumps(d, sort_keys=True).encode()).hexdigest())
    if not seqs:
        raise core.MachineryFailure("MC_Reporting printed no call sequences")
    max_mc = ctx.pick(90, 2500)
    rng = random.Random(ctx.seed * 7919 + 17)
    payloads, jobs = {}, []
    case = 0
    for d in seqs[:max_mc]:
        case += 1
        se = rng.random() < ctx.pick(0.06, 0.04) and d["frame"] != 2
        payloads[case] = {"kind": "mc", "frame": d["frame"], "spec": spec_for(d["frame"], rng, se_ok=se), "calls": d["hist"],
                          "seed": ctx.seed * 1000003 + case, "model_kf": d["kf"]}
        ctx.add_case(payloads[case], nontrivial=any(c["op"] in UPDATES for c in d["hist"]))
        jobs.append((case, payloads[case]))
    nrand = ctx.pick(36, 1200)
    for i in range(nrand):
        case += 1
        r2 = random.Random(ctx.seed * 104729 + i)
        se = i % ctx.pick(9, 12) == 0
        payloads[case] = {"kind": "random", "spec": spec_for(r2.choice([1, 1, 2, 3, 4]), r2, se_ok=se),
                          "calls": random_calls(r2, r2.randrange(20, 41) if not se else r2.randrange(12, 25)),
                          "seed": ctx.seed * 15485863 + i}
        ctx.add_case(payloads[case])
        jobs.append((case, payloads[case]))
    results = core.parallel_map(_job, jobs, chunksize=2)
    bad = [r for r in results if r[1] is None]
    if bad:
        raise core.MachineryFailure(f"driver failed on {len(bad)} case(s); first: {bad[0][2]}")
    verdicts = ctx.validate(TRACE, [(c, evs) for c, evs, _ in results], cfg=CFG, timeout=3000, heap="2g")
    relay_drift(ctx, verdicts)
    ctx.judge(verdicts, payloads)
    ctx.extra["exhaustive_scope"] = {"mc": cfg, "sequences_emitted": len(seqs), "replayed_mc_sequences": min(len(seqs), max_mc),
                                     "random_sequences": nrand}
    ctx.exhaustive = True
    ctx.rule = ("TLC explores the complete reachable graph of the reporting state machine over tiny abstract frames (every "
                "public call x flags x value patterns from every reachable state), checks I => D except the known-finding "
                "matchers and the cross-call invariants, and prints one call sequence per hash-selected transition; each is "
                "replayed on real Frames / ForSys objects (catalogue tissues with permuted ids, a tissue where two cells share "
                "two interfaces, the repository's Surface Evolver dumps), plus seeded random sequences of 20-40 calls; after "
                "every call the returned table / file / object and all values of the frame are recorded and judged by "
                "Trace_Reporting. Non-trivial = the sequence contains an update call.")
    ctx.assumptions += ["TLC/SANY and the CommunityModules Json reader are trusted",
                        "extension check: `reporting` is not one of the listed properties; the clauses are those of spec/Reporting.tla",
                        "readings R1-R5 of spec/Reporting.tla (position-keyed ground-truth assignment, -1 = not inferred, "
                        "defaults before any solve, any interface between the two cells, export = the table)",
                        "values are compared in fixed point (Q = 1e6, |v| <= 1000); means with a tolerance of 2 ulp",
                        "a solve that raises for numerical reasons is rejected input (C04/C05 own the solvers)",
                        "structure premises (interfaces partition the mesh edges, k-th mesh edge joins the k-th and (k+1)-th "
                        "vertex) are re-checked by TLC; a frame that fails them is rejected input (C08/C09 own them)"]


def replay(ctx, payload):
    load_kf(ctx)
    inp = payload["input"]
    c, evs, err = _job((1, inp))
    if evs is None:
        raise core.MachineryFailure(err)
    ctx.add_case(inp)
    v = ctx.validate(TRACE, [(c, evs)], cfg=CFG, heap="2g")
    relay_drift(ctx, v)
    ctx.judge(v, {c: inp})


# ------------------------------------------------------------------------------------------------
# the binding is real: a recorded trace is accepted, the same trace with one corrupted field is rejected
# ------------------------------------------------------------------------------------------------
def selfcheck():
    """python -m harness.props.reporting selfcheck   (cwd /verif)"""
    core.import_forsys()
    calls = [{"op": "AssignGT", "pat": "a"}, {"op": "GT", "wb": True}, {"op": "Solve", "pat": "a"}, {"op": "Tensions", "wb": False},
             {"op": "AssignPressures", "pat": "b", "mp": "rev"}, {"op": "Pressures"}, {"op": "EdgeProps"}, {"op": "LogForce"},
             {"op": "ByCells"}, {"op": "ByCells", "swap": True}]
    spec = {"kind": "cat", "tissue": "hexflower", "k": 2, "gt": True, "gtseed": 5, "cgt": True, "ids": 11, "two": False, "bulge": 0}
    with core.quiet_stdout():
        _, evs, err = _job((1, {"kind": "selfcheck", "spec": spec, "calls": calls, "seed": 1}))
    if evs is None:
        print("selfcheck: driver failed", err)
        return 2

    def run_trace(events, tag):
        d = tempfile.mkdtemp(prefix="rep_self_")
        path = os.path.join(d, "t.ndjson")
        with open(path, "w") as f:
            for e in events:
                f.write(json.dumps(e, separators=(",", ":")) + "\n")
        r = core.run_tlc(TRACE, CFG, workers=1, env={"TRACE_FILE": path}, heap="1g", timeout=600)
        shutil.rmtree(d, ignore_errors=True)
        if not r.completed or len(r.vj) != len(events):
            print(f"selfcheck[{tag}]: TLC did not complete: {r.error_text()}")
            return None
        return sorted({c for vj in r.vj for c in vj["fails"]})

    def mutate(fn):
        evs2 = json.loads(json.dumps(evs))
        fn(evs2)
        return evs2

    def m_table(e):     # a value of the tension table
        ev = next(x for x in e if x["ev"] == "Call" and x["c"]["op"] == "Tensions")
        ev["r"]["rows"][1][2][1] += 1000
    def m_order(e):     # two rows of the ground-truth table swapped
        ev = next(x for x in e if x["ev"] == "Call" and x["c"]["op"] == "GT")
        ev["r"]["rows"][0], ev["r"]["rows"][1] = ev["r"]["rows"][1], ev["r"]["rows"][0]
    def m_state(e):     # the ground truth written to one mesh edge by AssignGT
        ev = next(x for x in e if x["ev"] == "Call" and x["c"]["op"] == "AssignGT")
        k = next(i for i, b in enumerate(e[0]["raw"]["ext"]) if not b)
        ed = e[0]["raw"]["edges"][k][0] - 1
        ev["obs"]["egt"][ed][1] += 5
    def m_pure(e):      # a query that changes a cell pressure
        ev = next(x for x in e if x["ev"] == "Call" and x["c"]["op"] == "EdgeProps")
        ev["obs"]["cP"][0][1] += 1
    def m_press(e):     # pressure assigned to the wrong cell
        ev = next(x for x in e if x["ev"] == "Call" and x["c"]["op"] == "AssignPressures")
        ev["obs"]["cP"][0], ev["obs"]["cP"][1] = ev["obs"]["cP"][1], ev["obs"]["cP"][0]
    def m_cells(e):     # the lookup returns another interface
        ev = next(x for x in e if x["ev"] == "Call" and x["c"]["op"] == "ByCells" and x["r"]["raised"] == "")
        ev["r"]["j"] = ev["r"]["j"] % e[0]["raw"]["nb"] + 1

    rc = 0
    base = run_trace(evs, "recorded")
    print(f"selfcheck: recorded trace ({len(evs)} events): failing clauses {base}")
    if base != []:
        rc = 1
    for name, fn, want in (("tension table value", m_table, "REP.tensions.values"), ("gt table row order", m_order, "REP.gt.rows"),
                           ("mesh-edge gt after AssignGT", m_state, "REP.state.AssignGT"), ("query changes state", m_pure, "REP.query_pure"),
                           ("pressures swapped", m_press, "REP.state.AssignPressures"), ("lookup answer", m_cells, "REP.by_cells.found")):
        got = run_trace(mutate(fn), name)
        okk = got is not None and want in got
        print(f"selfcheck: corrupted {name:30s} -> {got}  expected {want}: {'rejected as expected' if okk else 'NOT DETECTED'}")
        if not okk:
            rc = 1
    return rc


if __name__ == "__main__":
    sys.path.insert(0, core.VERIF)
    sys.exit(selfcheck() if sys.argv[1:] == ["selfcheck"] else 2)

"""C06 — inference is invariant under similarity transforms and changes of units.

Two runs of the same abstract tissue under two embeddings (translation up to 1e4 sizes, rotation, reflection,
scale 1e-3..1e3); results are keyed by physical interface / cell and compared by TLC (Trace_Inference.tla
ComparePhys): tensions and pressures equal within a conditioning-derived tolerance, coefficient pairs rotate or
reflect with the tissue."""
import math
import random

from harness import core, infer

LEVEL = "exploration"


def specs_for(ctx):
    rng = random.Random(ctx.seed + 6)
    specs = []
    for i in range(ctx.pick(120, 3000)):
        r = rng.random()
        if r < 0.25:
            tissue = {"kind": "catalogue", "base": rng.choice(["hexflower", "hex33", "irregular", "brick33"]),
                      "sagitta": rng.choice([None, 0.1, 0.25]), "tseed": rng.randrange(10 ** 6)}
            ext = 10.0
        else:
            tissue = {"kind": "equilibrium", "ncells": rng.choice([6, 12, 20] if ctx.quick else [6, 12, 20, 40]),
                      "mobius": rng.choice([0.0, 0.6, 1.3]), "noise": rng.choice([0, 0, 0.1, 0.5])}
            ext = 1.0
        far = rng.random() < 0.2
        simA = {"theta": rng.uniform(0, 2 * math.pi), "scale": 1.0, "offset_sizes": rng.uniform(0, 1), "extent": ext}
        simB = {"theta": rng.choice([rng.uniform(0, 2 * math.pi), rng.choice([0, 1, 2, 3]) * math.pi / 2 + rng.choice([-1, 1]) * 2e-3]),
                "scale": 10 ** (rng.uniform(-8, -5) if rng.random() < 0.15 else rng.uniform(-3, 3)), "offset_sizes": rng.choice([1500, 2500, 3500, 9000]) if far else rng.choice([0, 1, 3, 30, 100]),
                "offset_angle": rng.uniform(0, 6.28), "extent": ext, "reflect": rng.random() < 0.4}
        specs.append({"pair": True, "pair_kind": "similarity", "tissue": tissue, "k": rng.choice([1, 2, 4, 8]),
                      "seed": rng.randrange(10 ** 9), "want": ["C06"], "runA": {"sim": simA}, "runB": {"sim": simB},
                      "build": {"limit": "inf", "fit": rng.choice(["dlite", "taubinSVD"])}, "solve": {"method": "default"},
                      "pressure": True, "require_conditioned": tissue["kind"] == "equilibrium",
                      # a fifth of the pairs transform the live objects in place between two analyses instead of rebuilding
                      "inplace": (not simB["reflect"]) and rng.random() < 0.4})
    # dynamic inference with adimensional velocities: the same series in two unit systems (time x alpha, length x beta)
    for i in range(ctx.pick(40, 1500)):
        nframes = rng.choice([2, 3, 4])
        tissue = {"kind": "equilibrium", "ncells": rng.choice([6, 10, 16]), "mobius": rng.choice([0.0, 0.8])} if rng.random() < 0.7 else \
                 {"kind": "catalogue", "base": rng.choice(["hex33", "irregular"]), "sagitta": rng.choice([None, 0.15]), "tseed": rng.randrange(10 ** 6)}
        alpha = 10 ** rng.uniform(-3, 3) if rng.random() < 0.7 else 1.0
        beta = 10 ** rng.uniform(-3, 3) if (alpha == 1.0 or rng.random() < 0.3) else 1.0
        if rng.random() < 0.25:
            # extreme but ordinary unit changes (seconds -> microseconds, microns -> metres): junction speeds of 1e-7..1e-12
            alpha, beta = 10 ** rng.uniform(3, 6), 10 ** rng.uniform(-6, -3)
        specs.append({"pair": True, "pair_kind": "units", "dynamic": True, "units": [alpha, beta], "tissue": tissue,
                      "k": rng.choice([2, 4, 8]), "seed": rng.randrange(10 ** 9), "want": ["C06"],
                      "nframes": nframes, "when": rng.randrange(nframes), "step_frac": rng.choice([0.05, 0.2]),
                      "mobility": 10 ** rng.uniform(-3, 0),     # slow tissues: junction speeds down to 1e-3 (x 1/alpha) in the data's units
                      "sim": {"theta": rng.uniform(0, 2 * math.pi), "scale": 1.0, "offset_sizes": rng.uniform(0, 1),
                              "extent": 1.0 if tissue["kind"] == "equilibrium" else 10.0},
                      "build": {"fit": "taubinSVD"}, "solve": {"method": "default", "adimensional": True}})
    return specs


def run(ctx):
    specs = specs_for(ctx)
    verdicts, payloads = infer.run_specs(ctx, specs, prefixes=["C06"])
    for cid, vjs in verdicts.items():
        hits = set(h for vj in vjs for h in vj.get("hits", []))
        ctx.add_case(payloads[cid], nontrivial="C06.clean_case" in hits)
    ctx.judge(verdicts, payloads)
    ctx.rule = ("pairs of runs of one abstract tissue (catalogue line/arc, Voronoi/Moebius equilibrium and noisy) under two embeddings: "
                "rotation (random / near-axis), reflection, scale 1e-3..1e3, translation 0..1e4 sizes; non-trivial = both true systems "
                "well conditioned and no known defect excuses the pair, so tensions, pressures and coefficient pairs were compared")
    ctx.assumptions += ["tolerance on tensions = sum of the two conditioning-derived tolerances (true system of each embedding) + 2e-4; "
                        "pressures 10x that + 2e-3; coefficient pairs 2e-2 after undoing each run's rotation/reflection"]


def replay(ctx, payload):
    verdicts, payloads = infer.run_specs(ctx, [payload["input"]], prefixes=["C06"])
    ctx.add_case(payload["input"])
    ctx.add_case({"replay": True})
    ctx.judge(verdicts, payloads)

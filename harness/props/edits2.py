"""edits2 (extension check) - public editing behaviour beyond the listed properties:
ForSys.remove_cell / ForSys.remove_outermost_edges (forsys.py), Frame.filter_edges (frames.py),
wkt.create_wkt / create_lattice round trip and wkt.reduce_amount (wkt.py).

Spec -> code: MC_CellRemoval (CellRemoval.tla) enumerates, per catalogue tissue x interior points per edge, every
  remove_cell(t, c) and remove_outermost_edges(t, 1) (is_border flag families) in a two-frame session and every
  sequence of two of them; TLC checks the transcription I against the declarative D (every deviation must be an
  instance of a known-finding matcher; the proposed repair satisfies D; a frame accepted by D is SubTissue.tla's
  SubMesh of the remaining cells) and emits every behaviour; each behaviour is replayed on a real ForSys object built
  from fresh Frames and judged by TLC (Trace_Edits2) against the same D.  MC_CellRemoval_guard is the vacuity guard
  (I satisfies D: expected to be violated; TLC's counterexample is frame_number = 1).
Code -> spec: random Voronoi sessions (2-3 frames, random removals), Frame.filter_edges, the WKT round trip (raw and
  with rings closed by the harness) and reduce_amount on generated tissues; every call is one event of Trace_Edits2.

Readings the oracle commits to (least demanding; predicates in CellRemoval.tla / Trace_Edits2.tla):
  * Removal is stated on labels (vertex ids, cell ids): the named frame afterwards holds exactly the cells that must
    remain with their cycles (up to rotation / direction), exactly the vertices and mesh edges lying on them, it is
    Consistent, its interfaces are the decomposition (Interfaces.tla Paths) of that sub-tissue and - when the mesh is
    that sub-tissue - Interfaces.tla's whole C08Verdict holds for the rebuilt Frame; all other frames project to
    identical views; nothing is raised for an existing frame number / cell id.
  * remove_outermost_edges(t, 1): the cells that remain are those not flagged is_border in frame t at the time of the
    call (E2.border_layer); the mesh clauses are judged for the cells that actually remain.
  * An edit applied to a session in which an earlier edit already failed D is a rejected input (reported once).
  * filter_edges: the mesh topology, Consistent and the interface vertex sequences are unchanged; a vertex none of
    whose interfaces has >= 5 points (the Savitzky-Golay window) keeps its exact position.  Nothing is demanded of the
    positions on longer interfaces: the filter (window 5, order 3, mode interp) moves END POINTS too (junctions are
    rewritten by every long interface they end, the last one listed wins), and it always filters the coordinates cached
    when the BigEdge was built (idempotent, not cumulative).
  * WKT round trip: vertex (x, y) comes back at (x, 1024 - y) (compared in fixed point, 2e-6); same cells = the same set
    of vertex cycles up to rotation / direction; every vertex of the result is one input vertex, no input vertex twice.
    Inputs whose vertices are closer than 1e-4 or outside |coordinate| < 1000 are rejected.
  * reduce_amount: one-sided - the cells stay, every cycle is the old cycle without the removed vertices, a removed vertex
    had two mesh edges, fewer than three cells and is collinear with its two neighbours (fixed-point cross product);
    that NOT every such vertex is removed (the function iterates a list it is shrinking) is not a violation.

Python only builds, calls, projects and relays TLC's verdicts."""
import json
import math
import os
import random

from harness import core, project, build, tissue
from harness.gen import catalogue, voronoi

LEVEL = "model_checking"
PID = "edits2"


# ---- sessions ---------------------------------------------------------------------------------------
def _desc_catalogue(base_name, k):
    b = catalogue.load(base_name)
    pos = {i + 1: tuple(p) for i, p in enumerate(b["pos"])}
    desc, _ = tissue.instance_desc(pos, b["cells"], k, tissue.Similarity(0.0, 3.0, 50.0, 60.0))
    desc["C"] = [[cid + 1, cyc] for cid, cyc in desc["C"]]       # cell labels 1..nc, as in the model
    return desc


def _desc_voronoi(seed):
    rng = random.Random(seed)
    pos, cells, _, _ = voronoi.random_tissue(rng, rng.choice([8, 12, 18]))
    keep = [c for c in cells if rng.random() < rng.choice([1.0, 0.85])] or cells[:1]
    k = rng.choice([0, 0, 1, 2, 4])
    desc, _ = tissue.instance_desc(pos, keep, k, tissue.Similarity.random(rng), id_offset=rng.choice([0, 3]),
                                   id_stride=rng.choice([1, 2]))
    desc["C"] = [[cid + 1, cyc] for cid, cyc in desc["C"]]
    return desc, rng


def build_session(desc, nframes):
    import forsys as fs
    frames = {}
    for t in range(nframes):
        v, e, c = build.build_mesh(desc)                         # fresh objects per frame
        frames[t] = fs.frames.Frame(t, v, e, c, time=float(t))
        del v, e, c
    return fs.ForSys(frames)


def _set_flags(S, bord):
    for u, flagged in enumerate(bord):
        want = set(flagged)
        for cid in list(S.frames[u].cells.keys()):
            S.frames[u].cells[cid].is_border = cid in want


def _read_flags(S):
    return [[int(cid) for cid in S.frames[u].cells.keys() if S.frames[u].cells[cid].is_border]
            for u in sorted(S.frames.keys())]


def view(fr):
    m, vi, ei, ci = project.project_mesh(fr.vertices, fr.edges, fr.cells)
    try:
        f = project.project_frame(fr, vi, ei, ci)
    except Exception as exc:
        f = {"broken": type(exc).__name__}
    obe = [[int(b) + 1 for b in fr.vertices[k].own_big_edges] for k in fr.vertices.keys()]
    return {"m": m, "f": f, "obe": obe}


def views(S):
    return [view(S.frames[u]) for u in sorted(S.frames.keys())]


def apply_op(S, op):
    """returns (raised, flags at call time)"""
    raised, flags = "", []
    if op["op"] == "RO":
        _set_flags(S, op["bord"])
        flags = _read_flags(S)
    try:
        if op["op"] == "RC":
            S.remove_cell(int(op["t"]), int(op["c"]))
        else:
            S.remove_outermost_edges(int(op["t"]), 1)
    except Exception as exc:
        raised = type(exc).__name__
    return raised, flags


def op_event(case, depth, op, raised, flags, S):
    ev = {"case": case, "depth": depth, "frame": int(op["t"]), "raised": raised, "frames": views(S)}
    if op["op"] == "RC":
        ev.update({"ev": "RemoveCell", "cell": int(op["c"])})
    else:
        ev.update({"ev": "RemoveOutermost", "flags": flags})
    return ev


def session_tree_job(args):
    """one case = one session description + a tree of behaviours: `first` op, then every `second` after it"""
    case, desc, nframes, first, seconds = args
    S = build_session(desc, nframes)
    evs = [{"case": case, "ev": "Session", "depth": 0, "raised": "", "frames": views(S)}]
    raised, flags = apply_op(S, first)
    evs.append(op_event(case, 0, first, raised, flags, S))
    del S
    for op in seconds:
        S = build_session(desc, nframes)
        apply_op(S, first)                                       # deterministic: the state judged above
        raised, flags = apply_op(S, op)
        evs.append(op_event(case, 1, op, raised, flags, S))
        del S
    return case, evs


def session_path_job(args):
    """one case = one session + one path of edits (random sessions)"""
    case, seed = args
    desc, rng = _desc_voronoi(seed)
    nframes = rng.choice([2, 2, 3])
    S = build_session(desc, nframes)
    evs = [{"case": case, "ev": "Session", "depth": 0, "raised": "", "frames": views(S)}]
    zero_only = rng.random() < 0.6       # mostly frame 0 (where the code can be right), sometimes any frame
    for d in range(rng.choice([1, 2, 3])):
        t = 0 if zero_only else rng.randrange(nframes)
        ids = sorted(S.frames[t].cells.keys())
        if not ids:
            break
        if rng.random() < 0.7:
            op = {"op": "RC", "t": t, "c": rng.choice(ids)}
        else:
            bord = []
            for u in range(nframes):
                cs = S.frames[u].cells
                outer = [cid for cid in cs.keys() if any(len(v.ownCells) == 1 for v in cs[cid].vertices)]
                bord.append(outer if rng.random() < 0.7 else [c for c in outer if rng.random() < 0.5])
            op = {"op": "RO", "t": t, "bord": bord}
        raised, flags = apply_op(S, op)
        evs.append(op_event(case, d, op, raised, flags, S))
        if raised:
            break
    del S
    return case, evs


# ---- single-call cases --------------------------------------------------------------------------------
def gen_desc(seed, max_scale, translate, ks, arcs):
    rng = random.Random(seed)
    if rng.random() < 0.55:
        name = rng.choice(["hexflower", "brick33", "squares33", "hex33", "irregular"])
        b = catalogue.load(name)
        pos = {i + 1: tuple(p) for i, p in enumerate(b["pos"])}
        cells = [c for c in b["cells"] if rng.random() < rng.choice([1.0, 0.8, 0.6])] or b["cells"][:1]
        scale = rng.uniform(0.4, 1.0) * max_scale / 4.0
        src = name
    else:
        pos, cells, _, _ = voronoi.random_tissue(rng, rng.choice([6, 10, 16]))
        cells = [c for c in cells if rng.random() < rng.choice([1.0, 0.8])] or cells[:1]
        scale = rng.uniform(0.5, 1.0) * max_scale * 4.0
        src = "voronoi"
    sim = tissue.Similarity(rng.uniform(0, 2 * math.pi) if rng.random() < 0.7 else 0.0, scale, translate[0], translate[1],
                            rng.random() < 0.3)
    k = rng.choice(ks)
    bulge = None
    if arcs and k >= 1 and rng.random() < 0.6:
        edges, _ = tissue.base_edges(cells)
        bulge = {e: rng.choice([-0.15, -0.08, 0.08, 0.15]) for e in edges if rng.random() < 0.5}
    desc, _ = tissue.instance_desc(pos, cells, k, sim, bulge=bulge)
    return desc, rng, f"{src}:k{k}:arcs{bool(bulge)}"


def _xids(fr_pos_before, fr_pos_after):
    table, out = {}, []
    for plist in (fr_pos_before, fr_pos_after):
        out.append([table.setdefault(p, len(table) + 1) for p in plist])
    return out


def filter_job(args):
    case, seed = args
    import forsys as fs
    desc, rng, src = gen_desc(seed, 12.0, (400.0, 500.0), [0, 1, 2, 3, 3, 4, 6, 9], arcs=True)
    method = "SG" if rng.random() < 0.85 else "none"
    v, e, c = build.build_mesh(desc)
    fr = fs.frames.Frame(0, v, e, c, time=0.0)
    del e, c
    before = view(fr)
    pb = [(float(v[k].x), float(v[k].y)) for k in v.keys()]
    raised = ""
    try:
        fr.filter_edges(method)
    except Exception as exc:
        raised = type(exc).__name__
    after = view(fr)
    pa = [(float(fr.vertices[k].x), float(fr.vertices[k].y)) for k in fr.vertices.keys()]
    xb, xa = _xids(pb, pa)
    del fr, v
    return case, [{"case": case, "ev": "FilterEdges", "method": method, "raised": raised, "before": before,
                   "after": after, "xid_b": xb, "xid_a": xa, "src": src}]


def wkt_job(args):
    case, seed, closed = args
    import forsys as fs
    desc, rng, src = gen_desc(seed, 16.0, (400.0, 500.0), [0, 1, 2, 3], arcs=True)
    v0, e0, c0 = build.build_mesh(desc)
    before, _, _, _ = project.project_mesh(v0, e0, c0, with_pos=True)
    raised, after = "", {}
    try:
        rows = fs.wkt.create_wkt(c0).splitlines()
        del v0, e0, c0
        if closed:      # WKT proper: a ring repeats its first point
            def close(r):
                pts = [p.strip() for p in r.split("((")[1][:-2].split(",")]
                return r if pts[0] == pts[-1] else r[:-2] + ", " + pts[0] + "))"
            rows = [close(r) for r in rows]
        v, e, c = fs.wkt.create_lattice(rows)
        after, _, _, _ = project.project_mesh(v, e, c, with_pos=True)
        del v, e, c
    except Exception as exc:
        raised = type(exc).__name__
    return case, [{"case": case, "ev": "WktRoundTrip", "closed": bool(closed), "raised": raised, "before": before,
                   "after": after, "src": src}]


def reduce_job(args):
    case, seed = args
    import forsys as fs
    desc, rng, src = gen_desc(seed, 4.0, (40.0, 50.0), [0, 1, 2, 3], arcs=True)
    v, e, c = build.build_mesh(desc)
    before, _, _, _ = project.project_mesh(v, e, c, with_pos=True)
    raised, after = "", {}
    try:
        v, e, c = fs.wkt.reduce_amount(v, e, c)
        after, _, _, _ = project.project_mesh(v, e, c, with_pos=True)
    except Exception as exc:
        raised = type(exc).__name__
    del v, e, c
    return case, [{"case": case, "ev": "ReduceAmount", "raised": raised, "before": before, "after": after, "src": src}]


JOBS = {"tree": session_tree_job, "path": session_path_job, "filter": filter_job, "wkt": wkt_job, "reduce": reduce_job}


def _dispatch(job):
    kind, args = job
    return JOBS[kind](args)


# ---- model vs code --------------------------------------------------------------------------------------
def _opkey(op):
    return json.dumps(op, sort_keys=True)


def compare(ctx, verdicts, payloads):
    """the model's verdict (MC_CellRemoval) on every behaviour against TLC's verdict on the real objects"""
    n = 0
    for cid, p in sorted(payloads.items()):
        if p.get("kind") != "tree" or cid not in verdicts:
            continue
        vjs = verdicts[cid]
        rows = [(p["first"], p["model_first"], vjs[1])] + \
               [(op, mv, vj) for (op, mv), vj in zip(zip(p["seconds"], p["model_seconds"]), vjs[2:])]
        for op, mv, vj in rows:
            code = sorted(set(vj["fails"]) | {k for k in vj.get("kf", []) if not k.startswith("KF_StaleOwnBigEdges")})
            model = sorted(set(mv["fails"]) | set(mv["kf"]))
            if vj.get("rejected") or code == model:
                continue
            n += 1
            if n <= 12:
                ctx.note(f"model_drift {p['base']} k={p['k']} first={p['first']} op={op}: model {model} / code {code} (case {cid})")
    ctx.extra["model_code_disagreements"] = n
    kfc = {}
    for vjs in verdicts.values():
        for vj in vjs:
            for kf in vj.get("kf", []):
                kfc[kf] = kfc.get(kf, 0) + 1
    ctx.extra["kf_instances"] = dict(sorted(kfc.items()))
    rej = {}
    for cid, vjs in verdicts.items():
        for vj in vjs:
            if vj.get("rejected"):
                key = f"{payloads[cid]['kind']}:{vj['ev']}"
                rej[key] = rej.get(key, 0) + 1
    ctx.extra["rejected_by_event"] = dict(sorted(rej.items()))


# ---- run --------------------------------------------------------------------------------------------------
def run(ctx):
    payloads, jobs = {}, []
    case = 0

    def new_case(kind, args, payload):
        nonlocal case
        case += 1
        payloads[case] = dict(payload, kind=kind, case=case)
        jobs.append((kind, (case,) + tuple(args)))
        return case

    # spec -> code
    # quick: the repaired function is checked on hexflower only (the _light configurations leave RepairedSatisfiesD out)
    bases = ctx.pick([("hexflower", "MC_CellRemoval.cfg"), ("squares33", "MC_CellRemoval_light.cfg"),
                      ("brick33", "MC_CellRemoval_k0_light.cfg")],
                     [("hexflower", "MC_CellRemoval.cfg"), ("squares33", "MC_CellRemoval.cfg"), ("brick33", "MC_CellRemoval.cfg"),
                      ("hex33", "MC_CellRemoval.cfg"), ("irregular", "MC_CellRemoval_k0.cfg")])
    from concurrent.futures import ThreadPoolExecutor

    def mc_one(bc):
        b, cfg = bc
        return core.run_tlc("MC_CellRemoval", cfg, workers=max(2, core.NCPU // len(bases)), timeout=3000, heap="3g",
                            env={"BASE_FILE": os.path.join(core.VERIF, "models", "catalogue", b + ".json")})

    def guard():
        return core.run_tlc("MC_CellRemoval", "MC_CellRemoval_guard.cfg", workers=2, timeout=600, heap="1g",
                            env={"BASE_FILE": os.path.join(core.VERIF, "models", "catalogue", "hexflower.json")})
    with ThreadPoolExecutor(max_workers=len(bases) + 1) as ex:
        gfut = ex.submit(guard)
        results = list(ex.map(mc_one, bases))
        g = gfut.result()
    for (b, cfg), res in zip(bases, results):      # the bookkeeping of Ctx.mc, done after the parallel runs
        ctx.states += res.distinct
        ctx.transitions += res.generated
        ctx.mc_jobs.append({"module": "MC_CellRemoval", "cfg": cfg, "base": b, "distinct": res.distinct,
                            "generated": res.generated, "depth": res.depth, "wall_s": round(res.wall, 1),
                            "completed": res.completed})
        import sys
        print(f"  [mc] MC_CellRemoval/{cfg} {b}: {res.distinct} distinct states, {res.wall:.1f}s", file=sys.stderr)
        if not res.completed:
            raise core.MachineryFailure(f"MC job MC_CellRemoval/{cfg} on {b} did not complete cleanly:\n{res.error_text()}")
    ctx.mc_jobs.append({"module": "MC_CellRemoval", "cfg": "MC_CellRemoval_guard.cfg", "base": "hexflower",
                        "distinct": g.distinct, "generated": g.generated, "depth": g.depth, "wall_s": round(g.wall, 1),
                        "completed": g.completed, "expected_violation": "ISatisfiesD"})
    if "ISatisfiesD" not in g.invariant_violated:
        raise core.MachineryFailure("vacuity guard: MC_CellRemoval_guard did not find the design-level counterexample "
                                    "(I satisfies D everywhere?)\n" + g.error_text())
    m = [l for l in g.out.splitlines() if l.startswith("/\\ hist = ")]
    ctx.extra["design_counterexample"] = {"invariant": "ISatisfiesD", "violated": True, "last_state_hist": m[-1][:300] if m else ""}
    n_beh = 0
    for (b, cfg), res in zip(bases, results):
        groups = {}
        for inst in res.printed:
            h = inst["hist"]
            key = (inst["k"], _opkey(h[0]))
            g_ = groups.setdefault(key, {"first": h[0], "k": inst["k"], "model_first": None, "seconds": [], "model_seconds": []})
            mv = {"fails": sorted(inst["res"][-1]["fails"]), "kf": sorted(inst["res"][-1]["kf"]), "err": inst["res"][-1]["err"]}
            if len(h) == 1:
                g_["model_first"] = mv
            else:
                g_["seconds"].append(h[1])
                g_["model_seconds"].append(mv)
        for key in sorted(groups):
            g_ = groups[key]
            if g_["model_first"] is None:
                raise core.MachineryFailure(f"MC_CellRemoval emitted a continuation without its prefix: {key}")
            desc = _desc_catalogue(b, g_["k"])
            cid = new_case("tree", (desc, 2, g_["first"], g_["seconds"]),
                           {"base": b, "k": g_["k"], "first": g_["first"], "seconds": g_["seconds"],
                            "model_first": g_["model_first"], "model_seconds": g_["model_seconds"]})
            for j in range(1 + len(g_["seconds"])):
                n_beh += 1
                ctx.add_case({"base": b, "k": g_["k"], "first": g_["first"], "second": g_["seconds"][j - 1] if j else None},
                             sample=len(ctx.samples) < 1)
    # code -> spec
    for i in range(ctx.pick(24, 300)):
        s = ctx.seed * 7919 + i
        new_case("path", (s,), {"seed": s})
        ctx.add_case({"kind": "path", "seed": s}, sample=False)
    for i in range(ctx.pick(40, 400)):
        s = ctx.seed * 104729 + i
        new_case("filter", (s,), {"seed": s})
        ctx.add_case({"kind": "filter", "seed": s}, sample=len(ctx.samples) < 2)
    for i in range(ctx.pick(30, 300)):
        s = ctx.seed * 15485863 + i
        for closed in (False, True):
            new_case("wkt", (s, closed), {"seed": s, "closed": closed})
            ctx.add_case({"kind": "wkt", "seed": s, "closed": closed}, sample=False)
    for i in range(ctx.pick(40, 400)):
        s = ctx.seed * 32452843 + i
        new_case("reduce", (s,), {"seed": s})
        ctx.add_case({"kind": "reduce", "seed": s}, sample=len(ctx.samples) < 3)
    out = core.parallel_map(_dispatch, jobs, chunksize=2)
    verdicts = ctx.validate("Trace_Edits2", out, heap="2g", timeout=3000)
    compare(ctx, verdicts, payloads)
    slim = {}
    for cid, p in payloads.items():
        slim[cid] = p if p["kind"] != "tree" else {k: p[k] for k in ("kind", "case", "base", "k", "first", "seconds",
                                                                     "model_first", "model_seconds")}
    # unmatched failures first (the report prints the first 40 violations), then the known-finding instances
    ctx.judge({c: [dict(vj, kf=[]) for vj in vjs] for c, vjs in verdicts.items()}, slim)
    ctx.judge({c: [dict(vj, fails=[], hits=[], rejected=False) for vj in vjs] for c, vjs in verdicts.items()}, slim)
    ctx.rule = ("TLC (MC_CellRemoval) enumerates per catalogue tissue x interior points per edge every remove_cell(t, c) and "
                "remove_outermost_edges(t, 1) (is_border flag families) in a two-frame session and every sequence of two; each "
                "behaviour is replayed on a real ForSys built from fresh Frames and judged by TLC (Trace_Edits2) against "
                "CellRemoval.tla's D. Plus random Voronoi sessions (2-3 frames, paths of 1-3 removals), Frame.filter_edges, WKT "
                "round trips (raw / rings closed) and reduce_amount on generated catalogue sub-tissues and Voronoi tissues "
                "(straight and arc-shaped interfaces, 0-9 interior points).")
    ctx.exhaustive = True
    ctx.extra["exhaustive_scope"] = {"bases": [list(b) for b in bases], "behaviours_replayed": n_beh, "frames": 2, "max_depth": 2}
    ctx.assumptions += ["TLC/SANY and the CommunityModules Json reader are trusted",
                        "projection (harness/project.py, props/edits2.py view) copies the implementation's state faithfully",
                        "__del__ runs when the last reference is dropped (CPython refcounting); the harness keeps no "
                        "reference to SmallEdge / Cell objects",
                        "sessions of more than 3 frames, sequences longer than 3 edits and remove_outermost_edges with "
                        "layers # 1 are not explored"]


def replay(ctx, payload):
    inp = payload["input"]
    cid = payload["case"]
    kind = inp["kind"]
    if kind == "tree":
        job = ("tree", (cid, _desc_catalogue(inp["base"], inp["k"]), 2, inp["first"], inp["seconds"]))
    elif kind == "wkt":
        job = ("wkt", (cid, inp["seed"], inp["closed"]))
    else:
        job = (kind, (cid, inp["seed"]))
    out = core.parallel_map(_dispatch, [job])
    ctx.add_case(inp)
    v = ctx.validate("Trace_Edits2", out, heap="2g")
    ctx.judge(v, {cid: inp})

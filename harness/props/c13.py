"""C13 — velocities are finite differences of tracked vertices over real elapsed time.

Spec -> code: TLC (MC_Tracking with WITHVEL) explores integer two-frame series (junction sites x displacement
stencil x all numberings of both frames x guesses x unequal integer time stamps) and checks in exact rational
arithmetic that the transcription of calculate_velocity / set_velocity_matrix (forward difference, backward at
the last frame, zero without partner, rows row(j), row(j)+1, all zero in static mode) satisfies the declarative
clauses; sampled leaves are rebuilt as real Frames (necklace mesh, gen/series.py) and run through
ForSys/TimeSeries.calculate_velocity.
Code -> spec: those and random multi-frame series (2..6 frames, arbitrary increasing unequal stamps, independent
renumbering per frame, cm on/off, vertices that disappear, displacement fields inside and outside the tracking
bounds) are logged — calculate_velocity for every tracked vertex and frame, set_velocity_matrix return values
with map_vid_to_row for b_matrix in {none, velocity} x adimensional x normalisation, get_system_velocity_per_frame —
and judged by TLC (Trace_Tracking) in fixed point with explicit tolerances."""
from harness import core
from harness.props import c12

LEVEL = "model_checking"
PID = "C13"
PREFIX = "C13."
EVENTS = ("NewSession", "Velocity", "RHS", "SysVel")
WITH_VEL = True


def _strip_c12(verdicts):
    """the session event is C12's business; for C13 it only says whether there is a session at all"""
    for vjs in verdicts.values():
        for vj in vjs:
            if vj["ev"] == "NewSession":
                vj["rejected"] = False
                vj["kf"] = []


def run(ctx):
    jobs = ctx.pick([("MC_Tracking", "MC_Tracking_c13.cfg")], [("MC_Tracking", "MC_Tracking_c13_thorough.cfg")])
    v = c12.execute(ctx, PID, PREFIX, EVENTS, WITH_VEL, jobs, ctx.pick(200, 5000), ctx.pick(800, 20000), post=_strip_c12)
    ctx.rule = ("TLC enumerates integer two-frame series (sites x stencil x all numberings x guesses x time stamps) and checks "
                "I => D for velocities and right-hand sides in exact rational arithmetic; sampled leaves are rebuilt as real "
                "Frames and run through calculate_velocity; plus random series with build_force_matrix / "
                "set_velocity_matrix / get_system_velocity_per_frame. Non-trivial (MC) = some vertex whose nearest neighbour "
                "in the next frame does not carry the same number; random series: independent renumbering and unequal "
                "non-unit time steps (always non-trivial).")
    ctx.exhaustive = True
    ctx.assumptions += ["TLC/SANY and the CommunityModules Json reader are trusted",
                        "tracked partner = the vertex designated by the session's own correspondence (ForSys.mesh.mapping), "
                        "forward for t < last, the unique pre-image under the last step's map at the last frame",
                        "positions are the frames' vertex coordinates after construction (cm=True shifts them in place)",
                        "a junction's own x-/y-equations are rows map_vid_to_row[j], map_vid_to_row[j]+1 of the force matrix",
                        "mean junction speed = mean over the used junctions (keys of map_vid_to_row) of the Euclidean norm; "
                        "frames whose mean speed is ~0 or whose step was skipped as DifferentTissue are rejected input",
                        "numeric clauses are checked in fixed point (Q=1e6) with tolerances FdTol/BTol of Tracking.tla / "
                        "Trace_Tracking.tla (>= 10x the quantisation error)"]


def replay(ctx, payload):
    inp = payload["input"]
    c, evs, err = c12._job((1, inp, WITH_VEL))
    if evs is None:
        raise core.MachineryFailure(err)
    ctx.add_case(inp)
    v = ctx.validate(c12.TRACE, [(c, evs)])
    c12.relay(ctx, v, PREFIX, EVENTS)
    _strip_c12(v)
    ctx.judge(v, {c: inp})

"""C02 — force-balance equations use outward unit tangents at the right junctions.

Spec: Equations.tla (ExpectedJunctions, ColumnsOK, CoefBad, ZerosOK + known-finding matchers), judged by
Trace_Inference.tla on the BuildForce event of every case. Cases: every sub-tissue of the catalogue tissues
emitted by TLC (MC_Interfaces enumeration) with straight and circular-arc interfaces at exact axis alignment,
at a fraction of a degree from it and at random angles; random Voronoi / Moebius tissues."""
import math
import os
import random

from harness import core, infer

LEVEL = "model_checking"
ANGLES = [0.0, 1e-4, -2e-3, math.pi / 2 + 5e-3]


def _with_prebuild(rng, build):
    """in a third of the cases the judged build is preceded by a build with OTHER arguments on the same object
    (same limit and fit but the opposite ignore_four, or another limit / fit), and in some the metadata argument is
    omitted altogether: the equations must be those of the last call's arguments"""
    r = rng.random()
    if r < 0.2:
        build["prebuild"] = {"limit": build["limit"], "fit": build["fit"], "ignore_four": not build["ignore_four"]}
    elif r < 0.33:
        build["prebuild"] = {"limit": rng.choice(["pi", "inf", 2.4]), "fit": rng.choice(["dlite", "taubinSVD"]), "ignore_four": None}
    build["no_metadata"] = rng.random() < 0.3
    return build


def specs_for(ctx):
    rng = random.Random(ctx.seed)
    specs = []
    bases = ctx.pick(["hexflower", "squares33", "brick33", "lens5", "fan5"], ["hexflower", "squares33", "brick33", "lens5", "fan5", "hex33", "irregular"])
    stride = ctx.pick({"hexflower": 1, "squares33": 4, "brick33": 4, "lens5": 1, "fan5": 6}, {"hexflower": 1, "squares33": 1, "brick33": 1, "lens5": 1, "fan5": 1, "hex33": 1, "irregular": 64})
    cfg = ctx.pick("MC_Interfaces_k13.cfg", "MC_Interfaces_k0137.cfg")
    ninst = 0
    for b in bases:
        res = ctx.mc("MC_Interfaces", cfg, env={"BASE_FILE": os.path.join(core.VERIF, "models", "catalogue", b + ".json")}, timeout=3000)
        insts = [i for i in res.printed if i["ninternal"] > 0]
        insts = insts[rng.randrange(stride[b])::stride[b]]
        for inst in insts:
            ninst += 1
            theta = rng.choice(ANGLES + [rng.uniform(0, 2 * math.pi)] * 3)
            specs.append({"tissue": {"kind": "catalogue", "base": b, "cells": inst["cells"],
                                     "sagitta": rng.choice([None, None, 0.08, 0.2]), "tseed": rng.randrange(10 ** 6)},
                          "k": inst["k"], "seed": rng.randrange(10 ** 9), "want": ["C02"],
                          "sim": {"theta": theta, "scale": 10 ** (rng.uniform(-8, -5) if rng.random() < 0.15 else rng.uniform(-2, 2)), "offset_sizes": rng.choice([0, 0, 2, 30, 1500, 3500]),
                                  "extent": 10.0, "reflect": rng.random() < 0.2},
                          "build": _with_prebuild(rng, {"limit": "inf", "fit": rng.choice(["dlite", "taubinSVD"]),
                                                         "ignore_four": b in ("squares33", "fan5") and rng.random() < 0.5}),
                          "ids": {"offset": rng.choice([0, 3, 50]), "stride": rng.choice([1, 2]), "vperm": rng.random() < 0.5},
                          "nosolve": True})
    for i in range(ctx.pick(80, 800)):
        k = rng.choice([0, 1, 2, 3, 5, 8, 15])
        specs.append({"tissue": {"kind": "equilibrium", "ncells": rng.choice([6, 12, 25, 45]),
                                 "mobius": rng.choice([0.0, 0.5, 1.0, 1.6])},
                      "k": k, "seed": rng.randrange(10 ** 9), "want": ["C02"],
                      "sim": {"random": True, "near_axis": rng.random() < 0.3, "big": rng.random() < 0.15},
                      "build": _with_prebuild(rng, {"limit": rng.choice(["pi", "inf"]), "fit": rng.choice(["dlite", "taubinSVD"]),
                                                     "ignore_four": rng.random() < 0.2}),
                      "resample": rng.choice([None, None, 3, 6]) if k >= 2 else None,
                      "ids": {"offset": rng.choice([0, 11]), "stride": rng.choice([1, 3]), "shuffle": rng.random() < 0.5, "vperm": rng.random() < 0.5},
                      "nosolve": True})
    return specs, ninst


def run(ctx):
    specs, ninst = specs_for(ctx)
    verdicts, payloads = infer.run_specs(ctx, specs, prefixes=["C02", "BUILD"])
    for cid, vjs in verdicts.items():
        hits = set(h for vj in vjs for h in vj.get("hits", []))
        ctx.add_case(payloads[cid], nontrivial="C02.coefficients" in hits)
    ctx.judge(verdicts, payloads)
    ctx.rule = ("catalogue: every sub-tissue with an internal interface enumerated by TLC (MC_Interfaces), sampled with a "
                "stride in the quick tier, x interior points, straight / arc interfaces, axis-aligned, near-axis and random "
                "rotations, both circle fits, ignore_four; random Voronoi/Moebius tissues. Non-trivial = at least one "
                "junction with equations.")
    ctx.exhaustive = False
    ctx.extra["catalogue_instances"] = ninst
    ctx.assumptions += ["true tangents come from the generator's closed forms (gen/cattissue.py, gen/equilibrium.py); TLC checks "
                        "their self-consistency (unit length, embedded = rotation * model)",
                        "tolerance 1e-2 per tangent component (DESIGN §6.2)"]


def replay(ctx, payload):
    verdicts, payloads = infer.run_specs(ctx, [payload["input"]], prefixes=["C02", "BUILD"])
    ctx.add_case(payload["input"])
    ctx.add_case({"replay": True})
    ctx.judge(verdicts, payloads)

"""./check suite — the repository's own test-suite re-run under the external tracing plug-in (harness/verif_tracing.py);
every distinct mesh / frame the tests construct is validated by TLC against Mesh.tla `Consistent` (C09) and the C08
verdict (Trace_Mesh.tla). Not a listed property by itself: an additional trace source for C08 and C09 (DESIGN §3.3)."""
import glob
import json
import os
import shutil
import subprocess

from harness import core

LEVEL = "exploration"


def collect(ctx, n_workers=4, timeout=3000):
    tdir = os.path.join(ctx.rundir, "suite_traces")
    shutil.rmtree(tdir, ignore_errors=True)
    os.makedirs(tdir)
    env = dict(os.environ, PYTHONPATH=f"{core.REPO}:{core.VERIF}:{os.path.join(core.VERIF, 'harness')}", VERIF_TRACE_DIR=tdir)
    cmd = ["/venv/bin/python", "-m", "pytest", "-q", "-p", "no:cacheprovider", "-p", "verif_tracing", "-n", str(n_workers), "--timeout=900"]
    p = subprocess.run(cmd, cwd=core.REPO, env=env, stdout=subprocess.PIPE, stderr=subprocess.STDOUT, text=True, timeout=timeout)
    tail = (p.stdout.strip().splitlines() or ["no output"])[-1]
    cases = {}
    errors = []
    for f in sorted(glob.glob(os.path.join(tdir, "*.ndjson"))):
        for line in open(f):
            e = json.loads(line)
            if e["ev"] == "TraceError":
                errors.append(e["what"])
                continue
            cases.setdefault(e["case"], [])
            # the same mesh can be emitted by two xdist workers: keep the first complete copy
            if not any(x["ev"] == e["ev"] for x in cases[e["case"]]):
                cases[e["case"]].append(e)
    shutil.rmtree(tdir, ignore_errors=True)
    return cases, tail, errors


def run(ctx):
    cases, tail, errors = collect(ctx)
    ctx.extra["suite_result"] = tail
    if "passed" not in tail or "failed" in tail:
        raise core.MachineryFailure(f"traced test-suite did not pass: {tail}")
    if errors:
        raise core.MachineryFailure(f"tracing errors: {errors[:3]}")
    todo = [(c, evs) for c, evs in cases.items()]
    verdicts = ctx.validate("Trace_Mesh", todo, heap="3g")
    payloads = {c: {"kind": "suite", "src": evs[0].get("src"), "nv": evs[0]["mesh"]["nv"]} for c, evs in todo}
    for c in payloads:
        ctx.add_case(payloads[c])
    for cid, vjs in verdicts.items():
        for vj in vjs:
            for d in vj.get("drift", []):
                ctx.note(f"model_drift {d}")
    ctx.judge(verdicts, payloads)
    ctx.rule = "every distinct mesh / frame constructed while the repository's 41 tests run (traced from outside)"


def replay(ctx, payload):
    run(ctx)

"""C07 — results do not depend on labels, storage order or cell orientation.

Two runs of the same tissue in the same embedding; the second with renumbered vertices / mesh edges / cells
(offsets, gaps), shuffled vertex storage order, per-cell cyclic shifts and orientation flips. TLC (ComparePhys,
kind "relabel") demands the same set of internal interfaces and equations, equal coefficient pairs, equal tension
per physical interface and equal pressure per physical cell (solver tolerance only)."""
import math
import os
import random

from harness import core, infer

LEVEL = "model_checking"


def specs_for(ctx):
    rng = random.Random(ctx.seed + 7)
    specs = []
    # exhaustive part: ALL orientation patterns of small catalogue tissues (2^cells), plus every single-cell shift
    small = [("hexflower", 7)] if ctx.quick else [("hexflower", 7), ("hex33", 9), ("squares33", 9)]
    for base, nc in small:
        patterns = list(range(2 ** nc)) if (not ctx.quick or nc <= 7) else rng.sample(range(2 ** nc), 128)
        if ctx.quick:
            patterns = patterns[::2]
        for pat in patterns:
            flips = {str(c): bool(pat >> c & 1) for c in range(nc)}
            shifts = {str(c): rng.randrange(6) for c in range(nc)}
            specs.append(mk(rng, {"kind": "catalogue", "base": base, "sagitta": rng.choice([None, 0.15]), "tseed": 5}, 10.0,
                            flips, shifts, k=rng.choice([0, 1, 3]), exhaustive=True))
    # ragged sub-tissues of the 3x3 patch in which TWO cells hang on a single neighbour (cells without internal interface:
    # their pressures are re-inserted as zeros), listed in another order in the second run
    from harness.gen import catalogue
    hex33 = catalogue.load("hex33")["cells"]
    for i in range(ctx.pick(16, 200)):
        keep = rng.choice([[0, 2, 3, 4, 5, 6, 8], [0, 2, 3, 4, 5, 6], [0, 1, 2, 3, 4, 5, 6, 8]])
        nc = len(keep)
        sp = mk(rng, {"kind": "catalogue", "base": "hex33", "cells": [hex33[c] for c in keep], "sagitta": rng.choice([None, 0.12]), "tseed": 9},
                10.0, {str(c): rng.random() < 0.5 for c in range(nc)}, {str(c): rng.randrange(6) for c in range(nc)}, k=rng.choice([1, 3]))
        perm = list(range(nc))
        rng.shuffle(perm)
        sp["runB"]["group"]["cell_perm"] = perm
        specs.append(sp)
    for i in range(ctx.pick(30, 800)):
        tissue = {"kind": "equilibrium", "ncells": rng.choice([6, 12, 20] if ctx.quick else [6, 12, 20, 40]),
                  "mobius": rng.choice([0.0, 0.6, 1.3]), "noise": rng.choice([0, 0.1, 0.5])}
        nc = 80
        flips = {str(c): rng.random() < 0.5 for c in range(nc)}
        shifts = {str(c): rng.randrange(7) for c in range(nc)}
        specs.append(mk(rng, tissue, 1.0, flips, shifts, k=rng.choice([0, 0, 1, 2, 4, 8])))
    return specs


def mk(rng, tissue, ext, flips, shifts, k, exhaustive=False):
    sim = {"theta": rng.uniform(0, 2 * math.pi), "scale": 10 ** rng.uniform(-1, 1), "offset_sizes": rng.uniform(0, 1), "extent": ext}
    return {"pair": True, "pair_kind": "relabel", "tissue": tissue, "k": k, "seed": rng.randrange(10 ** 9), "want": ["C07"],
            "runA": {"sim": sim}, "runB": {"sim": sim, "ids": {"offset": rng.choice([1, 17, 1000]), "stride": rng.choice([1, 2, 5]),
                                                               "shuffle": rng.randrange(1, 10 ** 6),
                                                               # a genuine renumbering (not only an affine map of the ids) in 2 of 3 pairs
                                                               "vperm": rng.choice([0, rng.randrange(1, 10 ** 6), rng.randrange(1, 10 ** 6)])},
                                           "group": {"flips": flips, "shifts": shifts}},
            "build": {"limit": "inf", "fit": rng.choice(["dlite", "taubinSVD"])}, "solve": {"method": "default"},
            "pressure": True, "require_conditioned": tissue["kind"] == "equilibrium", "exhaustive_part": exhaustive,
            # a third of the pairs have interface end segments that are exactly axis aligned (vanishing chord components)
            "snap_seed": rng.randrange(10 ** 6) if rng.random() < 0.35 else None}


def run(ctx):
    for b in ctx.pick(["hexflower"], ["hexflower", "hex33"]):
        ctx.mc("MC_Equivariance", ctx.pick("MC_Equivariance.cfg", "MC_Equivariance_k2.cfg"),
               env={"BASE_FILE": os.path.join(core.VERIF, "models", "catalogue", b + ".json")}, timeout=3000)
    specs = specs_for(ctx)
    verdicts, payloads = infer.run_specs(ctx, specs, prefixes=["C07"])
    for cid, vjs in verdicts.items():
        hits = set(h for vj in vjs for h in vj.get("hits", []))
        ctx.add_case(payloads[cid], nontrivial="C07.compared" in hits)
    ctx.judge(verdicts, payloads)
    ctx.rule = ("all (quick: every second) 2^cells orientation patterns of small catalogue tissues with random cyclic shifts and "
                "random id renumbering / vertex storage order; random Voronoi/Moebius tissues (equilibrium and noisy) with random "
                "flips, shifts, renumbering; non-trivial = both runs completed and were compared")
    ctx.exhaustive = not ctx.quick
    ctx.assumptions += ["cells are inserted in construction order in both runs except in the ragged hex33 pairs (listed in a permuted order)",
                        "tensions compared only when the true system is well conditioned (otherwise the minimiser is not unique)"]


def replay(ctx, payload):
    verdicts, payloads = infer.run_specs(ctx, [payload["input"]], prefixes=["C07"])
    ctx.add_case(payload["input"])
    ctx.add_case({"replay": True})
    ctx.judge(verdicts, payloads)

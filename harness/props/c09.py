"""C09 — every construction or editing path yields a consistent vertex-edge-cell mesh.

Code -> spec: every parser (Surface Evolver dumps, skeleton images with and without reduce_amount,
WKT strings, Voronoi tessellations of centre sets) is run on shipped and generated inputs; from each
parsed mesh the tree of operation sequences (generate_mesh(ne, replace_short_edges) / Frame
construction, bounded depth and alphabet per level) is executed on the real objects; after every step
the three dictionaries are projected and `Consistent` (Mesh.tla) is judged by TLC (Trace_Edits:
`Mesh` event as in Trace_Mesh, `Step` events in depth-first order). Every sub-tissue enumerated by
MC_Interfaces (holes, bridges) goes through generate_mesh and Frame.
Spec -> code: MC_MeshEdits explores all bounded sequences of the public editing operations of the
data model (MeshEdits.tla, register / unregister discipline as in the code) on small seed meshes;
every behaviour is replayed on the real functions and judged by TLC.

Readings the oracle commits to (least demanding; the predicates are in Trace_Edits.tla / Mesh.tla):
  * Consistent is demanded after every PUBLIC operation (a parser call, generate_mesh, Frame(), join_two_vertices,
    do_t3_transition, a parser's clean-up block), not between its internal steps.
  * An operation applied to a mesh that is already inconsistent is a rejected input: an inconsistency is reported
    once, at the step that introduces it.
  * A parser or generate_mesh raising on a legal input is C09.raised. Not legal (rejected, decided by TLC from logged
    data): ne = 1 on a mesh with a closed-loop interface; a centre set with a vertical Voronoi ridge or coinciding
    Voronoi vertices after the tessellation parser's rounding (C19's finding); generated contour lists that are
    coarser than pixel chains (an interface without interior points that is not a side of an artefact triangle).
  * Two mesh edges between the same pair of vertices do not violate the statement (they violate C11's fixed point).

Python only builds, calls, projects and relays TLC's verdicts."""
import copy
import math
import os
import random

from harness import core, project, build, tissue
from harness.gen import catalogue, voronoi

LEVEL = "model_checking"
PID = "C09"


def G(ne, rse):
    return ("G", ne, rse)


F = ("F", 0, False)

LEVELS = {
    # alphabets per depth: generate_mesh(ne, rse) / Frame.  Every sequence over these alphabets is executed.
    "quick_big": [[G(2, True), G(3, False), G(6, True), G(12, False), F], [G(2, True), G(4, False), F],
                  [G(2, True), G(3, False), F]],
    "quick_small": [[G(ne, rse) for ne in (2, 3, 5, 8, 12) for rse in (True, False)] + [F],
                    [G(2, True), G(4, False), F], [G(2, True), G(3, False), F]],
    "thorough_small": [[G(ne, rse) for ne in range(2, 13) for rse in (True, False)] + [F],
                       [G(2, True), G(5, False), F], [G(3, True), F], [G(2, False), F]],
    "thorough_mid": [[G(ne, rse) for ne in (2, 3, 4, 6, 9, 12) for rse in (True, False)] + [F],
                     [G(2, True), G(5, False), F], [G(3, True), F], [G(2, False), F]],
    "thorough_huge": [[G(ne, rse) for ne, rse in ((2, True), (3, False), (4, True), (6, True), (6, False), (9, False),
                                                  (12, True))] + [F],
                      [G(3, True), F], [G(2, False), F], [F]],
    "thorough_image": [[G(2, True), G(4, False), G(6, True), G(12, False), F], [G(3, True), F], [G(2, False), F], [F]],
}


def mesh_event(case, ev, vertices, edges, cells, **kw):
    m, _, _, _ = project.project_mesh(vertices, edges, cells)
    d = {"case": case, "ev": ev, "mesh": m, "raised": ""}
    d.update(kw)
    return d


def apply_op(op, vertices, edges, cells):
    import forsys as fs
    kind, ne, rse = op
    if kind == "G":
        vertices, edges, cells, _ = fs.virtual_edges.generate_mesh(vertices, edges, cells, ne=ne, replace_short_edges=rse)
    elif kind == "F":
        fr = fs.frames.Frame(0, vertices, edges, cells, time=0)   # on the dicts of the previous step
        del fr                                                     # old frames are not kept alive
    return vertices, edges, cells


def explore(case, vertices, edges, cells, levels, depth, evs):
    """depth-first execution of every operation sequence; one Step event per node"""
    if depth >= len(levels):
        return
    ops = levels[depth]
    for i, op in enumerate(ops):
        if i == len(ops) - 1:
            v, e, c = vertices, edges, cells
        else:
            v, e, c = copy.deepcopy((vertices, edges, cells))
        raised = ""
        try:
            v, e, c = apply_op(op, v, e, c)
        except Exception as exc:
            raised = type(exc).__name__
        base = {"case": case, "ev": "Step", "op": op[0], "ne": int(op[1]), "rse": bool(op[2]), "depth": depth}
        if raised:
            base.update({"mesh": {}, "raised": raised})
            evs.append(base)
        else:
            ev = mesh_event(case, "Step", v, e, c)
            ev.update({k: base[k] for k in ("op", "ne", "rse", "depth")})
            evs.append(ev)
            explore(case, v, e, c, levels, depth + 1, evs)
        del v, e, c


def run_tree(case, parse, levels, src):
    """parse() -> (vertices, edges, cells); returns the events of the case"""
    try:
        vertices, edges, cells = parse()
    except Exception as exc:
        import traceback
        return [{"case": case, "ev": "Mesh", "mesh": {}, "raised": type(exc).__name__, "src": src,
                 "tb": traceback.format_exc()[-600:]}]
    evs = [mesh_event(case, "Mesh", vertices, edges, cells, src=src)]
    explore(case, vertices, edges, cells, levels, 0, evs)
    return evs


# ---- parsers -----------------------------------------------------------------------------------
def _dump_job(args):
    case, path, lv = args
    import forsys as fs

    def parse():
        se = fs.surface_evolver.SurfaceEvolver(os.path.join(core.REPO, path))
        return se.vertices, se.edges, se.cells
    return case, run_tree(case, parse, LEVELS[lv], path)


def _image_job(args):
    case, path, reduce, lv = args
    import forsys as fs

    def parse():
        sk = fs.skeleton.Skeleton(os.path.join(core.REPO, path))
        return sk.create_lattice(reduce_amount=True) if reduce else sk.create_lattice()
    return case, run_tree(case, parse, LEVELS[lv], f"{path}:reduce{reduce}")


def gen_tissue(seed):
    """a generated tissue description (catalogue sub-tissue or random Voronoi) for the WKT round trip"""
    rng = random.Random(seed)
    if rng.random() < 0.5:
        b = catalogue.load(rng.choice(["hexflower", "brick33", "squares33", "hex33", "irregular"]))
        pos = {i + 1: tuple(p) for i, p in enumerate(b["pos"])}
        cells = [c for c in b["cells"] if rng.random() < rng.choice([1.0, 0.8, 0.6])] or b["cells"][:1]
        sim = tissue.Similarity(rng.uniform(0, 2 * math.pi), rng.uniform(5, 20), 400, 500, rng.random() < 0.3)
    else:
        pos, cells, _, _ = voronoi.random_tissue(rng, rng.choice([6, 10, 16]))
        cells = [c for c in cells if rng.random() < rng.choice([1.0, 0.8])] or cells[:1]
        sim = tissue.Similarity(rng.uniform(0, 2 * math.pi), rng.uniform(200, 600), 100, 150, rng.random() < 0.3)
    k = rng.choice([0, 1, 2, 3, 5])
    desc, _ = tissue.instance_desc(pos, cells, k, sim)
    return desc, rng


def _wkt_job(args):
    case, seed, lv = args
    import forsys as fs
    desc, rng = gen_tissue(seed)
    closed = rng.random() < 0.5

    def parse():
        v0, e0, c0 = build.build_mesh(desc)
        text = fs.wkt.create_wkt(c0)
        del v0, e0, c0
        rows = [r for r in text.split("\n") if r.strip()]
        if closed:  # proper WKT rings repeat the first point; create_lattice drops the last point of a ring
            rows = [r[:-2] + ", " + r.split("((")[1].split(",")[0].strip() + "))" for r in rows]
        return fs.wkt.create_lattice(rows)
    return case, run_tree(case, parse, LEVELS[lv], f"wkt:seed{seed}:closed{closed}")


def artefact_polygons(seed):
    """a generated tissue as the contour list of a skeleton image; some junctions shared by three cells are
    replaced by a small artefact triangle (a gap that is not a cell), as pixel contours have them"""
    import numpy as np
    desc, rng = gen_tissue(seed)
    pos = {vid: (x, y) for vid, x, y in desc["V"]}
    cells = [list(cyc) for _, cyc in desc["C"]]
    count = {}
    for cyc in cells:
        for v in cyc:
            count[v] = count.get(v, 0) + 1
    frac = rng.choice([0.0, 0.3, 0.7, 1.0])
    split = {v for v, n in count.items() if n == 3 and rng.random() < frac}
    eps = rng.choice([0.15, 0.3])
    polys = []
    for cyc in cells:
        n = len(cyc)
        poly = []
        for i, v in enumerate(cyc):
            if v in split:
                for w in (cyc[i - 1], cyc[(i + 1) % n]):
                    poly.append((pos[v][0] + eps * (pos[w][0] - pos[v][0]), pos[v][1] + eps * (pos[w][1] - pos[v][1])))
            else:
                poly.append(pos[v])
        polys.append(np.array([[round(x, 6), round(y, 6)] for x, y in poly]))
    return polys, len(split)


def raw_contour_mesh(polys):
    """the mesh Skeleton.create_lattice builds from the contours before any clean-up: vertices by coordinates in
    order of first appearance, mesh edges along each polygon, one cell per polygon (ids from 0)"""
    import forsys.vertex as fv
    import forsys.edge as fe
    import forsys.cell as fc
    vertices, edges, cells, key, seen = {}, {}, {}, {}, set()
    for poly in polys:
        ids = []
        for c in poly:
            k = tuple(c)
            if k not in key:
                key[k] = len(key)
                vertices[key[k]] = fv.Vertex(key[k], float(c[0]), float(c[1]))
            ids.append(key[k])
        for i in list(range(1, len(ids))) + [0]:
            a, b = ids[i - 1], ids[i]
            if (a, b) not in seen and (b, a) not in seen:
                seen.add((a, b))
                edges[len(edges)] = fe.SmallEdge(len(edges), vertices[a], vertices[b])
        cells[len(cells)] = fc.Cell(len(cells), [vertices[i] for i in ids])
    return vertices, edges, cells


def _contour_job(args):
    """Skeleton.create_lattice on a contour list (everything after OpenCV's contour tracing); the root event is
    the raw mesh of the contours (harness-built), the parser's result is the step `SK` applied to it"""
    case, seed, lv = args
    import forsys as fs
    polys, nsplit = artefact_polygons(seed)
    src = f"contours:seed{seed}:triangles{nsplit}"
    rv, re_, rc = raw_contour_mesh(polys)
    evs = [mesh_event(case, "Mesh", rv, re_, rc, src=src)]
    del rv, re_, rc
    base = {"case": case, "ev": "Step", "op": "SK", "ne": 0, "rse": False, "depth": 0}
    try:
        sk = object.__new__(fs.skeleton.Skeleton)
        sk.fname, sk.mirror_y, sk.contours = "", False, polys
        sk.vertex_id = sk.edge_id = sk.cell_id = 0
        vertices, edges, cells = sk.create_lattice()
        del sk
    except Exception as exc:
        evs.append(dict(base, mesh={}, raised=type(exc).__name__))
        return case, evs
    ev = mesh_event(case, "Step", vertices, edges, cells)
    ev.update({k: base[k] for k in ("op", "ne", "rse", "depth")})
    evs.append(ev)
    explore(case, vertices, edges, cells, [[]] + LEVELS[lv][:-1], 1, evs)
    return case, evs


def centres(seed):
    rng = random.Random(seed)
    kind = rng.choice(["random", "jitter_square", "jitter_hex"])
    pts = []
    if kind == "random":
        n = rng.choice([20, 40, 70])
        pts = [(rng.uniform(0, 100), rng.uniform(0, 100)) for _ in range(n)]
    else:
        n = rng.choice([5, 7, 9])
        step = 100.0 / n
        j = rng.choice([0.05, 0.15, 0.3]) * step
        for a in range(n):
            for b in range(n):
                x = (a + (0.5 if (kind == "jitter_hex" and b % 2) else 0.0)) * step
                pts.append((x + rng.uniform(-j, j), b * step + rng.uniform(-j, j)))
    return kind, pts


def tess_premise(pts):
    """logged data for the premise TLC evaluates (Trace_Edits TessPremiseFails): smallest |dx| of a finite Voronoi
    ridge and smallest distance between two Voronoi vertices, after the parser's rounding to 3 decimals"""
    import numpy as np
    import scipy.spatial as sp
    with np.errstate(all="ignore"):
        vor = sp.Voronoi(np.array(pts))
        vs = np.round(vor.vertices, 3)
        dx = [abs(vs[a][0] - vs[b][0]) for a, b in vor.ridge_vertices if a >= 0 and b >= 0]
        tree = sp.cKDTree(vor.vertices)
        d, _ = tree.query(vor.vertices, k=2)
        sep = float(d[:, 1].min()) if len(vor.vertices) > 1 else 1.0
    cap = 1000.0
    return {"min_dx": int(round(min([cap] + dx) * 1e6)), "min_sep": int(round(min(cap, sep) * 1e6))}


def _tess_job(args):
    case, seed, lv = args
    import forsys as fs
    kind, pts = centres(seed)

    def parse():
        return fs.tessellation.create_lattice(*fs.tessellation.create_lattice_elements(pts))
    evs = run_tree(case, parse, LEVELS[lv], f"tessellation:{kind}:seed{seed}:n{len(pts)}")
    evs[0].update(tess_premise(pts))
    return case, evs


def _sub_job(args):
    """MC_Interfaces sub-tissue (holes, bridges) -> generate_mesh -> Frame"""
    case, base_name, inst, seed = args
    base = catalogue.load(base_name)
    rng = random.Random(seed * 1000003 + case)
    pos = {i + 1: tuple(p) for i, p in enumerate(base["pos"])}
    sim = tissue.Similarity.random(rng)
    desc, _ = tissue.instance_desc(pos, inst["cells"], inst["k"], sim, id_offset=rng.choice([0, 0, 5, 100]),
                                   id_stride=rng.choice([1, 1, 3]))
    ne = 2 + (case % 11)
    rse = (case // 11) % 2 == 0
    levels = [[G(ne, rse), F], [F, G(2 + (case // 22) % 4, not rse)]]
    return case, run_tree(case, lambda: build.build_mesh(desc), levels,
                          f"{base_name}:{inst['sub']}:k{inst['k']}:ne{ne}:rse{rse}")


def all_dumps():
    out = []
    for root in ("tests/data", "examples/data"):
        for d, _, files in os.walk(os.path.join(core.REPO, root)):
            for f in sorted(files):
                if f.endswith(".dmp"):
                    out.append(os.path.relpath(os.path.join(d, f), core.REPO))
    return sorted(out)


IMAGES = ["tests/data/test_nonzero.tif", "tests/data/experimental/exp_1.tif"] + \
    [f"examples/data/in_vivo/t_{i}.tif" for i in range(5)]


def run(ctx):
    payloads, case, results, verdicts = {}, 0, [], {}

    def flush(final=False):
        """thorough tier: validate group by group so that the projected meshes do not pile up in memory"""
        nonlocal results
        if results and (final or not ctx.quick):
            verdicts.update(ctx.validate("Trace_Edits", results, heap="3g"))
            results = []

    def add(kind, fn, jobargs, payload, chunksize=1):
        nonlocal case
        case += 1
        payloads[case] = dict(payload, kind=kind, case=case)
        ctx.add_case(payloads[case], sample=len(ctx.samples) < 3 and kind != "sub")
        return (fn, (case,) + tuple(jobargs))

    jobs = []
    dumps = all_dumps()
    if ctx.quick:
        dumps = ["tests/data/initial_furrow.dmp", "examples/data/in_silico/step_12.dmp", "tests/data/12_12/step_22.dmp"]
    for p in dumps:
        lv = ctx.pick("quick_big", "thorough_mid" if "furrow" in p else "thorough_huge")
        jobs.append(add("dump", _dump_job, (p, lv), {"path": p, "levels": lv}))
    for p in (IMAGES[:1] if ctx.quick else IMAGES):
        for red in (False, True):
            lv = ctx.pick("quick_big", "thorough_image")
            jobs.append(add("image", _image_job, (p, red, lv), {"path": p, "reduce": red, "levels": lv}))
    if not ctx.quick:
        results += run_jobs(jobs)
        jobs = []
        flush()
    for i in range(ctx.pick(10, 50)):
        s = ctx.seed * 7919 + i
        lv = ctx.pick("quick_small", "thorough_small")
        jobs.append(add("wkt", _wkt_job, (s, lv), {"seed": s, "levels": lv}))
    for i in range(ctx.pick(10, 50)):
        s = ctx.seed * 104729 + i
        lv = ctx.pick("quick_small", "thorough_small")
        jobs.append(add("tessellation", _tess_job, (s, lv), {"seed": s, "levels": lv}))
    for i in range(ctx.pick(12, 60)):
        s = ctx.seed * 15485863 + i
        lv = ctx.pick("quick_small", "thorough_small")
        jobs.append(add("contours", _contour_job, (s, lv), {"seed": s, "levels": lv}))
    results += run_jobs(jobs)
    flush()
    # sub-tissues enumerated by TLC
    bases = ctx.pick(["hexflower", "squares33"], ["hexflower", "brick33", "squares33", "hex33"])
    cfg = ctx.pick("MC_Interfaces.cfg", "MC_Interfaces_thorough.cfg")
    sjobs = []
    for b in bases:
        res = ctx.mc("MC_Interfaces", cfg, env={"BASE_FILE": os.path.join(core.VERIF, "models", "catalogue", b + ".json")},
                     timeout=3000)
        for inst in res.printed:
            sjobs.append(add("sub", _sub_job, (b, inst, ctx.seed),
                             {"base": b, "sub": inst["sub"], "k": inst["k"], "cells": inst["cells"]}))
    n_sub = len(sjobs)
    for i0 in range(0, len(sjobs), 3000):
        results += run_jobs(sjobs[i0:i0 + 3000], chunksize=16)
        flush()
    # the edit model: all bounded sequences of public operations on small seeds, replayed
    from harness.props import c09_edits
    def add_edit(payload):
        nonlocal case
        case += 1
        payloads[case] = dict(payload, case=case)
        ctx.add_case(payloads[case], sample=False)
        return case
    results += c09_edits.run(ctx, payloads, add_edit)
    flush(final=True)
    c09_edits.compare(ctx, verdicts, payloads)
    ctx.judge(verdicts, payloads)
    ctx.rule = ("Every parser on shipped inputs (all Surface Evolver dumps, skeleton images with and without reduce_amount) and "
                "generated inputs (WKT round trips of generated tissues, Voronoi tessellations of random and jittered centre "
                "sets, Skeleton.create_lattice on generated contour lists with artefact triangles), each followed by the whole tree of generate_mesh(ne, replace_short_edges) / Frame sequences over the "
                "per-level alphabets in coverage.levels; every MC_Interfaces sub-tissue through generate_mesh and Frame; "
                "every bounded sequence of public edit operations enumerated by MC_MeshEdits replayed on the real "
                "functions. Consistent is judged by TLC after every step.")
    ctx.exhaustive = True
    ctx.extra["levels"] = {k: [[list(o) for o in lvl] for lvl in v] for k, v in LEVELS.items()}
    ctx.extra["exhaustive_scope"] = {"sub_tissue_bases": bases, "cfg": cfg, "sub_tissue_instances": n_sub,
                                     "edit_model": c09_edits.SCOPE}
    ctx.assumptions += ["TLC/SANY and the CommunityModules Json reader are trusted",
                        "projection (harness/project.py) copies the implementation's state faithfully",
                        "__del__ runs at the moment the last reference is dropped (CPython refcounting); the harness keeps "
                        "no reference to SmallEdge / Cell objects and no Frame alive across steps",
                        "operation sequences beyond the stated depth and outside the per-level alphabets are not explored"]


def add_payload(ctx, payloads, payload):
    cid = len(payloads) + 1
    payloads[cid] = dict(payload, case=cid)
    ctx.add_case(payloads[cid], sample=False)
    return cid


def _dispatch(job):
    fn, args = job
    return fn(args)


def run_jobs(jobs, chunksize=1):
    return core.parallel_map(_dispatch, jobs, chunksize=chunksize)


def replay(ctx, payload):
    inp = payload["input"]
    cid = payload["case"]
    k = inp["kind"]
    if k == "dump":
        job = (_dump_job, (cid, inp["path"], inp["levels"]))
    elif k == "image":
        job = (_image_job, (cid, inp["path"], inp["reduce"], inp["levels"]))
    elif k == "wkt":
        job = (_wkt_job, (cid, inp["seed"], inp["levels"]))
    elif k == "tessellation":
        job = (_tess_job, (cid, inp["seed"], inp["levels"]))
    elif k == "contours":
        job = (_contour_job, (cid, inp["seed"], inp["levels"]))
    elif k == "sub":
        job = (_sub_job, (cid, inp["base"], inp, payload["seed"]))
    else:
        from harness.props import c09_edits
        job = (c09_edits.replay_job, (cid, inp))
    c, evs = run_jobs([job])[0]
    ctx.add_case(inp)
    v = ctx.validate("Trace_Edits", [(c, evs)])
    ctx.judge(v, {c: inp})

"""tsqueries — the query surface of a time series (extension check, not one of the listed properties).

Behaviour covered: TimeSeries.get_point_id_by_map over multi-step spans in both directions (vertices that disappear and
reappear, skipped steps), get_vertex_position, calculate_velocity on every frame of longer series, whole_tissue_velocity /
whole_tissue_acceleration (the dictionaries), velocity_per_edge, times_to_use (+ ForSys.times_to_use), export_mapping (file
content), get_cm_coords and the cm=True constructor path (positions after construction, which vertices move, the interfaces'
cached coordinates), auxiliar.load_initial_guess (file format -> the structure ForSys(initial_guess=..) consumes, window),
export -> load_initial_guess -> re-construction, Frame.filter_edges("none") after construction, the single-frame session.
Specification: spec/SeriesQueries.tla — an explicit state machine (state = the abstract series, actions = the queries).

Spec -> code: TLC (MC_SeriesQueries, several cfgs) enumerates ALL tiny series (2..4 frames, 2..4 tracked vertices per frame on
the corners of an integer rectangle, all numberings, per step ALL partial injective successor maps handed to the tracker as
initial guess - with frames far apart the tracker adds nothing: invariant InvForced -, frames drifting by a few units so that
the tracker links by proximity, shape changes that make a step "different tissue", unequal integer stamps), checks I => D for
every query and the cross-call algebra (round trip, composition, detours, injectivity, translation by the centres of mass,
re-import of the exported mapping, purity), and prints a hash-selected sample of the series with the complete list of queries;
each one is rebuilt as REAL meshes and run through ForSys / TimeSeries (guess through a real guess file).
Code -> spec: those and seeded random longer series (catalogue / Voronoi tissues, 2..6 frames, independent numbering per
frame, vertices that disappear, partial / wrong guesses) are logged and every recorded answer is judged by TLC
(Trace_SeriesQueries) against D evaluated on the abstract series built from the logged object."""
import concurrent.futures as cf
import hashlib
import json
import os
import shutil
import sys

_VERIF = os.path.dirname(os.path.dirname(os.path.dirname(os.path.abspath(__file__))))
for _p in (os.path.join(_VERIF, "harness"), _VERIF):       # also runnable as a script (selfcheck)
    if _p not in sys.path:
        sys.path.insert(0, _p)

from harness import core
from harness.gen import tsq

LEVEL = "exploration"
PID = "tsqueries"
TRACE = "Trace_SeriesQueries"
CFG = "Trace_SeriesQueries.cfg"
SIDE_KF = os.path.join(core.VERIF, "findings", "tsq_known_findings.json")


def _job(args):
    case, payload = args
    tmpdir = payload["tmpdir"]
    try:
        kind = payload["kind"]
        if kind == "mc":
            ser = tsq.instance_series(payload["inst"], payload["seed"])
            return case, tsq.observe(case, ser, payload["seed"], tmpdir), ""
        if kind == "single":
            return case, tsq.observe_single(case, payload["seed"]), ""
        if kind == "loads":
            return case, tsq.observe_loads(case, payload["seed"], tmpdir), ""
        for j in range(8):       # random series: the first of seed, seed + 15485863, .. inside the fixed-point range
            ser = tsq.random_series(payload["seed"] + 15485863 * j, payload.get("big", False))
            try:
                return case, tsq.observe(case, ser, payload["seed"], tmpdir), ""
            except OverflowError:
                continue
        raise OverflowError("no series inside the fixed-point range")
    except Exception as exc:  # a failure outside the guarded calls = harness problem, not a verdict
        import traceback
        return case, None, f"{payload.get('kind')} seed={payload.get('seed')}: {exc!r} {traceback.format_exc()[-900:]}"


def mc_jobs(ctx):
    """[(cfg, workers, max instances replayed)]"""
    return ctx.pick(
        [("MC_SeriesQueries.cfg", 4, 200), ("MC_SeriesQueries_nf2.cfg", 2, 60), ("MC_SeriesQueries_skip.cfg", 3, 60),
         ("MC_SeriesQueries_near.cfg", 3, 80), ("MC_SeriesQueries_hist.cfg", 2, 0)],
        [("MC_SeriesQueries_thorough.cfg", 6, 3000), ("MC_SeriesQueries_allsets.cfg", 6, 2000),
         ("MC_SeriesQueries_nf4.cfg", 8, 2500), ("MC_SeriesQueries_nf2_thorough.cfg", 3, 1500),
         ("MC_SeriesQueries_skip_thorough.cfg", 4, 1500), ("MC_SeriesQueries_near_thorough.cfg", 4, 1200),
         ("MC_SeriesQueries_near_guess.cfg", 4, 1200), ("MC_SeriesQueries_hist_thorough.cfg", 4, 0)])


def _side_known(ctx):
    """known findings of this extension check that are not (yet) merged into /verif/known_findings.json"""
    if os.path.exists(SIDE_KF):
        for ent in json.load(open(SIDE_KF)).get("findings", []):
            if ent.get("status", "open") == "open" and ent["property"] == PID:
                ctx.kf.setdefault(ent["matcher"], ent)


def _relay(ctx, verdicts):
    seen = set()
    for cid in verdicts:
        for vj in verdicts[cid]:
            for d in vj.get("drift", []):
                if d not in seen:
                    seen.add(d)
                    ctx.note(f"model_drift {d} (first seen in case {cid})")


def run(ctx):
    _side_known(ctx)
    jobs_mc = mc_jobs(ctx)
    with cf.ThreadPoolExecutor(max_workers=len(jobs_mc)) as ex:
        futs = [ex.submit(ctx.mc, "MC_SeriesQueries", c, workers=w, timeout=5400, heap=ctx.pick("2g", "5g")) for c, w, _ in jobs_mc]
        results = [f.result() for f in futs]
    tmpdir = os.path.join(ctx.rundir, "files")
    payloads, jobs = {}, []
    case, n_emitted = 0, 0
    for (cfg, _, cap), res in zip(jobs_mc, results):
        insts = res.printed
        n_emitted += len(insts)
        # TLC's print order depends on worker scheduling: order (and thin) deterministically
        insts = sorted(insts, key=lambda d: hashlib.sha1(json.dumps(d, sort_keys=True).encode()).hexdigest())
        for inst in insts[:cap]:
            case += 1
            payloads[case] = {"kind": "mc", "cfg": cfg, "inst": inst, "seed": ctx.seed * 1000003 + case, "tmpdir": tmpdir}
            ctx.add_case({k: v for k, v in payloads[case].items() if k != "tmpdir"}, nontrivial=bool(inst.get("nontrivial")))
            jobs.append((case, payloads[case]))
    n_mc = case
    nrand = ctx.pick(40, 1500)
    for i in range(nrand):
        case += 1
        payloads[case] = {"kind": "random", "seed": ctx.seed * 104729 + i, "big": not ctx.quick, "tmpdir": tmpdir}
        ctx.add_case({"kind": "random", "seed": payloads[case]["seed"]})
        jobs.append((case, payloads[case]))
    for i in range(ctx.pick(4, 40)):
        for kind in ("single", "loads"):
            case += 1
            payloads[case] = {"kind": kind, "seed": ctx.seed * 7919 + i, "tmpdir": tmpdir}
            ctx.add_case({"kind": kind, "seed": payloads[case]["seed"]}, nontrivial=False)
            jobs.append((case, payloads[case]))
    results = core.parallel_map(_job, jobs, chunksize=4)
    shutil.rmtree(tmpdir, ignore_errors=True)
    bad = [r for r in results if r[1] is None]
    if bad:
        raise core.MachineryFailure(f"driver failed on {len(bad)} case(s); first: {bad[0][2]}")
    verdicts = ctx.validate(TRACE, [(c, evs) for c, evs, _ in results], cfg=CFG, timeout=5400, heap=ctx.pick("1g", "2g"))
    _relay(ctx, verdicts)
    ctx.judge(verdicts, {c: {k: v for k, v in p.items() if k != "tmpdir"} for c, p in payloads.items()})
    ctx.extra["exhaustive_scope"] = {"mc": [c for c, _, _ in jobs_mc], "emitted": n_emitted, "replayed_mc_instances": n_mc,
                                     "random_series": nrand}
    ctx.rule = ("TLC enumerates tiny series (frames x tracked vertices on rectangle corners x numberings x ALL partial injective "
                "successor maps per step x shape changes x stamps) as states of the machine of SeriesQueries.tla and checks I => D "
                "and the cross-call algebra on every one; a hash-selected sample of the series (denser where a step is skipped, "
                "where vertices are lost and reappear while the frame size changes) is rebuilt as real meshes, constructed through "
                "a real guess file and asked EVERY query group listed by the model; plus seeded random longer series. Non-trivial "
                "(MC) = some vertex changes its number along a link AND a vertex is lost, appears, or is followed over two steps.")
    ctx.exhaustive = True
    ctx.assumptions += [
        "TLC/SANY and the CommunityModules Json reader are trusted",
        "extension check: `tsqueries` is not one of the listed properties; the clauses are those of spec/SeriesQueries.tla / "
        "Trace_SeriesQueries.tla",
        "the abstract series is built from the object's own correspondence (ForSys.mesh.mapping) and positions after construction; "
        "for exact far-apart instances the correspondence itself is judged (TSQ.construct_map) under the premise, evaluated in "
        "TLA+ with the tracker transcription, that no vertex lies inside the search radius",
        "tmax / final_time are exclusive bounds, tmax = -1 = every frame (the code's convention, taken as documented)",
        "undefined = None, KeyError or DifferentTissueException; a list with a made-up position / a number where nan is due is a "
        "violation (the recorded findings KF_QuerySkippedStep, KF_WholeStaleKeys, KF_TimesToUseTrue, KF_CmStaleCache excepted)",
        "norms are checked in fixed point (Q=1e6) for components up to 30; velocity tolerance 10 + 4(1+|v|)/dt ulp",
        "known findings of this check are read from known_findings.json and from findings/tsq_known_findings.json (entries to merge)"]


def replay(ctx, payload):
    _side_known(ctx)
    inp = dict(payload["input"])
    inp["tmpdir"] = os.path.join(ctx.rundir, "files")
    c, evs, err = _job((1, inp))
    shutil.rmtree(inp["tmpdir"], ignore_errors=True)
    if evs is None:
        raise core.MachineryFailure(err)
    ctx.add_case(payload["input"])
    v = ctx.validate(TRACE, [(c, evs)], cfg=CFG, heap="2g")
    _relay(ctx, v)
    ctx.judge(v, {c: payload["input"]})


# ----------------------------------------------------------------------------------------------------------
# the binding is real: a recorded trace is accepted, the same trace with one corrupted field is rejected
# ----------------------------------------------------------------------------------------------------------
SELF_INST = {"nf": 3, "k": [3, 2, 3], "far": True,
             "pos": [[[0, 0], [96, 0], [96, 96]], [[37, 23], [133, 119]], [[153, 71], [57, 167], [57, 71]]],
             "ord": [[1, 2, 3], [1, 2], [1, 2, 3]], "guess": [[[1, 2], [3, 1]], [[1, 3], [2, 1]]], "stamps": [0, 1, 3],
             "none": [False, False], "map": [[2, 0, 1], [3, 1]],
             "queries": [{"q": q, "a": a} for q, a in tsq.query_groups(3, None)]}


def selfcheck():
    """./check-independent demonstration (run: /venv/bin/python /verif/harness/props/tsqueries.py selfcheck)"""
    core.import_forsys()
    ctx = core.Ctx(PID + "-selfcheck", "quick", 0, LEVEL)
    tmp = os.path.join(ctx.rundir, "files")
    with core.quiet_stdout():
        evs = tsq.observe(1, tsq.instance_series(SELF_INST, 5), 5, tmp)
    shutil.rmtree(tmp, ignore_errors=True)

    def verdict(events):
        v = ctx.validate(TRACE, [(1, events)], cfg=CFG, heap="1g")
        return sorted({c for vj in v[1] for c in vj["fails"]}), sorted({k for vj in v[1] for k in vj.get("kf", [])})

    def mutate(pred, fn):
        out, done = [], False
        for e in evs:
            e = json.loads(json.dumps(e))
            if not done and pred(e):
                fn(e)
                done = True
            out.append(e)
        assert done
        return out

    base_fails, base_kf = verdict(evs)
    print(f"recorded trace ({len(evs)} events): fails={base_fails} known={base_kf}")
    ok = base_fails == []

    def bump_pbm(e):
        i = [j for j, r in enumerate(e["res"]) if r > 0][0]
        e["res"][i] = e["res"][i] % 3 + 1 if e["res"][i] % 3 + 1 != e["res"][i] else 1

    corruptions = [
        ("PBM answer replaced by another vertex", lambda e: e["ev"] == "PBM" and e["t0"] == 0 and e["t1"] == 2 and any(r > 0 for r in e["res"]),
         bump_pbm, "TSQ.point_by_map"),
        ("one x of get_vertex_position moved by 1e-5", lambda e: e["ev"] == "VPos" and any(r[0] == 1 and r[1] for r in e["rows"]),
         lambda e: [r for r in e["rows"] if r[0] == 1 and r[1]][0][1].__setitem__(0, [r for r in e["rows"] if r[0] == 1 and r[1]][0][1][0] + 10),
         "TSQ.vertex_position"),
        ("one whole_tissue_velocity value scaled by 1.01", lambda e: e["ev"] == "WVel" and any(v[0] == 1 and v[1] > 0 for v in e["vals"]),
         lambda e: [v for v in e["vals"] if v[0] == 1 and v[1] > 0][0].__setitem__(1, int([v for v in e["vals"] if v[0] == 1 and v[1] > 0][0][1] * 1.01)),
         "TSQ.whole_velocity"),
        ("times_to_use() last entry + 1", lambda e: e["ev"] == "TTU" and e["arg"] == -1 and e["res"],
         lambda e: e["res"].__setitem__(-1, e["res"][-1] + 1), "TSQ.times_to_use"),
        ("exported mapping: one successor dropped", lambda e: e["ev"] == "Export" and e["maps"] and e["maps"][0]["pairs"],
         lambda e: e["maps"][0]["pairs"].pop(), "TSQ.export_mapping"),
        ("load_initial_guess result: a frame key missing", lambda e: e["ev"] == "Load" and len(e["res"]) > 1,
         lambda e: e["res"].pop(), "TSQ.load_guess_keys"),
        ("cm=True: one vertex not translated", lambda e: e["ev"] == "Series" and e["cm"],
         lambda e: e["fpos"][1][0].__setitem__(0, e["fpos0"][1][0][0]), "TSQ.cm_moves_all"),
        ("velocity_per_edge: a number where nan is due / nan where a number is due",
         lambda e: e["ev"] == "VEdge" and any(r[0] == 1 and r[1] for r in e["rows"]),
         lambda e: [r for r in e["rows"] if r[0] == 1 and r[1]][0][1].__setitem__(0, [1 - [r for r in e["rows"] if r[0] == 1 and r[1]][0][1][0][0], 777777]),
         "TSQ.velocity_per_edge"),
        ("get_cm_coords off by 0.002", lambda e: e["ev"] == "CM" and e["before"],
         lambda e: e["res"].__setitem__(0, e["res"][0] + 2000), "TSQ.cm_coords"),
        ("After: the correspondence changed", lambda e: e["ev"] == "After" and e["maps"] and e["maps"][0]["pairs"],
         lambda e: e["maps"][0]["pairs"][0].__setitem__(1, 0 if e["maps"][0]["pairs"][0][1] else 1), "TSQ.queries_pure_mapping"),
    ]
    for what, pred, fn, want in corruptions:
        fails, _ = verdict(mutate(pred, fn))
        hit = want in fails
        ok = ok and hit
        print(f"{'rejected' if hit else 'NOT REJECTED'}: {what}: fails={fails} (expected {want})")
    shutil.rmtree(ctx.rundir, ignore_errors=True)
    print("selfcheck " + ("passed" if ok else "FAILED"))
    return 0 if ok else 1


if __name__ == "__main__":
    if len(sys.argv) > 1 and sys.argv[1] == "selfcheck":
        sys.exit(selfcheck())

"""C20 — cell geometry primitives: signed area, perimeter, orientation, neighbours.

Spec -> code: TLC (MC_CellGeom) enumerates every simple polygon with 3..NMAX vertices on a small integer
grid (both orientations; first vertex = least vertex, the other cyclic shifts / reversal / translations /
scalings are covered by the quantifiers of its invariants) and every sub-tissue of the small catalogue
tissues, checks the model-level identities, and emits the instances. Each emitted polygon is built as a
real single Cell (Vertex objects + SmallEdges of its cycle) under six storages/embeddings (identity, cyclic
shift, reversal, integer translation, integer scaling, real translation); each sub-tissue is built with
tissue.instance_desc (k interior points per edge, integral embedding, random per-cell orientation/shift).
Code -> spec: everything the code returns (get_area, get_area_sign, get_perimeter, get_next_vertex /
get_previous_vertex for every vertex, calculate_neighbors) is logged and judged by TLC (Trace_CellGeom),
which recomputes every expected value from the polygon / mesh. Python never compares.

Random simple polygons up to 80 vertices (star-shaped, 2-opt untangled random point sets, combs, spirals,
subdivided rectangles), a few degenerate cycles (rejected by TLC-evaluated premises for the clauses that
need a simple polygon) and random Voronoi tissues with integer-rounded coordinates go through the same
trace spec."""
import json
import math
import os
import random
import time

import numpy as np

from harness import core, project, build, tissue
from harness.gen import catalogue, voronoi

LEVEL = "model_checking"
PID = "C20"
QS = 1000000
CAP = 2000000000


# ----------------------------------------------------------------------------------------
# projection of the code's outputs
# ----------------------------------------------------------------------------------------
def split_u(v):
    """non-negative float -> [I, F] with v ~ I + F/1e6"""
    v = float(v)
    if not math.isfinite(v):
        raise ValueError("non-finite output")
    if v < 0:
        raise ValueError("negative magnitude")
    if v >= CAP:
        return [CAP, 0]
    i = int(math.floor(v))
    f = int(round((v - i) * QS))
    if f >= QS:
        i, f = i + 1, 0
    return [i, f]


def split_sm(v):
    """float -> [sign, I, F] with v ~ sign * (I + F/1e6)"""
    v = float(v)
    if not math.isfinite(v):
        raise ValueError("non-finite output")
    s = (v > 0) - (v < 0)
    return [s] + split_u(abs(v))


def cell_outputs(cell, u=0):
    """everything C20 observes on one cell, in storage order of cell.vertices (no reference kept).
    u: the cell was built with its lattice coordinates multiplied by 2**u (a change of length unit that is exact in binary
    floating point); areas and lengths are converted back to lattice units by the exact factors 2**(-2u), 2**(-u)"""
    vs = list(cell.vertices)
    idx = {id(v): i + 1 for i, v in enumerate(vs)}
    out = {"raised": "", "a": [0, 0, 0], "sign": 0, "per": [0, 0], "nx": [], "pv": []}
    try:
        out["a"] = split_sm(2.0 * float(cell.get_area()) * 2.0 ** (-2 * u))
        out["sign"] = int(cell.get_area_sign())
        per = float(cell.get_perimeter()) * 2.0 ** (-u)
        out["per"] = split_u(per) if per >= 0 or not math.isfinite(per) else [0, 0]
        if per < 0:
            raise ValueError("negative perimeter")
        out["nx"] = [idx.get(id(cell.get_next_vertex(v)), 0) for v in vs]
        out["pv"] = [idx.get(id(cell.get_previous_vertex(v)), 0) for v in vs]
    except Exception as exc:
        out["raised"] = (type(exc).__name__ + ": " + str(exc))[:200]
    return out


def build_single(coords, rng):
    """one real Cell on fresh Vertex objects + the SmallEdges of its cycle (as build.build_mesh does)"""
    n = len(coords)
    off, stride = rng.choice([0, 0, 3, 100]), rng.choice([1, 1, 2, 7])
    vids = [off + stride * i for i in range(n)]
    if rng.random() < 0.5:
        rng.shuffle(vids)
    cyc = list(vids)
    cdesc = [[rng.choice([0, 1, 5, 42]), cyc]]
    vorder = list(range(n))
    if rng.random() < 0.5:
        rng.shuffle(vorder)      # creation order of the Vertex objects is not the cycle order
    desc = {"V": [[vids[i], coords[i][0], coords[i][1]] for i in vorder],
            "E": build.edges_from_cells(cdesc, first_id=rng.choice([0, 10])), "C": cdesc}
    return build.build_mesh(desc)


def storage(P, s, rev):
    n = len(P)
    B = P[::-1] if rev else P
    return [B[(i + s) % n] for i in range(n)]


def variant(P, kind, rng, s=0, rev=False, t=(0, 0), k=1, tf=None, u=0):
    """build the stated storage of P as a real cell and log the code's outputs"""
    S = storage(P, s, rev)
    if tf is None:
        coords = [(float(k * x + t[0]) * 2.0 ** u, float(k * y + t[1]) * 2.0 ** u) for x, y in S]
    else:
        coords = [(x + tf[0], y + tf[1]) for x, y in S]
    v = {"kind": kind, "s": s, "rev": rev, "t": [int(t[0]), int(t[1])], "k": k, "exact": tf is None,
         "pts": [], "off": []}
    try:
        vertices, edges, cells = build_single(coords, rng)
    except Exception as exc:
        v.update({"raised": "construction " + type(exc).__name__ + ": " + str(exc)[:160],
                  "a": [0, 0, 0], "sign": 0, "per": [0, 0], "nx": [], "pv": []})
        return v
    cell = next(iter(cells.values()))
    if tf is None:
        pts = []
        for w in cell.vertices:
            wx, wy = float(w.x) * 2.0 ** (-u), float(w.y) * 2.0 ** (-u)
            if wx != int(wx) or wy != int(wy):
                raise core.MachineryFailure("integral embedding produced a non-integral coordinate")
            pts.append([int(wx), int(wy)])
        v["pts"] = pts
    else:
        v["off"] = [[project.fx(w.x - S[i][0]), project.fx(w.y - S[i][1])] for i, w in enumerate(cell.vertices)]
    v.update(cell_outputs(cell, u))
    del cell, cells, edges, vertices
    return v


def poly_event(case, P, src, seed):
    P = [[int(x), int(y)] for x, y in P]
    n = len(P)
    rng = random.Random(f"{seed}:{json.dumps(P)}")
    span = max(max(abs(x), abs(y)) for x, y in P) or 1
    kmax = max(2, min(12, 1200 // span))
    k = rng.randint(2, kmax)
    t = (0, 0)
    while t == (0, 0):
        t = (rng.randint(-1000, 1000), rng.randint(-1000, 1000))
    tf = (rng.uniform(-1000, 1000), rng.uniform(-1000, 1000))
    vs = [variant(P, "id", rng),
          variant(P, "shift", rng, s=rng.randint(1, n - 1)),
          variant(P, "rev", rng, s=rng.choice([0, rng.randint(0, n - 1)]), rev=True),
          variant(P, "tr", rng, t=t),
          variant(P, "scale", rng, k=k),
          variant(P, "trf", rng, tf=tf),
          # the same lattice polygon in another length unit (x 2**u: microns written in metres, or in nanometres)
          variant(P, "unit", rng, u=rng.choice([-20, -27, -34, 17]))]
    return {"case": case, "ev": "Poly", "src": src, "P": P, "vars": vs}


def _poly_jobs(args):
    seed, chunk = args
    core.import_forsys()
    out = []
    for case, P, src in chunk:
        out.append((case, [poly_event(case, P, src, seed)]))
    return out


# ----------------------------------------------------------------------------------------
# tissues
# ----------------------------------------------------------------------------------------
def tissue_event(case, pos, cells, k, src, rng, keep=False):
    """pos: {base vertex id: (int x, int y)}; cells: cycles of base ids. Integral embedding: scale by a
    multiple of k+1 so that the k interior points of every straight edge are lattice points."""
    scale = (k + 1) * rng.choice([1, 2, 3])
    sim = tissue.Similarity(0.0, float(scale), float(rng.randint(-300, 300)), float(rng.randint(-300, 300)))
    desc, info = tissue.instance_desc(pos, cells, k, sim, id_offset=rng.choice([0, 0, 5, 100]),
                                      id_stride=rng.choice([1, 1, 3]),
                                      shuffle_rng=rng if rng.random() < 0.5 else None)
    for row in desc["V"]:
        for j in (1, 2):
            r = round(row[j])
            if abs(row[j] - r) > 1e-6:
                raise core.MachineryFailure("tissue embedding is not integral")
            row[j] = float(r)
    # every cell stored in a random sense and from a random start
    for ent in desc["C"]:
        cyc = ent[1]
        if rng.random() < 0.5:
            cyc = cyc[::-1]
        s = rng.randrange(len(cyc))
        ent[1] = cyc[s:] + cyc[:s]
    base_ids = set(info["newid"].values())
    ev = {"case": case, "ev": "Tissue", "src": src, "k": k, "raised": "", "cells": []}
    try:
        vertices, edges, cs = build.build_mesh(desc)
    except Exception as exc:
        # construction of a legal tissue raised: judged by TLC (C20.raised) on the model mesh
        ev["raised"] = "construction " + type(exc).__name__ + ": " + str(exc)[:160]
        vkeys = [r[0] for r in desc["V"]]
        vi = {v: i + 1 for i, v in enumerate(vkeys)}
        ev["mesh"] = {"nv": len(vkeys), "nc": len(desc["C"]), "C": [[vi[v] for v in c[1]] for c in desc["C"]]}
        ev["pos"] = [[int(r[1]), int(r[2])] for r in desc["V"]]
        ev["isb"] = [v in base_ids for v in vkeys]
        return ev
    m, vidx, eidx, cidx = project.project_mesh(vertices, edges, cs)
    ev["mesh"] = {"nv": m["nv"], "nc": m["nc"], "C": m["C"], "oc": m["oc"]}
    ev["pos"] = [[int(vertices[key].x), int(vertices[key].y)] for key in vertices]
    ev["isb"] = [key in base_ids for key in vertices]
    for key in list(cs.keys()):
        c = cs[key]
        o = cell_outputs(c)
        o.pop("nx"), o.pop("pv")
        o["nb"] = []
        if not o["raised"]:
            try:
                stored = getattr(c, "neighbors", None)        # what Frame construction left on the cell, read first
                stored = None if stored is None else [cidx.get(x, 0) for x in stored]
                o["nb"] = [cidx.get(x, 0) for x in c.calculate_neighbors()]
                if stored is not None and set(stored) != set(o["nb"]):
                    # both readings are the cell's neighbours for a user: log the stored one when the two disagree
                    o["nb"] = stored
            except Exception as exc:
                o["raised"] = "calculate_neighbors " + type(exc).__name__ + ": " + str(exc)[:160]
        ev["cells"].append(o)
        del c
    if keep:
        ev["_objects"] = (vertices, edges, cs)
        ev["_isb_of"] = lambda vs: [key in base_ids for key in vs]
        return ev
    del cs, edges, vertices
    return ev


def tissue_events(case, pos, cells, k, src, rng):
    """the tissue as built, and (one case in three) the same live objects after one cell was removed through the public
    API (ForSys.remove_cell): area, orientation and neighbours are read again from the surviving cells"""
    state = rng.getstate()
    evs = [tissue_event(case, pos, cells, k, src, rng)]
    if len(cells) < 2 or evs[0]["raised"] or rng.random() > 0.34:
        return evs
    import forsys as fs
    rng.setstate(state)
    ev1 = tissue_event(case, pos, cells, k, src, rng, keep=True)
    vertices, edges, cs = ev1.pop("_objects")
    rng.random()      # the draw that selected this branch (the state was rewound): the next one is independent of it
    op = rng.choice(["remove", "remove", "stress"])
    try:
        with core.quiet_stdout():
            frame = fs.frames.Frame(0, vertices, edges, cs, time=0)
            forsys = fs.ForSys({0: frame}, cm=False)
            if op == "remove":
                victim = rng.choice(sorted(cs.keys()))
                del frame
                forsys.remove_cell(0, victim)
            else:
                # a read-only analysis on the same objects (coarse-grained stress of a tissue with unit pressures and
                # tensions) must leave every cell's geometry and neighbours as they were
                for c in frame.cells.values():
                    c.pressure = 1.0
                for b in frame.big_edges.values():
                    b.tension = 1.0
                try:
                    frame.calculate_stress_tensor(coarsing=rng.choice([2, 3]), radius=1.5)
                except Exception:
                    pass
                del frame
    except Exception:
        return evs        # frame construction / removal contracts are judged elsewhere (C08, edits2)
    fr = forsys.frames[0]
    try:
        m, vidx, eidx, cidx = project.project_mesh(fr.vertices, fr.edges, fr.cells)
    except Exception as exc:
        if op == "stress":
            # the objects can no longer be read back after a read-only analysis: logged as a raised observation on the
            # tissue as it was built (judged by TLC: C20.raised)
            evs.append({"case": case, "ev": "Tissue", "src": src + ":after_" + op, "k": k, "cells": [],
                        "raised": "read-back after stress tensor " + type(exc).__name__ + ": " + str(exc)[:120],
                        "mesh": ev1["mesh"], "pos": ev1["pos"], "isb": ev1["isb"]})
        return evs
    ev = {"case": case, "ev": "Tissue", "src": src + ":after_" + op, "k": k, "raised": "", "cells": [],
          "mesh": {"nv": m["nv"], "nc": m["nc"], "C": m["C"], "oc": m["oc"]},
          "pos": [[int(fr.vertices[key].x), int(fr.vertices[key].y)] for key in fr.vertices],
          "isb": ev1["_isb_of"](fr.vertices)}
    for key in list(fr.cells.keys()):
        c = fr.cells[key]
        o = cell_outputs(c)
        o.pop("nx"), o.pop("pv")
        o["nb"] = []
        if not o["raised"]:
            try:
                stored = getattr(c, "neighbors", None)        # what Frame construction left on the cell, read first
                stored = None if stored is None else [cidx.get(x, 0) for x in stored]
                o["nb"] = [cidx.get(x, 0) for x in c.calculate_neighbors()]
                if stored is not None and set(stored) != set(o["nb"]):
                    # both readings are the cell's neighbours for a user: log the stored one when the two disagree
                    o["nb"] = stored
            except Exception as exc:
                o["raised"] = "calculate_neighbors " + type(exc).__name__ + ": " + str(exc)[:160]
        ev["cells"].append(o)
        del c
    if m["nc"] >= 1:
        evs.append(ev)
    return evs


def _catalogue_job(args):
    case, base_name, inst, seed = args
    base = catalogue.load(base_name)
    rng = random.Random(f"{seed}:{base_name}:{inst['sub']}:{inst['k']}")
    pos = {i + 1: (int(p[0]), int(p[1])) for i, p in enumerate(base["pos"])}
    return case, tissue_events(case, pos, inst["cells"], inst["k"], f"{base_name}:{inst['sub']}:k{inst['k']}", rng)


def _voronoi_job(args):
    case, seed = args
    rng = random.Random(seed)
    ncells = rng.choice([6, 12, 25, 40])
    with np.errstate(all="ignore"):
        fpos, cells, _, _ = voronoi.random_tissue(rng, ncells)
    keep = [c for c in cells if rng.random() < rng.choice([1.0, 1.0, 0.85, 0.6])] or cells[:1]
    grid = rng.choice([200, 1000])
    pos = {v: (int(round(p[0] * grid)), int(round(p[1] * grid))) for v, p in fpos.items()}
    k = rng.choice([0, 0, 1, 2])
    return case, tissue_events(case, pos, keep, k, f"voronoi:seed{seed}:n{len(keep)}:k{k}:g{grid}", rng)


# ----------------------------------------------------------------------------------------
# random polygons (generators only steer; simplicity is decided by TLC)
# ----------------------------------------------------------------------------------------
def _cross(o, a, b):
    return (a[0] - o[0]) * (b[1] - o[1]) - (a[1] - o[1]) * (b[0] - o[0])


def _meet(a, b, c, d):
    def on(p, q, r):
        return _cross(p, q, r) == 0 and min(p[0], q[0]) <= r[0] <= max(p[0], q[0]) and min(p[1], q[1]) <= r[1] <= max(p[1], q[1])
    d1, d2, d3, d4 = _cross(a, b, c), _cross(a, b, d), _cross(c, d, a), _cross(c, d, b)
    if ((d1 > 0) != (d2 > 0)) and d1 and d2 and ((d3 > 0) != (d4 > 0)) and d3 and d4:
        return True
    return on(a, b, c) or on(a, b, d) or on(c, d, a) or on(c, d, b)


def star_polygon(rng, n, R):
    """star-shaped around the origin: sorted random angles, random radii"""
    angs = sorted(rng.uniform(0, 2 * math.pi) for _ in range(n))
    lo = rng.choice([0.15, 0.4, 0.8])
    pts = []
    for a in angs:
        r = R * rng.uniform(lo, 1.0)
        pts.append((int(round(r * math.cos(a))), int(round(r * math.sin(a)))))
    return pts


def two_opt_polygon(rng, n, R):
    """random points in a square, random order, untangled by 2-opt reversals (non-convex in general)"""
    seen = set()
    while len(seen) < n:
        seen.add((rng.randint(-R, R), rng.randint(-R, R)))
    pts = list(seen)
    rng.shuffle(pts)
    for _ in range(20000):
        found = False
        for i in range(n):
            for j in range(i + 2, n):
                if i == 0 and j == n - 1:
                    continue
                if _meet(pts[i], pts[i + 1], pts[j], pts[(j + 1) % n]):
                    pts[i + 1:j + 1] = reversed(pts[i + 1:j + 1])
                    found = True
                    break
            if found:
                break
        if not found:
            break
    return pts


def comb_polygon(rng, teeth, R):
    """comb: long collinear base, thin teeth (many reflex vertices)"""
    w = max(2, (2 * R) // (2 * teeth + 1))
    top = []
    for i in range(teeth):
        x0 = -R + (2 * i + 1) * w
        h = rng.randint(R // 4, R)
        top += [(x0, 0), (x0, h), (x0 + w, h), (x0 + w, 0)]
    return [(-R, -w), (R, -w)] + [(R, 0)] + top[::-1] + [(-R, 0)]


def spiral_polygon(rng, n, R):
    """spiral corridor: outer wall outwards, inner wall back (the shoelace fan winds more than once)"""
    m = max(9, n // 2)
    turns = min(3.0, (m - 1) / 8.0) * rng.uniform(0.7, 1.0)
    T = 2 * math.pi * turns
    w = 0.24 * R / max(turns, 1.0)

    def rad(th):
        return R * (0.4 + 0.6 * th / T)
    outer = [(rad(T * i / (m - 1)) * math.cos(T * i / (m - 1)), rad(T * i / (m - 1)) * math.sin(T * i / (m - 1)))
             for i in range(m)]
    inner = [((rad(T * i / (m - 1)) - w) * math.cos(T * i / (m - 1)), (rad(T * i / (m - 1)) - w) * math.sin(T * i / (m - 1)))
             for i in range(m)]
    return [(int(round(x)), int(round(y))) for x, y in outer + inner[::-1]]


def subdivided_rectangle(rng, n, R):
    """rectangle with extra collinear vertices on its sides (straight angles are legal)"""
    w, h = rng.randint(max(2, R // 2), R), rng.randint(max(2, R // 3), R)
    m = max(0, (n - 4) // 4)
    xs = sorted(rng.sample(range(1, w), min(m, w - 1)))
    ys = sorted(rng.sample(range(1, h), min(m, h - 1)))
    xs2 = sorted(rng.sample(range(1, w), min(m, w - 1)), reverse=True)
    ys2 = sorted(rng.sample(range(1, h), min(m, h - 1)), reverse=True)
    return ([(0, 0)] + [(x, 0) for x in xs] + [(w, 0)] + [(w, y) for y in ys] + [(w, h)]
            + [(x, h) for x in xs2] + [(0, h)] + [(0, y) for y in ys2])


def degenerate_cycles():
    """cycles outside the property's quantifier (TLC rejects them for the clauses that need a simple polygon)"""
    return [("degenerate:bowtie", [(0, 0), (4, 4), (4, 0), (0, 4)]),
            ("degenerate:bowtie_nonzero", [(0, 0), (6, 4), (6, 0), (0, 2)]),
            ("degenerate:collinear", [(0, 0), (2, 2), (5, 5), (3, 3)]),
            ("degenerate:figure8", [(0, 0), (2, 2), (4, 0), (4, 2), (2, 0), (0, 2)]),
            ("degenerate:spike", [(0, 0), (4, 0), (8, 0), (4, 0), (4, 3)]),
            ("degenerate:touching", [(0, 0), (4, 0), (4, 4), (2, 0), (0, 4)])]


def random_polygon(rng):
    kind = rng.choice(["star", "star", "twoopt", "twoopt", "comb", "spiral", "rect"])
    n = rng.choice([3, 4, 5, 7, 10, 16, 25, 40, 60, 80, rng.randint(3, 80)])
    R = rng.choice([20, 60, 200, 600])
    if kind == "star":
        R = max(R, 2 * n)
        return f"star:n{n}:R{R}", star_polygon(rng, n, R)
    if kind == "twoopt":
        n = min(n, 60)
        R = max(R, 3 * n)
        return f"twoopt:n{n}:R{R}", two_opt_polygon(rng, n, R)
    if kind == "comb":
        teeth = max(1, min(19, (n - 4) // 4))
        R = max(R, 60)
        return f"comb:t{teeth}:R{R}", comb_polygon(rng, teeth, R)
    if kind == "spiral":
        n = max(n, 18)
        R = max(R, 200)
        return f"spiral:n{n}:R{R}", spiral_polygon(rng, n, R)
    n = max(n, 4)
    R = max(R, 60)
    return f"rect:n{n}:R{R}", subdivided_rectangle(rng, min(n, 80), R)


def _nonconvex(P):
    """accounting only (evidence: non-trivial cases): some vertex of the cycle is reflex or straight"""
    n = len(P)
    turns = [_cross(P[i - 1], P[i], P[(i + 1) % n]) for i in range(n)]
    return not (all(t > 0 for t in turns) or all(t < 0 for t in turns))


def _random_poly_job(args):
    case, seed, pseed = args
    core.import_forsys()
    rng = random.Random(pseed)
    with np.errstate(all="ignore"):
        src, P = random_polygon(rng)
    return case, [poly_event(case, P, src, seed)], {"kind": "poly", "src": src, "P": [list(p) for p in P]}


# ----------------------------------------------------------------------------------------
def _base_file(name):
    return os.path.join(core.VERIF, "models", "catalogue", name + ".json")


BATCH = 32000     # events per validation round: bounds memory of the driver and of one TLC shard


class _Stream:
    """replayed cases are validated and judged in rounds of BATCH events, then dropped"""

    def __init__(self, ctx):
        self.ctx, self.results, self.payloads = ctx, [], {}
        self.t_validate = 0.0

    def add(self, cid, evs, payload):
        self.results.append((cid, evs))
        self.payloads[cid] = payload

    def flush(self, force=False):
        while len(self.results) >= BATCH or (force and self.results):
            batch, self.results = self.results[:BATCH], self.results[BATCH:]
            t0 = time.time()
            verdicts = self.ctx.validate("Trace_CellGeom", batch, timeout=6 * 3600, heap="1g")
            for cid, vjs in verdicts.items():
                for vj in vjs:
                    for d in vj.get("drift", []):
                        self.ctx.note(f"model_drift {d} (first seen in case {cid})")
            self.ctx.judge(verdicts, {cid: self.payloads.pop(cid) for cid, _ in batch})
            self.t_validate += time.time() - t0


def run(ctx):
    st = _Stream(ctx)
    case = 0
    phase = {"mc_polygons": 0.0, "replay_grid_polygons": 0.0}
    # ---- all grid polygons (TLC) -------------------------------------------------------------
    cfgs = ctx.pick(["MC_CellGeom.cfg"], ["MC_CellGeom.cfg", "MC_CellGeom_thorough.cfg"])
    seen = set()
    n_grid = 0
    for cfg in cfgs:
        t0 = time.time()
        res = ctx.mc("MC_CellGeom", cfg, env={"BASE_FILE": _base_file("hexflower")}, timeout=6 * 3600,
                     heap=ctx.pick("2g", "8g"))
        polys = [inst["P"] for inst in res.printed]
        del res
        phase["mc_polygons"] += time.time() - t0
        for b in range(0, len(polys), BATCH):
            t0 = time.time()
            chunk, chunks, pl = [], [], {}
            for P in polys[b:b + BATCH]:
                key = json.dumps(P)
                if key in seen:
                    continue
                seen.add(key)
                case += 1
                n_grid += 1
                pl[case] = {"kind": "poly", "src": "grid:" + cfg, "P": P}
                ctx.add_case(pl[case], nontrivial=_nonconvex(P))
                chunk.append((case, P, "grid"))
                if len(chunk) >= 100:
                    chunks.append((ctx.seed, chunk))
                    chunk = []
            if chunk:
                chunks.append((ctx.seed, chunk))
            for part in core.parallel_map(_poly_jobs, chunks, chunksize=1):
                for cid, evs in part:
                    st.add(cid, evs, pl[cid])
            phase["replay_grid_polygons"] += time.time() - t0
            st.flush()
        del polys
    t0 = time.time()
    # ---- all sub-tissues of the small catalogue tissues (TLC) -------------------------------
    bases = ctx.pick(["hexflower", "squares33", "brick33"],
                     ["hexflower", "squares33", "brick33", "hex33", "irregular"])
    tcfg = ctx.pick("MC_CellGeom_tissue.cfg", "MC_CellGeom_tissue_thorough.cfg")
    tjobs, pl = [], {}
    for b in bases:
        # the 15-cell tissue has 32767 sub-tissues: straight edges only (k = 0)
        bcfg = "MC_CellGeom_tissue_k0.cfg" if b == "irregular" else tcfg
        res = ctx.mc("MC_CellGeom", bcfg, env={"BASE_FILE": _base_file(b)}, timeout=3600, heap="1g")
        for inst in res.printed:
            case += 1
            tjobs.append((case, b, inst, ctx.seed))
            pl[case] = {"kind": "catalogue", "base": b, "sub": inst["sub"], "k": inst["k"], "cells": inst["cells"]}
            ctx.add_case(pl[case], nontrivial=len(inst["cells"]) > 1)
    n_cat = len(tjobs)
    for cid, evs in core.parallel_map(_catalogue_job, tjobs, chunksize=16):
        st.add(cid, evs, pl[cid])
    st.flush()
    # ---- random polygons up to 80 vertices, degenerate cycles ------------------------------
    nrand = ctx.pick(400, 6000)
    rjobs = []
    for i in range(nrand):
        case += 1
        rjobs.append((case, ctx.seed, ctx.seed * 104729 + i))
    for cid, evs, payload in core.parallel_map(_random_poly_job, rjobs, chunksize=4):
        ctx.add_case(payload, nontrivial=_nonconvex(payload["P"]))
        st.add(cid, evs, payload)
    dchunk, pl = [], {}
    for src, P in degenerate_cycles():
        case += 1
        pl[case] = {"kind": "poly", "src": src, "P": [list(p) for p in P]}
        ctx.add_case(pl[case], nontrivial=False)
        dchunk.append((case, [list(p) for p in P], src))
    for cid, evs in core.parallel_map(_poly_jobs, [(ctx.seed, dchunk)])[0]:
        st.add(cid, evs, pl[cid])
    # ---- random Voronoi tissues (integer-rounded coordinates, random cell subsets) ----------
    nvor = ctx.pick(24, 400)
    vjobs, pl = [], {}
    for i in range(nvor):
        case += 1
        s = ctx.seed * 7919 + i
        vjobs.append((case, s))
        pl[case] = {"kind": "voronoi", "seed": s}
        ctx.add_case(pl[case])
    for cid, evs in core.parallel_map(_voronoi_job, vjobs, chunksize=2):
        st.add(cid, evs, pl[cid])
    # ---- everything left is judged by TLC ---------------------------------------------------
    st.flush(force=True)
    phase["tissues_and_random_incl_validation"] = time.time() - t0
    phase["trace_validation_total"] = st.t_validate
    ctx.extra["phase_wall_s"] = {k: round(v, 1) for k, v in phase.items()}
    ctx.rule = ("TLC enumerates every simple polygon with 3..NMAX vertices on a GRIDxGRID integer grid (stored from its "
                "least vertex, both orientations; all shifts/reversal/translations/scalings inside the invariants) and "
                "every non-empty cell subset of each catalogue tissue x interior points per edge; each emitted instance "
                "is built with real Vertex/SmallEdge/Cell objects (polygons under 6 storages: identity, shift, reversal, "
                "integer translation, integer scale, real translation; tissues with random per-cell orientation and an "
                "integral embedding) and every output is judged by TLC; plus random simple polygons with up to 80 "
                "vertices (star-shaped, 2-opt, combs, spirals, subdivided rectangles), degenerate cycles (trivial: "
                "rejected by premises) and random Voronoi tissues. Distinct = distinct abstract input; non-trivial = "
                "polygons with at least one reflex or straight vertex (strictly convex ones are run but not counted), "
                "catalogue sub-tissues with at least two cells, random tissues.")
    ctx.exhaustive = True
    ctx.extra["exhaustive_scope"] = {"polygon_cfgs": cfgs, "grid_polygons": n_grid, "tissue_cfg": tcfg, "tissue_cfg_irregular": "MC_CellGeom_tissue_k0.cfg",
                                     "bases": bases, "catalogue_instances": n_cat,
                                     "random_polygons": nrand, "random_tissues": nvor}
    ctx.assumptions += ["TLC/SANY and the CommunityModules Json reader are trusted",
                        "IEEE double arithmetic on the integer coordinates used (< 2^53) is exact, so 2*area is logged "
                        "as an exact integer; perimeters are logged at 1e-6 and compared against exact integer "
                        "square-root bounds",
                        "the driver's read-back of the stored coordinates and of identity of returned Vertex objects "
                        "(harness/props/c20.py cell_outputs) is faithful; the stated embedding is re-checked by TLC"]


def replay(ctx, payload):
    inp = payload["input"]
    seed = payload["seed"]
    if inp["kind"] == "poly":
        core.import_forsys()
        with core.quiet_stdout():
            evs = [poly_event(1, inp["P"], inp.get("src", "replay"), seed)]
        c = 1
    elif inp["kind"] == "catalogue":
        with core.quiet_stdout():
            c, evs = _catalogue_job((1, inp["base"], inp, seed))
    else:
        with core.quiet_stdout():
            c, evs = _voronoi_job((1, inp["seed"]))
    ctx.add_case(inp)
    v = ctx.validate("Trace_CellGeom", [(c, evs)], heap="1g")
    ctx.judge(v, {c: inp})

"""C16 — angle-limit exclusion drops exactly the flagged interfaces and solves the rest.

Spec: Trace_Inference.tla C16Build / C16Solve: a junction is flagged iff some pair of the unit directions the
implementation assigns to its interfaces (logged through the public get_versor_from_vertex; their correctness
is C02's business) has dot <= cos(limit) (decided in fixed point, decisions within 2e-4 of the threshold are
rejected input); an internal interface is excluded iff both end junctions are flagged; excluded interfaces are
reported as -1 at their own position; the other positions hold the non-negative least-squares optimum of the
system restricted to the remaining interfaces (the C05 certificate on the restricted system); with the default
limits (pi from ForSys.build_force_matrix, inf from ForceMatrix) nothing is excluded."""
import math
import random

from harness import core, infer

LEVEL = "model_checking"


def specs_for(ctx):
    rng = random.Random(ctx.seed + 16)
    specs = []
    limits = [0.5, 0.6, 0.7, 0.75, 0.8, 0.85, 0.88, 0.9, 0.92, 0.94, 0.96, 0.98, 1.0]
    n = ctx.pick(110, 1200)
    for i in range(n):
        r = rng.random()
        if r < 0.25:
            tissue = {"kind": "catalogue", "base": rng.choice(["hexflower", "hex33", "brick33", "squares33", "irregular"]),
                      "sagitta": rng.choice([None, 0.1, 0.25]), "tseed": rng.randrange(10 ** 6)}
            ext = 10.0
        else:
            tissue = {"kind": "equilibrium", "ncells": rng.choice([6, 12, 20, 35]), "mobius": rng.choice([0.0, 0.7, 1.4]),
                      "noise": rng.choice([0, 0.2, 0.6])}
            ext = 1.0
        lim = rng.choice(["pi", "pi", "pi", "inf"] + [round(f * math.pi, 6) for f in limits] * 2)
        method = rng.choice(["default", "default", "default", "lsq"])
        if method == "lsq" and tissue.get("ncells", 9) > 8:
            tissue["ncells"] = rng.choice([6, 8]) if ctx.quick else rng.choice([6, 8, 12])
        if method == "lsq" and tissue["kind"] == "catalogue":
            tissue["base"] = rng.choice(["hexflower", "hex33"])
        solve = {"method": method, "allow_negatives": rng.random() < 0.7}
        if method == "lsq":
            solve["initial_condition"] = "ones" if rng.random() < 0.5 else "random"
        specs.append({"tissue": tissue, "k": rng.choice([1, 2, 3, 5, 8]), "seed": rng.randrange(10 ** 9), "want": ["C16"],
                      "sim": {"theta": rng.uniform(0, 2 * math.pi), "scale": 10 ** rng.uniform(-1, 1), "offset_sizes": rng.uniform(0, 2),
                              "extent": ext, "reflect": rng.random() < 0.3},
                      "build": {"limit": lim, "fit": rng.choice(["dlite", "taubinSVD"]), "no_metadata": rng.random() < 0.6,
                                # one build in six is the one get_system_velocity_per_frame(angle_limit=limit) makes (default fit only)
                                "via_sysvel": rng.random() < 0.17,
                                # an earlier build with ANOTHER limit on the same session (half of the default-limit cases, a
                                # quarter of the others): nothing of it may survive into the judged build
                                "prebuild": ({"limit": rng.choice(["pi", 2.0, 2.0, 2.6, 2.6, "inf"]), "fit": "dlite", "ignore_four": None}
                                             if rng.random() < (0.5 if lim == "pi" else 0.25) else None)},
                      "solve": solve})
    return specs


def run(ctx):
    import os
    for b in ctx.pick(["hexflower"], ["hexflower", "hex33", "brick33"]):
        ctx.mc("MC_AngleLimit", "MC_AngleLimit.cfg", env={"BASE_FILE": os.path.join(core.VERIF, "models", "catalogue", b + ".json")}, timeout=3000)
    specs = specs_for(ctx)
    verdicts, payloads = infer.run_specs(ctx, specs, prefixes=["C16", "BUILD", "SOLVE"])
    for cid, vjs in verdicts.items():
        hits = set(h for vj in vjs for h in vj.get("hits", []))
        ctx.add_case(payloads[cid], nontrivial=bool(hits & {"C16.some_excluded", "C16.some_excluded_solved"}))
    ctx.judge(verdicts, payloads)
    ctx.rule = ("catalogue tissues (incl. brick lattice / square grid with exactly straight-through pairs, arcs) and random "
                "equilibrium / noisy tissues x limits 0.5pi..pi and the defaults (pi, inf) x default / lsq back-ends (lsq with "
                "user-supplied initial conditions); non-trivial = at least one interface excluded and at least one kept")
    ctx.assumptions += ["interface directions = the unit tangents the implementation assigns (get_versor_from_vertex); C02 judges them",
                        "exact boundary cases (an opening within 2e-4 in cosine of the limit; exactly pi under the default limit pi) are rejected input: "
                        "the statement's two sentences conflict there"]


def replay(ctx, payload):
    verdicts, payloads = infer.run_specs(ctx, [payload["input"]], prefixes=["C16", "BUILD", "SOLVE"])
    ctx.add_case(payload["input"])
    ctx.add_case({"replay": True})
    ctx.judge(verdicts, payloads)

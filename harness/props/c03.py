"""C03 — dynamic inference recovers tensions from junction velocities.

Series in which the displacement of every used junction to the next frame (from the previous one at the last
frame) is elapsed time x resultant of arbitrary positive tensions of mean one (gen: infer.dynamic_events), every
frame independently renumbered, unequal time steps. TLC judges |x_i - T_i| <= tol on the SolveStress event."""
import math
import random

from harness import core, infer

LEVEL = "exploration"


def specs_for(ctx):
    rng = random.Random(ctx.seed + 3)
    specs = []
    for i in range(ctx.pick(120, 4000)):
        nframes = rng.choice([2, 3, 4, 5])
        when = rng.choice([0, nframes - 1, rng.randrange(nframes)])
        method = rng.choice(["default", "default", "lsq", "lsq_linear"])
        kind = rng.random()
        if kind < 0.3:
            tissue = {"kind": "catalogue", "base": rng.choice(["hexflower", "hex33", "irregular"]), "sagitta": rng.choice([None, 0.08, 0.2]),
                      "tseed": rng.randrange(10 ** 6)}
            ext = 10.0
        else:
            tissue = {"kind": "equilibrium", "ncells": rng.choice([6, 10, 16] if method != "default" or ctx.quick else [6, 10, 16, 30]),
                      "mobius": rng.choice([0.0, 0.6, 1.2])}
            ext = 1.0
        align = rng.random() < 0.33
        specs.append({"dynamic": True, "tissue": tissue, "k": rng.choice([1, 1, 2]) if align else rng.choice([1, 2, 4, 8]), "seed": rng.randrange(10 ** 9), "want": ["C03"],
                      "nframes": nframes, "when": when, "zero_stamp": rng.randrange(8) if rng.random() < 0.25 else None, "align": align, "step_frac": rng.choice([0.05, 0.15, 0.3]),
                      "sim": {"theta": rng.uniform(0, 2 * math.pi), "scale": 10 ** rng.uniform(-2, 2), "offset_sizes": rng.uniform(0, 2),
                              "extent": ext, "reflect": rng.random() < 0.3},
                      "build": {"fit": rng.choice(["dlite", "taubinSVD"])}, "solve": {"method": method}})
    return specs


def run(ctx):
    specs = specs_for(ctx)
    verdicts, payloads = infer.run_specs(ctx, specs, prefixes=["C03"])
    for cid, vjs in verdicts.items():
        hits = set(h for vj in vjs for h in vj.get("hits", []))
        ctx.add_case(payloads[cid], nontrivial="C03.clean_case" in hits)
    ctx.judge(verdicts, payloads)
    ctx.rule = ("2..5-frame series of catalogue (line/arc) and Voronoi/Moebius tissues, arbitrary positive tensions of mean one, "
                "displacement = dt x resultant at the inferred frame (forward; backward at the last frame), unequal time steps, every "
                "frame renumbered independently (random offset/stride/order), three back-ends; non-trivial = premise holds "
                "(well-conditioned true system) and no known tangent defect touches the case")
    ctx.assumptions += ["tracking of junctions between frames is correct for these small displacements (C12 judges it)",
                        "tolerance = static tolerance + 3 x max row norm of pinv(true system) x 5e-4 x sqrt(equations), cap 0.15"]


def replay(ctx, payload):
    verdicts, payloads = infer.run_specs(ctx, [payload["input"]], prefixes=["C03"])
    ctx.add_case(payload["input"])
    ctx.add_case({"replay": True})
    ctx.judge(verdicts, payloads)

"""C10 — results are a pure function of frame data and the last call's arguments.

Spec -> code: TLC model-checks the implementation-shaped session model (spec/Session.tla, MC_Session.tla)
exhaustively to a bounded depth (invariants AlignedX / KeyedStoresX / PureResultsX = the property holds
except for instances matched by a known-finding predicate KF_*), shows by vacuity guards that each matcher is
reachable and that the raw properties fail (design-level counterexamples), and produces call histories: the
guards' counterexamples, a transition cover of the state graph to a small depth, and long random walks
(-simulate, 12 calls). Every history is replayed on a fresh real `ForSys` object over a real 3-frame series of
the 9-cell hex33 tissue (curved interfaces, junctions displaced per frame, distinct time stamps, vertex ids and
cell listing order differing per frame).

Code -> spec: after EACH call everything observable is logged (ForSys.forces[t], Frame.forces, BigEdge.tension,
mesh-edge tensions per interface, get_tensions with and without border, Cell.pressure, get_pressures(),
ForSys.pressures, and — for the implementation-shaped layer only — the matrices' exclusion sets). Floats are
projected to symbols by comparison (relative 1e-9) with memoised FRESH-OBJECT reference solutions; labelling is
projection, the verdict "is it the label the specification requires" is TLC's (spec/Trace_Session.tla):

  C10.aligned          i-th reported tension = tension on the i-th internal interface = on each of its mesh edges,
                       unless excluded by the angle limit of the matrix it was solved with
  C10.external_zero    external interfaces (interface, mesh edges, table row) stay at zero
  C10.table_order      the tension table lists exactly the internal interfaces in that order, each row with the
                       tension stored on that interface
  C10.cell_pressure    each cell carries the fresh-object pressure of THAT cell; get_pressures() shows it under its id
  C10.keyed_forces     ForSys.forces[t] = Frame t .forces = frame t's tensions; nothing under an unsolved frame's key
  C10.keyed_pressures  ForSys.pressures is keyed by frame and pressures[t] holds frame t's cell pressures
  C10.pure             everything reported for t equals what a fresh object reports after the last calls' arguments
  C10.raised           an enabled call raised
  drift.*              (note only) Session.tla's own successor state disagrees with the observation

Readings committed to (DESIGN 5.5): "last call's arguments" are per frame — the last build_force_matrix (a
get_system_velocity_per_frame counts as one, fit dlite, for every frame it visits), the last solve_stress that
returned, the tensions present at the last build_pressure_matrix before the last solve_pressure; a call that raised
reports nothing, the previous results must stand; a frame never solved reports what a fresh object reports (None,
zeros, None); equality is relative 1e-9 with the fresh-object value."""
import json
import os
import random

import numpy as np

from harness import core, tissue, build
from harness.gen import catalogue

LEVEL = "model_checking"
PID = "C10"

LOW = 0.85
LIMITS = {"pi": np.pi, "low": LOW * np.pi, "inf": np.inf}
LIM_IDX = {"pi": 0, "low": 1, "inf": 2}
FITS = ["dlite", "taubinSVD"]
METHODS = ["default", "lsq_linear", "lsq", "fix_stress"]
BMODES = ["static", "velocity"]
TIMES = [0.0, 1.5, 4.0]
NFR = 3
K_INTERIOR = 3
ID_OFFSETS = [0, 7, 3]

# label codes (shared with Trace_Session.tla)
L_ZERO, L_MINUS1, L_NOVAL = 0, 1, 2
SOL_BASE, SOL_STRIDE, PRES_BASE, PRES_STRIDE, KEYS_PER_FRAME = 1000, 32, 100000, 16, 48
RTOL = 1e-9
ZTOL = 1e-12


def key_id(t, limit, fit, method, bm):
    return (((t * 3 + LIM_IDX[limit]) * 2 + FITS.index(fit)) * 4 + METHODS.index(method)) * 2 + BMODES.index(bm)


# ------------------------------------------------------------------------------------------
# the real series
# ------------------------------------------------------------------------------------------
# the 3x3 hexagonal patch without its cell 7: cell 6 then hangs on the tissue by a single neighbour, so the series has an
# interface (3|6) whose vertices all belong to two cells but whose two ends are border junctions (external by the rule,
# never tabulated) next to the ordinary internal and border interfaces
CELL_SUBSET = [0, 1, 2, 3, 4, 5, 6, 8]


def base_cells(base):
    return [base["cells"][i] for i in CELL_SUBSET]


def series_desc(gseed):
    """abstract description of the 3-frame series (complete input: model coordinates per frame, bulges)"""
    base = catalogue.load("hex33")
    base = dict(base, cells=base_cells(base))
    rng = random.Random(7919 * gseed + 1234)
    pos0 = {i + 1: (float(p[0]), float(p[1])) for i, p in enumerate(base["pos"])}
    edges, _ = tissue.base_edges(base["cells"])
    bulge = {e: rng.choice([-1, 1]) * rng.uniform(0.04, 0.12) for e in edges}
    disp = {v: (rng.uniform(-1, 1), rng.uniform(-1, 1)) for v in pos0}
    perms = []
    for t in range(NFR):
        order = list(range(len(base["cells"])))
        if t > 0:
            rng.shuffle(order)  # cell listing order differs per frame (mapping_order is per frame)
        perms.append(order)
    return {"base": "hex33", "gseed": gseed, "k": K_INTERIOR, "amp": 0.02,
            "bulge": [[a, b, s] for (a, b), s in bulge.items()],
            "disp": [[v, d[0], d[1]] for v, d in disp.items()], "perms": perms, "times": TIMES,
            "id_offsets": ID_OFFSETS}


def make_frames(sd):
    """fresh Vertex/SmallEdge/Cell/Frame objects (never shared between sessions)"""
    import forsys as fs
    base = catalogue.load(sd["base"])
    base = dict(base, cells=base_cells(base))
    pos0 = {i + 1: (float(p[0]), float(p[1])) for i, p in enumerate(base["pos"])}
    bulge = {(a, b): s for a, b, s in sd["bulge"]}
    disp = {v: (dx, dy) for v, dx, dy in sd["disp"]}
    frames = {}
    for t in range(NFR):
        with np.errstate(all="ignore"):
            pos = {v: (pos0[v][0] + sd["amp"] * t * disp[v][0], pos0[v][1] + sd["amp"] * t * disp[v][1]) for v in pos0}
            desc, _ = tissue.instance_desc(pos, base["cells"], sd["k"], None, id_offset=sd["id_offsets"][t],
                                           bulge=bulge)
            # the same cell ids in every frame, but listed (hence stored in Frame.cells) in a different order per
            # frame: mapping_order of the pressure step is per frame; vertex ids differ per frame (id_offsets)
            byid = [[ci, cyc] for ci, (_, cyc) in enumerate(desc["C"])]
            desc["C"] = [byid[q] for q in sd["perms"][t]]
        v, e, c = build.build_mesh(desc)
        frames[t] = fs.frames.Frame(t, v, e, c, time=sd["times"][t])
    return frames


def canonical_process_state():
    """Every behaviour and every reference run starts from the same process-global state: lmfit already imported
    (the first solve_stress(method='lsq') of a process imports it) and numpy's error state as `import forsys`
    leaves it (all='raise'; parts of forsys use FloatingPointError for control flow). This keeps runs independent
    of which worker process served which case. (A reported effect of the lmfit import on numpy's error state
    could not be reproduced here — the state stays 'raise' after the first lsq solve with lmfit 1.3.4 — it would be
    process history, not object history, and is outside what this check drives.)"""
    try:
        import lmfit  # noqa: F401
    except Exception:
        pass
    np.seterr(all="raise")


def new_session(sd):
    import forsys as fs
    canonical_process_state()
    frames = make_frames(sd)
    return fs.ForSys(frames, cm=False), frames


def frame_struct(fr):
    ids = list(fr.big_edges.keys())
    dense = {k: i + 1 for i, k in enumerate(ids)}
    internal = [dense[b.big_edge_id] for b in fr.internal_big_edges]
    pos = [0] * len(ids)
    for i, j in enumerate(internal):
        pos[j - 1] = i + 1
    return {"nb": len(ids), "nc": len(fr.cells), "internal": internal, "pos": pos,
            "ext": [bool(fr.big_edges[k].external) for k in ids]}


def excluded_positions(fm, fr):
    """1-based positions (order of internal_big_edges) of the interfaces the matrix does not use"""
    used = [tuple(b) for b in fm.big_edges_to_use]
    return [i + 1 for i, b in enumerate(fr.internal_big_edges_vertices) if tuple(b) not in used]


def _struct_job(sd):
    """structure of the series and the exclusion table, by the real code on fresh objects"""
    out = []
    for t in range(NFR):
        excl = {}
        st = None
        for lim in LIMITS:
            excl[lim] = {}
            for fit in FITS:
                s, frames = new_session(sd)
                st = st or frame_struct(frames[t])
                s.build_force_matrix(when=t, angle_limit=LIMITS[lim], circle_fit_method=fit)
                excl[lim][fit] = excluded_positions(s.force_matrices[t], frames[t])
                del s, frames
        st["excl"] = excl
        out.append(st)
    return {"nf": NFR, "frames": out}


def choose_series(seed):
    """first geometry seed (deterministic in VERIF_SEED) for which the low angle limit excludes some but not
    all interfaces in every frame (steering only: TLC's vacuity guards decide whether the stale-exclusion
    scenario is reachable in the model instantiated with this series)"""
    first = None
    with core.quiet_stdout():
        for g in range(100 * seed, 100 * seed + 50):
            sd = series_desc(g)
            st = _struct_job(sd)
            if first is None:
                first = (sd, st)
            ok = all(all(0 < len(f["excl"]["low"][fit]) < len(f["internal"]) - 2 for fit in FITS) and
                     all(len(f["excl"]["pi"][fit]) == 0 for fit in FITS) for f in st["frames"])
            if ok:
                return sd, st
    # never happens on a tree whose angle-limit rule works (C16 owns that); on a tree where it does not, the histories
    # are still replayed on the first geometry with whatever exclusion sets the code produces
    print("NOTE: no series geometry with a partial low-limit exclusion found; using the first geometry")
    return first


def quotient(st):
    """The model-checking instance: the real series with one representative per class of interfaces that
    the session model cannot tell apart (same external / internal status, same membership of every
    exclusion set) and one representative cell. Every interface's value evolves independently of the
    others given the call history, so the reachable state graphs of the full and the reduced instance are
    isomorphic (same distinct-state counts; checked once at small depth) and the invariants are
    conjunctions over interfaces: the reduction is exact, it only makes TLC's per-state work ~8x smaller."""
    out = []
    for f in st["frames"]:
        sig = {}
        reps = []
        for j in range(1, f["nb"] + 1):
            p = f["pos"][j - 1]
            s = (f["ext"][j - 1], p > 0, tuple(p in f["excl"][lim][fit] for lim in LIMITS for fit in FITS))
            if s not in sig:
                sig[s] = j
                reps.append(j)
        newj = {j: q + 1 for q, j in enumerate(reps)}
        internal_old = sorted((f["pos"][j - 1], j) for j in reps if f["pos"][j - 1] > 0)
        newpos = {p: q + 1 for q, (p, _) in enumerate(internal_old)}
        pos = [0] * len(reps)
        for p, j in internal_old:
            pos[newj[j] - 1] = newpos[p]
        out.append({"nb": len(reps), "nc": 1, "internal": [newj[j] for _, j in internal_old], "pos": pos,
                    "ext": [f["ext"][j - 1] for j in reps],
                    "excl": {lim: {fit: [newpos[p] for p in f["excl"][lim][fit] if p in newpos] for fit in FITS}
                             for lim in LIMITS},
                    "rep_of": reps})
    return {"nf": st["nf"], "frames": out}


# ------------------------------------------------------------------------------------------
# calls
# ------------------------------------------------------------------------------------------
def do_call(s, c, nf_model):
    op, t = c["op"], c["t"]
    if op == "BuildForce":
        s.build_force_matrix(when=t, angle_limit=LIMITS[c["limit"]], circle_fit_method=c["fit"])
    elif op == "SolveStress":
        kw = {}
        if c["method"] != "default":
            kw["method"] = c["method"]
        if c["bm"] == "velocity":
            kw["b_matrix"] = "velocity"
        s.solve_stress(when=t, **kw)
    elif op == "BuildPressure":
        s.build_pressure_matrix(when=t)
    elif op == "SolvePressure":
        s.solve_pressure(when=t, method="lagrange_pressure")
    elif op == "SysVel":
        interval = None if nf_model >= NFR else list(range(nf_model))
        s.get_system_velocity_per_frame(time_interval=interval, angle_limit=LIMITS[c["limit"]])
    else:
        raise core.MachineryFailure(f"unknown call {c}")


def visited(c, nf_model):
    return list(range(min(nf_model, NFR))) if c["op"] == "SysVel" else []


# ------------------------------------------------------------------------------------------
# fresh-object references and the projection floats -> labels
# ------------------------------------------------------------------------------------------
REF_VALS = np.zeros(0)
REF_LABS = np.zeros(0, dtype=int)
REF_INFO = {}
PRES_MEMO = {}


def _ref_job(args):
    """reference solution for one key: FRESH objects, the same two calls restricted to frame t.
    `raised` is set only when the CALLS raise on the fresh object (then no history using this key is replayed);
    if they return but the fresh object shows no result under key t, the reference is taken from Frame.forces
    or, failing that, there is none and every comparison with it fails (which is the right verdict)."""
    sd, t, lim, fit, method, bm = args
    kid = key_id(t, lim, fit, method, bm)
    s, frames = new_session(sd)
    try:
        do_call(s, {"op": "BuildForce", "t": t, "limit": lim, "fit": fit}, NFR)
        do_call(s, {"op": "SolveStress", "t": t, "method": method, "bm": bm}, NFR)
    except Exception as exc:
        return kid, None, [], type(exc).__name__
    vec, excl = None, []
    for source in (lambda: s.forces[t], lambda: frames[t].forces):
        try:
            d = source()
            vec = [float(d[i]) for i in range(len(d))]
            break
        except Exception:
            vec = None
    try:
        excl = excluded_positions(s.force_matrices[t], frames[t])
    except Exception:
        excl = []
    return kid, vec, excl, ""


def compute_refs(sd, methods=("default", "lsq_linear", "lsq"), recheck_every=1):
    """all keys (frame x limit x fit x method x b_matrix); every `recheck_every`-th key is computed twice, to
    make sure the reference itself is deterministic (bit-identical) — otherwise labelling by comparison
    would be meaningless"""
    global REF_VALS, REF_LABS, REF_INFO
    jobs = [(sd, t, lim, fit, m, bm) for t in range(NFR) for lim in LIMITS for fit in FITS for m in methods
            for bm in BMODES]
    again = jobs[::recheck_every]
    res = core.parallel_map(_ref_job, jobs + again, chunksize=4)
    first = res[:len(jobs)]
    second = {r[0]: r[1] for r in res[len(jobs):]}
    vals, labs, info = [], [], {}
    for kid, vec, excl, err in first:
        if kid in second:
            w = second[kid]
            same = (vec is None) == (w is None) and (vec is None or (len(vec) == len(w) and all(
                abs(a - b) <= 1e-12 * max(1.0, abs(a)) for a, b in zip(vec, w))))
            if not same:
                raise core.MachineryFailure(f"fresh-object reference for key {kid} is not reproducible")
        info[kid] = {"raised": err, "n": len(vec) if vec else 0}
        if vec is None:
            continue
        for i, x in enumerate(vec):
            if (i + 1) not in excl:
                vals.append(x)
                labs.append(SOL_BASE + kid * SOL_STRIDE + i + 1)
    REF_VALS, REF_LABS, REF_INFO = np.array(vals), np.array(labs, dtype=int), info
    return info


class Labeler:
    """float -> tuple of labels. Tension-like values are compared with 0, -1 and every fresh-object tension
    reference; pressure-like values with 0 and the fresh-object pressures of the snapshots registered in
    this case; anything else is interned as Other (negative id). Projection only."""

    def __init__(self, sd):
        self.sd = sd
        self.others = []
        self.tcache = {}
        self.pcache = {}
        self.snaps = {}   # (t, label key) -> sid
        self.pres = {}    # sid -> np.array of cell pressures

    def _other(self, x):
        for k, r in enumerate(self.others):
            if abs(x - r) <= RTOL * max(1.0, abs(r)):
                return -(k + 1)
        self.others.append(x)
        return -len(self.others)

    def tension(self, x):
        if x is None:
            return (L_NOVAL,)
        x = float(x)
        if x != x:
            return (L_NOVAL,)
        r = self.tcache.get(x)
        if r is None:
            with np.errstate(all="ignore"):
                out = []
                if abs(x) <= ZTOL:
                    out.append(L_ZERO)
                if abs(x + 1.0) <= RTOL:
                    out.append(L_MINUS1)
                if len(REF_VALS):
                    hit = np.abs(REF_VALS - x) <= RTOL * np.maximum(1.0, np.abs(REF_VALS))
                    out.extend(int(v) for v in REF_LABS[hit])
                if not out:
                    out.append(self._other(x))
            r = self.tcache[x] = tuple(out)
        return r

    def pressure(self, x):
        if x is None:
            return (L_NOVAL,)
        x = float(x)
        if x != x:
            return (L_NOVAL,)
        r = self.pcache.get(x)
        if r is None:
            with np.errstate(all="ignore"):
                out = []
                if abs(x) <= ZTOL:
                    out.append(L_ZERO)
                for sid, vec in self.pres.items():
                    tol = RTOL * float(np.max(np.abs(vec))) if len(vec) else 0.0
                    for c, v in enumerate(vec):
                        if abs(x - v) <= tol:
                            out.append(PRES_BASE + sid * PRES_STRIDE + c + 1)
                if not out:
                    out.append(self._other(x))
            r = self.pcache[x] = tuple(out)
        return r

    def register_snapshot(self, t, snap):
        """tensions present on the internal interfaces of frame t at build_pressure_matrix -> snapshot id;
        the reference pressures come from a FRESH object whose interfaces carry exactly these tensions"""
        key = (t, tuple(self.tension(x) for x in snap))
        sid = self.snaps.get(key)
        if sid is not None:
            return sid
        sid = self.snaps[key] = len(self.snaps) + 1
        memo = all(lb >= 0 for ls in key[1] for lb in ls)
        vec = PRES_MEMO.get(key) if memo else None
        if vec is None:
            s, frames = new_session(self.sd)
            try:
                for b, x in zip(frames[t].internal_big_edges, snap):
                    b.tension = x
                s.build_pressure_matrix(when=t)
                s.solve_pressure(when=t, method="lagrange_pressure")
                vec = np.array([np.nan if c.pressure is None else float(c.pressure) for c in frames[t].cells.values()])
            except Exception:
                vec = np.full(len(frames[t].cells), np.nan)  # no reference: nothing will carry this label
            del s, frames
            if memo:
                PRES_MEMO[key] = vec
        self.pres[sid] = vec
        self.pcache.clear()
        return sid


def _table(d, lab, n_expected=None):
    if d is None:
        return {"has": False, "v": []}
    try:
        keys = sorted(k for k in d.keys() if isinstance(k, (int, np.integer)))
        return {"has": True, "v": [lab(d[k]) for k in keys]}
    except Exception:
        try:
            return {"has": True, "v": [lab(x) for x in d]}
        except Exception:
            return {"has": True, "v": []}


def observe(s, lab):
    """everything observable, as indices into a per-event table of label sets"""
    vt, index = [], {}

    def ix(labels):
        k = index.get(labels)
        if k is None:
            vt.append(list(labels))
            k = index[labels] = len(vt)
        return k

    def tl(x):
        return ix(lab.tension(x))

    def pl(x):
        return ix(lab.pressure(x))

    fr = []
    for t in range(NFR):
        f = s.frames[t]
        ids = list(f.big_edges.keys())
        dense = {int(k): i + 1 for i, k in enumerate(ids)}
        cdense = {int(k): i + 1 for i, k in enumerate(f.cells.keys())}
        o = {}
        store = s.forces.get(t) if isinstance(s.forces, dict) else None
        o["forces"] = _table(store, tl)
        o["ff"] = _table(getattr(f, "forces", None), tl)
        o["ifc"] = [tl(f.big_edges[k].tension) for k in ids]
        edge = []
        for k in ids:
            seen = []
            for eid in f.big_edges[k].edges:
                q = tl(f.edges[eid].tension)
                if q not in seen:
                    seen.append(q)
            edge.append(seen)
        o["edge"] = edge
        try:
            df = f.get_tensions(with_border=True)
            o["tab"] = [[dense.get(int(i), 0), tl(x)] for i, x in zip(df["id"].tolist(), df["stress"].tolist())]
            o["tabi"] = [dense.get(int(i), 0) for i in f.get_tensions()["id"].tolist()]
        except Exception:
            o["tab"], o["tabi"] = [], []
        o["cellp"] = [pl(c.pressure) for c in f.cells.values()]
        try:
            df = f.get_pressures()
            o["gp"] = [[cdense.get(int(i), 0), pl(x)] for i, x in zip(df["id"].tolist(), df["pressure"].tolist())]
        except Exception:
            o["gp"] = []
        m = s.force_matrices.get(t)
        if m is None:
            o["fm"] = {"has": False, "excl": [], "short": 0}
        else:
            o["fm"] = {"has": True, "excl": excluded_positions(m, f),
                       "short": int(len(m.big_edges_to_use) - m.matrix.shape[1])}
        o["pm"] = {"has": t in s.pressure_matrices}
        fr.append(o)
    p = s.pressures
    if isinstance(p, dict):
        ps = {"kind": "dict", "d": [_table(p.get(t), pl) for t in range(NFR)], "l": []}
    elif isinstance(p, (list, tuple, np.ndarray)):
        ps = {"kind": "list", "d": [{"has": False, "v": []} for _ in range(NFR)], "l": [pl(x) for x in p]}
    else:
        ps = {"kind": "other", "d": [{"has": False, "v": []} for _ in range(NFR)], "l": []}
    return {"vt": vt, "fr": fr, "ps": ps}


def replay_history(case, sd, struct, calls, nf_model):
    """fresh objects; perform the calls; log an Obs after EACH call"""
    s, frames = new_session(sd)
    lab = Labeler(sd)
    evs = [{"case": case, "ev": "Begin", "struct": struct}]
    for c in calls:
        raised = ""
        try:
            do_call(s, c, nf_model)
        except Exception as exc:
            raised = type(exc).__name__
        snapid = 0
        if c["op"] == "BuildPressure" and not raised:
            snapid = lab.register_snapshot(c["t"], [b.tension for b in s.frames[c["t"]].internal_big_edges])
        evs.append({"case": case, "ev": "Call", "op": c["op"], "t": c["t"], "limit": c["limit"], "fit": c["fit"],
                    "method": c["method"], "bm": c["bm"], "frames": visited(c, nf_model), "snapid": snapid,
                    "raised": raised, "obs": observe(s, lab)})
    del s, frames
    return evs


def _replay_job(args):
    case, sd, struct, calls, nf_model = args
    return case, replay_history(case, sd, struct, calls, nf_model)


# ------------------------------------------------------------------------------------------
# TLC jobs (started without blocking: the exhaustive runs overlap with the replay)
# ------------------------------------------------------------------------------------------
def tlc_start(ctx, name, cfg, env, workers=1, extra=(), heap="2g"):
    import subprocess
    import time
    d = os.path.join(ctx.rundir, "tlc")
    os.makedirs(d, exist_ok=True)
    meta = os.path.join(core.VERIF, "run", "_meta", f"MC_Session-{name}-{os.getpid()}-{time.time_ns()}")
    os.makedirs(meta, exist_ok=True)
    out = os.path.join(d, name + ".out")
    cmd = ["java", "-XX:+UseParallelGC", "-XX:ParallelGCThreads=2", "-Xss64m", f"-Xmx{heap}", "-cp", core.TLA_CP, "tlc2.TLC", "-workers", str(workers),
           "-metadir", meta, "-noGenerateSpecTE", "-config", cfg] + list(extra) + ["MC_Session"]
    e = dict(os.environ)
    e.pop("JAVA_TOOL_OPTIONS", None)
    e.update({k: str(v) for k, v in env.items()})
    fh = open(out, "w")
    p = subprocess.Popen(cmd, cwd=core.SPEC, env=e, stdout=fh, stderr=subprocess.STDOUT)
    return {"name": name, "cfg": cfg, "p": p, "fh": fh, "out": out, "meta": meta, "t0": time.time()}


def tlc_wait(job, timeout):
    import shutil
    import subprocess
    import time
    try:
        job["p"].wait(timeout=timeout)
    except subprocess.TimeoutExpired:
        job["p"].kill()
        raise core.MachineryFailure(f"TLC timeout after {timeout}s on MC_Session/{job['cfg']}")
    finally:
        job["fh"].close()
        shutil.rmtree(job["meta"], ignore_errors=True)
    res = core.TLCResult(open(job["out"]).read(), job["p"].returncode, time.time() - job["t0"])
    import re
    m = re.search(r"Finished in (?:(\d+)h )?(?:(\d+)min )?(\d+)s", res.out)   # TLC's own wall time (the job may have
    if m:                                                                    # finished long before it was waited for)
        res.wall = int(m.group(1) or 0) * 3600 + int(m.group(2) or 0) * 60 + int(m.group(3))
    return res


def uses_key_without_reference(calls, nf_model, bad):
    """does the history solve with options for which the FRESH object raises (no label exists)? Bookkeeping of
    the last build options per frame, the way the calls define them."""
    cur = {}
    for c in calls:
        if c["op"] == "BuildForce":
            cur[c["t"]] = (c["limit"], c["fit"])
        elif c["op"] == "SysVel":
            for t in visited(c, nf_model):
                cur[t] = (c["limit"], "dlite")
        elif c["op"] == "SolveStress" and c["method"] != "fix_stress" and c["t"] in cur:
            if key_id(c["t"], cur[c["t"]][0], cur[c["t"]][1], c["method"], c["bm"]) in bad:
                return True
    return False


def histories(res):
    return [r["hist"] for r in res.printed if "hist" in r]


def account(ctx, job, res, count=True):
    if count:
        ctx.states += res.distinct
        ctx.transitions += res.generated
    ctx.mc_jobs.append({"module": "MC_Session", "cfg": job["cfg"], "distinct": res.distinct,
                        "generated": res.generated, "depth": res.depth, "wall_s": round(res.wall, 1),
                        "completed": res.completed, "invariant_violated": res.invariant_violated})


CLAUSES = ["C10.aligned", "C10.external_zero", "C10.table_order", "C10.cell_pressure", "C10.keyed_forces",
           "C10.keyed_pressures", "C10.pure", "C10.raised"]
# vacuity guards whose counterexamples are replayed. StaleExcluded, PressuresOverwritten and raw KeyedStores were
# reachable before the repairs 02a1c4b / f3930f6; with ExcludedReset = PressuresKeyed = TRUE they are unreachable (a guard
# run would have to exhaust the bounded space to say so), so they are no longer run; the exhaustive jobs check the
# corresponding invariants (AlignedX, KeyedStoresX, PureResultsX) directly.
GUARDS = ["FixStress", "PureResults"]


def _phase(name, t=[None]):
    """C10_PROFILE=1: wall / CPU (self + waited-for children) per phase on stderr"""
    if not os.environ.get("C10_PROFILE"):
        return
    import resource
    import sys
    import time
    a, b = resource.getrusage(resource.RUSAGE_SELF), resource.getrusage(resource.RUSAGE_CHILDREN)
    now = (time.time(), a.ru_utime + a.ru_stime + b.ru_utime + b.ru_stime)
    if t[0]:
        print(f"PHASE {name}: wall {now[0] - t[0][0]:.1f}s cpu {now[1] - t[0][1]:.1f}s", file=sys.stderr)
    t[0] = now


def run(ctx):
    _phase("start")
    sd, st = choose_series(ctx.seed)
    _phase("choose_series")
    os.makedirs(ctx.rundir, exist_ok=True)
    full = os.path.join(ctx.rundir, "series.json")
    red = os.path.join(ctx.rundir, "series_mc.json")
    with open(full, "w") as f:
        json.dump(st, f)
    with open(red, "w") as f:
        json.dump(quotient(st), f)
    env = {"C10_SERIES": red}
    # exhaustive runs: exact breadth-first levels need one worker (with several workers the level at which
    # TLC first reaches a state is not deterministic); independent runs are separate JVMs
    exh = [tlc_start(ctx, c[:-4], c, env, heap=ctx.pick("2g", "4g")) for c in
           ctx.pick(["MC_Session.cfg", "MC_Session_nf1.cfg"],
                    ["MC_Session_thorough.cfg", "MC_Session_thorough_nf1.cfg", "MC_Session_thorough_nf3.cfg"])]
    nwalks = ctx.pick(200, 3000)
    cover = tlc_start(ctx, "cover", ctx.pick("MC_Session_cover.cfg", "MC_Session_cover_thorough.cfg"), env)
    sim = tlc_start(ctx, "sim", "MC_Session_sim.cfg", env,
                    extra=("-simulate", f"num={nwalks}", "-depth", "13", "-seed", str(ctx.seed + 1)))
    guards = [tlc_start(ctx, "guard_" + g, f"MC_Session_guard_{g}.cfg", env) for g in GUARDS]

    info = compute_refs(sd, recheck_every=ctx.pick(9, 1))
    _phase("references")
    raised = sorted(kid for kid, i in info.items() if i["raised"])
    if raised:
        ctx.note(f"solve_stress raises on a FRESH object for {len(raised)} of {len(info)} option keys on this tissue "
                 f"(first: key {raised[0]}, {info[raised[0]]['raised']}); histories using them are not replayed")
    noref = sorted(kid for kid, i in info.items() if not i["raised"] and not i["n"])
    if noref:
        ctx.note(f"a FRESH object reports no tensions under key t after solving for {len(noref)} option keys "
                 f"(first: key {noref[0]}): nothing can carry their labels")
    cases = []   # (kind, nf_model, calls)
    reach = {}
    for g, job in zip(GUARDS, guards):
        res = tlc_wait(job, 600)
        account(ctx, job, res, count=False)
        violated = bool(res.invariant_violated)
        reach[g] = violated
        if not violated and not res.completed:
            raise core.MachineryFailure(f"guard run {g} failed:\n{res.error_text()}")
        for h in histories(res):
            cases.append(("counterexample:" + g, 2, h))
    ctx.extra["model_counterexamples_reachable"] = reach
    for g in ("FixStress",):
        if not reach[g]:
            ctx.note(f"matcher KF_{g} is unreachable in the session model (bounded): it matches nothing")
    res = tlc_wait(cover, 1800)
    account(ctx, cover, res, count=False)
    if not res.completed:
        raise core.MachineryFailure(f"cover run failed:\n{res.error_text()}")
    paths = histories(res)
    plen = max(len(h) for h in paths)
    rng = random.Random(ctx.seed)
    maximal = [h for h in paths if len(h) == plen]
    if ctx.quick:
        keep = [h for h in paths if len(h) == 1] + rng.sample(maximal, min(120, len(maximal)))
    else:
        keep = maximal
    ctx.extra["transition_cover"] = {"depth": plen, "transitions_in_graph": len(paths), "replayed": len(keep),
                                     "complete": not ctx.quick}
    for h in keep:
        cases.append(("cover", 2, h))
    res = tlc_wait(sim, 1800)
    account(ctx, sim, res, count=False)
    walks = histories(res)
    if len(walks) != nwalks or res.invariant_violated:
        raise core.MachineryFailure(f"simulation produced {len(walks)}/{nwalks} walks:\n{res.error_text()}")
    for h in walks:
        cases.append(("walk", NFR, h))

    _phase("tlc guards/cover/sim")
    bad = {kid for kid, i in info.items() if i["raised"]}
    if bad:
        kept = [c for c in cases if not uses_key_without_reference(c[2], c[1], bad)]
        ctx.note(f"{len(cases) - len(kept)} histories not replayed: they solve with options for which a fresh object "
                 f"raises on this tissue (no reference to compare with)")
        cases = kept
    jobs, payloads = [], {}
    for n, (kind, nf_model, calls) in enumerate(cases, start=1):
        payloads[n] = {"kind": kind, "gseed": sd["gseed"], "nf": nf_model, "calls": calls}
        ctx.add_case(payloads[n], nontrivial=any(c["op"] in ("SolveStress", "SolvePressure") for c in calls))
        jobs.append((n, sd, st, calls, nf_model))
    results = core.parallel_map(_replay_job, jobs, chunksize=2)
    _phase("replay")
    verdicts = ctx.validate("Trace_Session", results, env={"C10_SERIES": full}, heap="2g")
    _phase("trace validation")
    drift = {}
    for cid, vjs in sorted(verdicts.items()):
        for vj in vjs:
            for d in vj.get("drift", []):
                drift.setdefault(d, [cid, 0])[1] += 1
    for d, (cid, n) in sorted(drift.items()):
        ctx.note(f"model_drift {d}: the implementation-shaped model (Session.tla) disagrees with the code in {n} "
                 f"event(s), first in case {cid} ({payloads[cid]['kind']})")
    ctx.extra["model_drift"] = {d: n for d, (cid, n) in drift.items()}
    ctx.judge(verdicts, payloads)
    # core prints the first 40 violation lines only: violations no known-finding predicate matches go first
    ctx.violations.sort(key=lambda v: v[1].startswith("KF_"))
    by_clause = {}
    for cid, clause in sorted({(v[0], v[1]) for v in ctx.violations}):
        by_clause[clause] = by_clause.get(clause, 0) + 1
    ctx.extra["violating_cases_by_clause"] = by_clause

    missing = [c for c in CLAUSES if not ctx.clause_hits.get(c)]
    if missing:
        raise core.MachineryFailure(f"clauses never exercised by this run (vacuous): {missing}")
    for job in exh:
        res = tlc_wait(job, ctx.pick(900, 5400))
        account(ctx, job, res)
        if res.invariant_violated or not res.completed:
            raise core.MachineryFailure(
                f"session model {job['cfg']}: {res.invariant_violated or 'did not complete'} — the model deviates "
                f"from the property by something no known-finding predicate matches:\n{res.error_text()}")
    _phase("wait exhaustive")
    ctx.rule = ("Histories come from TLC: counterexamples of the vacuity guards, a transition cover of the state "
                "graph to a small depth (every call sequence TLC generated; quick tier: all of length 1 and a "
                "seeded sample of the longest), and random walks of 12 calls from TLC's simulator over 3 frames. "
                "Each is replayed on a fresh real ForSys object over a real 3-frame series of the 9-cell hex33 "
                "tissue and judged after every call. Non-trivial = contains solve_stress or solve_pressure; "
                "distinct = distinct call sequence.")
    ctx.exhaustive = True
    ctx.extra["exhaustive_scope"] = {
        "what": "session model, all call histories to the stated depth (calls), breadth-first, exact levels",
        "jobs": [j["cfg"] for j in exh], "series_gseed": sd["gseed"],
        "instance": "real series reduced to one representative per class of indistinguishable interfaces "
                    "(isomorphic state graph)"}
    ctx.extra["series"] = sd
    ctx.assumptions += [
        "TLC/SANY and the CommunityModules Json reader are trusted",
        "the projection (floats -> labels by comparison with fresh-object references, relative 1e-9) is faithful; "
        "the numerical back-ends are deterministic for identical inputs (checked: every reference is computed twice)",
        "Excluded[t][limit][fit] and the internal/external classification are taken from the real code on a fresh "
        "object (their correctness is C16's and C08's business)",
        "one series geometry per seed (9-cell hex33, k=3 interior points, curved interfaces)"]


def replay(ctx, payload):
    inp = payload["input"]
    with core.quiet_stdout():
        sd = series_desc(inp["gseed"])
        st = _struct_job(sd)
    full = os.path.join(ctx.rundir, "series.json")
    with open(full, "w") as f:
        json.dump(st, f)
    compute_refs(sd)
    ctx.add_case(inp)
    ctx.add_case({"replay": True})
    results = core.parallel_map(_replay_job, [(1, sd, st, inp["calls"], inp["nf"])])
    v = ctx.validate("Trace_Session", results, env={"C10_SERIES": full}, heap="2g")
    ctx.judge(v, {1: inp})

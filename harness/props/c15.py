"""C15 -- skeleton images are parsed into the tissue's true topology.

TLC does not model OpenCV. spec/Skeleton.tla states the OUTCOME of parsing as a predicate over
(image-derived truth, parsed mesh); the binding is trace validation (spec/Trace_Skeleton.tla):
this driver rasterises / loads an image, presents it in several readings (8 symmetries of the
square, padding, mirror_y, ne = 3..9), runs the real parser (Skeleton -> create_lattice ->
generate_mesh -> Frame) and projects; harness/imgtopo.py (numpy/scipy only, no OpenCV) supplies
the truth and the pixel summary of the premise; TLC judges every clause and the premise.

Spec -> code: MC_Skeleton.tla enumerates every three-armed junction window (all orientations)
together with the specification's notion of minimality, MC_SkeletonRooms.tla every wall layout
of a small grid of rooms; each instance is emitted as a tiny image and replayed through the
real parser under the same trace specification.

Python computes no verdict: cover / border / orient / perm are projections (which region labels lie
near a vertex, which flag a cell carries, how labels of a transformed image map to the base)."""
import json
import os
import random
import traceback

import numpy as np

from harness import core, project, imgtopo
from harness.gen import raster

LEVEL = "exploration"
PID = "C15"

SHIPPED = ["tests/data/test_nonzero.tif", "tests/data/experimental/exp_1.tif"] + \
          [f"examples/data/in_vivo/t_{i}.tif" for i in range(5)]
MESH_KEYS = ("nv", "ne", "nc", "oe", "oc", "E", "C", "vkey", "ekey", "ckey")
BASE_TF = {"sym": "id", "pad": [0, 0, 0, 0], "mirror": False, "ne": 6}


def img_dir():
    d = os.path.join(core.VERIF, "run", PID, "img")
    os.makedirs(d, exist_ok=True)
    return d


# ------------------------------------------------------------------------------------------------
# projection
# ------------------------------------------------------------------------------------------------
def _cells_view(cells, aux, mirror_max_y):
    cover, border, orient = [], [], []
    with np.errstate(all="ignore"):
        for c in cells.values():
            common = None
            xs, ys = [], []
            for v in c.vertices:
                near = imgtopo.labels_near(aux, v.x, v.y, mirror_max_y)
                common = near if common is None else (common & near)
                xs.append(float(v.x))
                ys.append(float(v.y))
            cover.append(sorted(common or []))
            border.append(bool(c.is_border))
            x, y = np.array(xs), np.array(ys)
            a2 = float(np.dot(x, np.roll(y, 1)) - np.dot(y, np.roll(x, 1))) if len(xs) else 0.0
            orient.append(1 if a2 > 0 else (-1 if a2 < 0 else 0))
    return cover, border, orient


def _mesh(vertices, edges, cells):
    m, vi, ei, ci = project.project_mesh(vertices, edges, cells)
    return {k: m[k] for k in MESH_KEYS}, vi, ei, ci


def _exc(exc):
    tb = traceback.extract_tb(exc.__traceback__)
    where = f"{tb[-1].name}:{tb[-1].lineno}" if tb else ""
    return type(exc).__name__, f"{type(exc).__name__}: {str(exc)[:80]} @ {where}"


def reading_events(case, rd, img, kind, tf, reg, base_lab, path, expect=None):
    """one reading of one image -> trace events. img: the presentation (uint8 with frame), already saved at path."""
    import forsys as fs
    truth, aux = imgtopo.analyse(img)
    # region label of this presentation -> base label (geometric correspondence)
    if base_lab is None:
        perm = list(range(1, truth["nreg"] + 1))
    else:
        lab_t = raster.transform(np.pad(base_lab, 1), tf, frame=False)[1:-1, 1:-1]
        perm = [0] * truth["nreg"]
        rr, cc = np.nonzero(aux["lab"])
        perm_arr = np.zeros(truth["nreg"] + 1, int)
        perm_arr[aux["lab"][rr, cc]] = lab_t[rr, cc]
        perm = [int(x) for x in perm_arr[1:]]
    evs = [{"case": case, "ev": "Env", "rd": rd, "kind": kind, "tf": {"sym": tf["sym"], "pad": list(tf["pad"]),
                                                                   "mirror": bool(tf["mirror"])},
            "ne": tf["ne"], "truth": truth, "perm": perm, "reg": reg}]
    if expect is not None and rd == 1:
        # label -> model rank of the region, read at the centre pixel of every room (projection)
        rankmap = [0] * truth["nreg"]
        for room, (r, c) in enumerate(reg["centres"]):
            lab = int(aux["lab"][r - 1, c - 1])
            if lab:
                rankmap[lab - 1] = int(expect["rooms"][room])
        evs[0]["expect"] = {k: v for k, v in expect.items() if k != "rooms"}
        evs[0]["rankmap"] = rankmap
    sym_ev = {"case": case, "ev": "Sym", "rd": rd}
    mirror_max_y = None
    if tf["mirror"]:
        rows = np.nonzero(aux["fg"].any(axis=1))[0]
        mirror_max_y = int(rows.max()) if len(rows) else 0
    # --- parse
    try:
        sk = fs.skeleton.Skeleton(path, mirror_y=bool(tf["mirror"]))
        vertices, edges, cells = sk.create_lattice()
        del sk
        m, vi, ei, ci = _mesh(vertices, edges, cells)
        cover, border, orient = _cells_view(cells, aux, mirror_max_y)
    except Exception as exc:
        name, text = _exc(exc)
        evs.append({"case": case, "ev": "Parse", "raised": text, "exc": name})
        return evs + [sym_ev]
    evs.append({"case": case, "ev": "Parse", "raised": "", "exc": "", "mesh": m, "cover": cover, "border": border,
                "orient": orient})
    # --- resample
    try:
        vertices, edges, cells, _ = fs.virtual_edges.generate_mesh(vertices, edges, cells, ne=tf["ne"])
        m, vi, ei, ci = _mesh(vertices, edges, cells)
        cover, border, orient = _cells_view(cells, aux, mirror_max_y)
    except Exception as exc:
        name, text = _exc(exc)
        evs.append({"case": case, "ev": "Resample", "raised": text, "exc": name, "ne": tf["ne"]})
        return evs + [sym_ev]
    evs.append({"case": case, "ev": "Resample", "raised": "", "exc": "", "ne": tf["ne"], "mesh": m, "cover": cover,
                "border": border})
    # --- frame
    try:
        fr = fs.frames.Frame(0, vertices, edges, cells, time=0)
        f = project.project_frame(fr, vi, ei, ci, lookups=False)
        del fr
    except Exception as exc:
        name, text = _exc(exc)
        evs.append({"case": case, "ev": "Frame", "raised": text, "exc": name})
        return evs + [sym_ev]
    evs.append({"case": case, "ev": "Frame", "raised": "", "exc": "",
                "f": {"ifaces": f["ifaces"], "internal": f["internal"], "own_cells": f["own_cells"]}})
    return evs + [sym_ev]


# ------------------------------------------------------------------------------------------------
# cases
# ------------------------------------------------------------------------------------------------
def readings_for(rng, kind, quick, big=False):
    """list of presentations; the first is the base"""
    nes = [3, 4, 5, 6, 7, 8, 9]
    rng.shuffle(nes)
    out = [dict(BASE_TF, ne=nes[0])]
    if kind in ("junction", "rooms"):
        # the model enumerates every orientation itself: base + mirror_y (+ one symmetry as a cross-check)
        out.append({"sym": "id", "pad": [0, 0, 0, 0], "mirror": True, "ne": nes[1]})
        return out
    syms = raster.SYMS[1:]
    if kind == "shipped" and quick:
        syms = rng.sample(syms, 1 if big else 2)
    for i, s in enumerate(syms):
        out.append({"sym": s, "pad": [0, 0, 0, 0], "mirror": rng.random() < 0.35, "ne": nes[(i + 1) % 7]})
    out.append({"sym": "id", "pad": [0, 0, 0, 0], "mirror": True, "ne": nes[2]})
    if big and quick:
        return out
    out.append({"sym": rng.choice(raster.SYMS), "pad": [rng.choice([0, 1, 3, 17]) for _ in range(4)],
                "mirror": False, "ne": nes[3]})
    out[-1]["pad"][rng.randrange(4)] = rng.choice([1, 2, 7])
    return out


def base_image(spec):
    """-> (img, reg) for a case spec, or (None, reason)"""
    kind = spec["kind"]
    if kind == "voronoi":
        rng = random.Random(spec["seed"])
        img, meta = raster.voronoi_image(rng, spec["ncells"], spec["px"])
        if img is None:
            return None, "generator gave up"
        return img, {"min_angle_mdeg": meta["min_angle_mdeg"], "min_ridge_mpx": meta["min_ridge_mpx"],
                     "px": spec["px"], "ncells": spec["ncells"]}
    if kind == "shipped":
        from PIL import Image
        with Image.open(os.path.join(core.REPO, spec["path"])) as im:
            arr = np.array(im.convert("L"))
        return ((arr > 0) * 255).astype(np.uint8), {"px": 0}
    if kind == "junction":
        img, kept = raster.junction_image([tuple(p) for p in spec["window"]], [tuple(p) for p in spec["exits"]],
                                          spec["n"], order=spec.get("order", "raster"))
        return img, {"window_kept": bool(kept)}
    if kind == "rooms":
        img = raster.rectilinear_image(spec["nx"], spec["ny"], spec["hwalls"], spec["vwalls"], cell=spec.get("cell", 12),
                                       order=spec.get("order", "raster"))
        cell = spec.get("cell", 12)
        centres = [[1 + 2 + j * cell + cell // 2, 1 + 2 + i * cell + cell // 2]
                   for j in range(spec["ny"]) for i in range(spec["nx"])]
        return img, {"px": cell, "centres": centres}
    raise core.MachineryFailure(f"unknown case kind {kind}")


def case_job(args):
    case, spec = args
    img, reg = base_image(spec)
    if img is None:
        return case, [], {"skipped": reg}
    kind = spec["kind"]
    evs = []
    base_lab = None
    for rd, tf in enumerate(spec["readings"], start=1):
        pres = raster.transform(img, tf)
        ext = ".png" if (case + rd) % 3 == 0 else ".tif"
        path = os.path.join(img_dir(), f"case{case}_r{rd}{ext}")
        raster.save(pres, path, mode="L" if (case + rd) % 2 else "RGB")
        evs += reading_events(case, rd, pres, kind, tf, reg, base_lab, path, spec.get("expect"))
        if rd == 1:
            lab, _ = _labels(pres)
            base_lab = lab
        if not spec.get("keep_images"):
            try:
                os.remove(path)
            except OSError:
                pass
    return case, evs, {"reg": reg, "shape": list(img.shape)}


def _labels(img):
    import scipy.ndimage as ndi
    with np.errstate(all="ignore"):
        return ndi.label(~(img[1:-1, 1:-1] > 0))


# ------------------------------------------------------------------------------------------------
# model-checking jobs -> cases
# ------------------------------------------------------------------------------------------------
def mc_cases(ctx):
    specs = []
    res = ctx.mc("MC_Skeleton", ctx.pick("MC_Skeleton.cfg", "MC_Skeleton_thorough.cfg"), timeout=1500, workers=8, heap="3g")
    for inst in sorted(res.printed, key=lambda r: json.dumps(r, sort_keys=True)):
        specs.append({"kind": "junction", "n": inst["n"], "window": inst["window"], "exits": inst["exits"],
                      "order": "raster" if len(specs) % 2 == 0 else "reverse"})
    ctx.extra["mc_junction_windows"] = len(res.printed)
    res = ctx.mc("MC_SkeletonRooms", ctx.pick("MC_SkeletonRooms.cfg", "MC_SkeletonRooms_thorough.cfg"), timeout=1500,
                 workers=8, heap="3g")
    for inst in sorted(res.printed, key=lambda r: json.dumps(r, sort_keys=True)):
        specs.append({"kind": "rooms", "nx": inst["nx"], "ny": inst["ny"], "hwalls": inst["hwalls"],
                      "vwalls": inst["vwalls"], "expect": inst["expect"],
                      "order": "raster" if len(specs) % 2 == 0 else "reverse"})
    ctx.extra["mc_room_layouts"] = len(res.printed)
    return specs


# ------------------------------------------------------------------------------------------------
# run
# ------------------------------------------------------------------------------------------------
def voronoi_specs(ctx):
    n = ctx.pick(12, 160)
    specs = []
    for i in range(n):
        rng = random.Random(ctx.seed * 100003 + i)
        if ctx.quick:
            ncells = rng.choice([4, 5, 6, 7, 8, 10, 12])
            px = rng.choice([37, 38, 40, 42, 45])
        else:
            ncells = rng.choice([4, 5, 6, 8, 10, 14, 20, 30, 45, 60]) if i % 10 else rng.choice([45, 60])
            px = rng.choice([37, 40, 50, 60, 75, 88]) if ncells <= 20 else rng.choice([37, 40, 50])
        specs.append({"kind": "voronoi", "seed": ctx.seed * 7919 + i, "ncells": ncells, "px": px})
    return specs


def shipped_specs(ctx):
    # quick: the two test fixtures and the one in-vivo frame without fused junctions
    paths = SHIPPED[:2] + [SHIPPED[6]] if ctx.quick else SHIPPED
    return [{"kind": "shipped", "path": p} for p in paths]


def _drive(ctx, specs, first_case):
    jobs = []
    payloads = {}
    for i, spec in enumerate(specs, start=first_case):
        rng = random.Random(ctx.seed * 65537 + i)
        spec["readings"] = readings_for(rng, spec["kind"], ctx.quick, big="in_vivo" in spec.get("path", ""))
        payloads[i] = spec
        jobs.append((i, spec))
    # biggest images first so that the pool is balanced
    order = sorted(jobs, key=lambda j: -{"shipped": 3, "voronoi": 2}.get(j[1]["kind"], 1))
    return payloads, core.parallel_map(case_job, order, chunksize=1)


def run(ctx):
    specs = shipped_specs(ctx) + voronoi_specs(ctx) + mc_cases(ctx)
    payloads, results = _drive(ctx, specs, 1)
    cases = []
    skipped = 0
    info = {}
    for case, evs, inf in results:
        info[case] = inf
        if not evs:
            skipped += 1
            continue
        cases.append((case, evs))
    nbytes = sum(len(json.dumps(e)) for _, evs in cases for e in evs)
    ctx.extra["trace_bytes"] = nbytes
    shards = min(core.NCPU, max(2, nbytes // 700000))
    verdicts = ctx.validate("Trace_Skeleton", cases, timeout=3000, heap="3g", shards=shards)
    _account(ctx, verdicts, payloads, info, skipped)
    ctx.judge(verdicts, payloads)
    ctx.rule = ("One case = one image in several readings (8 symmetries of the square, padding/translation, mirror_y, "
                "ne cycling through 3..9). Images: every three-armed junction window and every room layout enumerated "
                "by TLC (MC_Skeleton, MC_SkeletonRooms), rasterised Voronoi tissues in the stated regime, shipped "
                "skeletons. Non-trivial = premise accepted by TLC for the base reading and the truth has at least one "
                "internal pair (an interior junction exists).")
    ctx.exhaustive = False
    ctx.extra["exhaustive_subspaces"] = {
        "junction_windows": "every triple of ring pixels of the (2N+1)^2 window with consecutive arms 25..180 degrees apart, "
                            f"N = {ctx.pick(2, 3)} (MC_Skeleton), each replayed through the parser",
        "room_layouts": f"every valid wall layout of a 3 x {ctx.pick(2, 3)} grid of rooms (MC_SkeletonRooms), each replayed"}
    ctx.assumptions += ["TLC/SANY and the CommunityModules Json reader are trusted",
                        "harness/imgtopo.py (4-connected background labelling, junction clusters, pixel chains; "
                        "numpy/scipy.ndimage) reports the image faithfully; cross-checked by TLC against the room "
                        "layouts' model-side truth (clause oracle.rooms) and by Euler's formula in the premise",
                        "OpenCV's contour tracing is a black box: only its outcome is specified",
                        "a cell is identified with the region that lies within 2 px of every one of its vertices",
                        "an enclosed region 4x larger than the mean of the others is a gap, not a cell (premise.gap)"]


def _account(ctx, verdicts, payloads, info, skipped):
    rejected_cases = 0
    reasons = {}
    kinds = {}
    for cid, spec in payloads.items():
        vjs = verdicts.get(cid, [])
        base_ok = bool(vjs) and not vjs[0].get("rejected")
        nontriv = base_ok and any("C15.internal_pairs.nonempty" in v.get("hits", []) for v in vjs)
        pay = {k: v for k, v in spec.items() if k != "readings"}
        ctx.add_case(pay, nontrivial=nontriv)
        k = kinds.setdefault(spec["kind"], {"cases": 0, "accepted": 0, "readings": 0})
        k["cases"] += 1
        k["accepted"] += 1 if base_ok else 0
        k["readings"] += len(spec["readings"])
        if vjs and vjs[0].get("rejected"):
            rejected_cases += 1
        for v in vjs:
            keep = []
            for d in v.get("drift", []):
                if d.startswith("premise."):
                    reasons[d] = reasons.get(d, 0) + 1
                elif d.startswith("oracle."):
                    raise core.MachineryFailure(f"case {cid}: image analysis disagrees with the model-side truth ({d})")
                elif d.startswith("detail."):
                    if v.get("fails"):
                        ctx.note(f"case {cid} {v['ev']}: {d}")
                else:
                    keep.append(d)
                    ctx.note(f"model_drift {d} (first seen in case {cid})")
            v["drift"] = keep
    ctx.extra["by_kind"] = kinds
    ctx.extra["rejected_cases"] = rejected_cases
    ctx.extra["rejected_reasons"] = reasons
    ctx.extra["generator_gave_up"] = skipped
    changed = sum(1 for c, inf in info.items() if inf.get("reg", {}).get("window_kept") is False)
    ctx.extra["junction_windows_changed_by_embedding"] = changed


def replay(ctx, payload):
    spec = payload["input"]
    spec["keep_images"] = True
    if "readings" not in spec:
        spec["readings"] = readings_for(random.Random(payload["seed"]), spec["kind"], payload.get("tier") == "quick",
                                        big="in_vivo" in spec.get("path", ""))
    case, evs, inf = case_job((1, spec))
    if not evs:
        raise core.MachineryFailure(f"replay: image could not be regenerated ({inf})")
    v = ctx.validate("Trace_Skeleton", [(case, evs)], heap="3g")
    _account(ctx, v, {case: spec}, {case: inf}, 0)
    ctx.judge(v, {case: spec})

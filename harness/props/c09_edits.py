"""Spec -> code binding of the edit model (MC_MeshEdits.tla) for C09.

TLC enumerates every bounded sequence of public editing operations on the seed meshes and prints
each reached state with the model's verdict. Every sequence is replayed here on real objects with
the real functions:
  G    forsys.virtual_edges.generate_mesh
  J    forsys.virtual_edges.join_two_vertices
  T3   forsys.skeleton.Skeleton.do_t3_transition            (on a Skeleton object without image)
  TRI  the "triangles in the middle" block of Skeleton.create_lattice   } these blocks are not
  ISO  the isolated-cell block of Skeleton.create_lattice               } callable on their own: the
  ORPH the orphan block of SurfaceEvolver.create_lattice                } block's SOURCE TEXT is cut
       out of the function of the repository under test (between its marker comments) and executed
       on the objects; a missing marker is a machinery failure, never a verdict.
The projected mesh after every operation is judged by TLC (Trace_Edits, `Step` events); the model's
verdict is compared with it (disagreement = model_drift note)."""
import inspect
import os
import textwrap

from harness import core, project

SCOPE = {}
BLOCKS = {
    "TRI": ("skeleton", "Skeleton", "# triangles in the middle", "# get artifacts from the contour"),
    "ISO": ("skeleton", "Skeleton", "# if all vertices in a cell only have that cell as own", "return self.vertices"),
    "ORPH": ("surface_evolver", "SurfaceEvolver", "# delete all vertices and edges with no cell", "return vertices, edges, cells"),
}
_cache = {}


def block_code(name):
    if name in _cache:
        return _cache[name]
    import forsys as fs
    modname, cls, start, end = BLOCKS[name]
    mod = getattr(fs, modname)
    src = inspect.getsource(getattr(mod, cls).create_lattice).replace("\r\n", "\n")
    lines = src.split("\n")
    i0 = [i for i, l in enumerate(lines) if l.strip().startswith(start)]
    i1 = [i for i, l in enumerate(lines) if l.strip().startswith(end)]
    i1 = [i for i in i1 if i0 and i > i0[0]]
    if len(i0) != 1 or not i1:
        raise core.MachineryFailure(f"cannot locate the {name} block in {modname}.{cls}.create_lattice")
    code = compile(textwrap.dedent("\n".join(lines[i0[0]:i1[0]])), f"<{modname}.{cls}.create_lattice:{name}>", "exec")
    _cache[name] = (code, mod)
    return _cache[name]


def build_seed(inst):
    import forsys.vertex as fv
    import forsys.edge as fe
    import forsys.cell as fc
    vertices, edges, cells = {}, {}, {}
    for i, p in enumerate(inst["pos"]):
        vertices[i + 1] = fv.Vertex(i + 1, float(p[0]), float(p[1]))
    seen, prs = set(), []
    for cyc in inst["cells"]:
        for i in range(len(cyc)):
            a, b = cyc[i], cyc[(i + 1) % len(cyc)]
            if frozenset((a, b)) not in seen:
                seen.add(frozenset((a, b)))
                prs.append((a, b))
    prs += [tuple(x) for x in inst["extra"]]
    for k, (a, b) in enumerate(prs):
        edges[k] = fe.SmallEdge(k, vertices[a], vertices[b])
    for k, cyc in enumerate(inst["cells"]):
        cells[k + 1] = fc.Cell(k + 1, [vertices[v] for v in cyc])
    return vertices, edges, cells


def apply(op, vertices, edges, cells):
    import forsys as fs
    import numpy as np
    from collections import Counter
    kind = op["op"]
    if kind == "G":
        vertices, edges, cells, _ = fs.virtual_edges.generate_mesh(vertices, edges, cells, ne=op["ne"],
                                                                   replace_short_edges=op["rse"])
    elif kind == "J":
        vertices, edges, cells, _ = fs.virtual_edges.join_two_vertices(list(op["ids"]), vertices, edges, cells, {})
    elif kind in ("T3", "TRI", "ISO"):
        sk = object.__new__(fs.skeleton.Skeleton)
        sk.vertices, sk.edges, sk.cells = vertices, edges, cells
        if kind == "T3":
            sk.do_t3_transition(list(op["ids"]))
        else:
            code, mod = block_code(kind)
            if kind == "TRI":  # the two statements that precede the block in create_lattice
                sk.all_big_edges = fs.virtual_edges.create_edges_new(sk.vertices, sk.cells)
            ns = dict(vars(mod))
            ns.update({"self": sk, "np": np, "Counter": Counter})
            exec(code, ns)
            ns.clear()
        vertices, edges, cells = sk.vertices, sk.edges, sk.cells
        del sk
    elif kind == "ORPH":
        code, mod = block_code(kind)
        ns = dict(vars(mod))
        ns.update({"vertices": vertices, "edges": edges, "cells": cells})
        exec(code, ns)
        ns.clear()
    else:
        raise core.MachineryFailure(f"unknown op {kind}")
    return vertices, edges, cells


def replay_job(args):
    case, inst = args
    vertices, edges, cells = build_seed(inst)
    m, _, _, _ = project.project_mesh(vertices, edges, cells)
    evs = [{"case": case, "ev": "Mesh", "mesh": m, "raised": "", "src": f"edit-model:{inst['seed']}"}]
    for d, op in enumerate(inst["hist"]):
        raised = ""
        try:
            vertices, edges, cells = apply(op, vertices, edges, cells)
        except core.MachineryFailure:
            raise
        except Exception as exc:
            raised = type(exc).__name__
        ev = {"case": case, "ev": "Step", "op": op["op"], "ne": int(op["ne"]), "rse": bool(op["rse"]), "depth": d}
        if raised:
            ev.update({"mesh": {}, "raised": raised})
            evs.append(ev)
            break
        m, _, _, _ = project.project_mesh(vertices, edges, cells)
        ev.update({"mesh": m, "raised": ""})
        evs.append(ev)
    return case, evs


def run(ctx, payloads, add):
    cfg = ctx.pick("MC_MeshEdits.cfg", "MC_MeshEdits_thorough.cfg")
    res = ctx.mc("MC_MeshEdits", cfg, timeout=6000)
    # only maximal behaviours are replayed step by step (every prefix is judged on the way)
    hists = {(i["seed"], tuple(str(h) for h in i["hist"])) for i in res.printed}
    prefixes = set()
    for i in res.printed:
        hs = tuple(str(h) for h in i["hist"])
        if len(hs) > 1:
            prefixes.add((i["seed"], hs[:-1]))
    jobs = []
    for inst in res.printed:
        key = (inst["seed"], tuple(str(h) for h in inst["hist"]))
        if key in prefixes:
            continue
        cid = add({"kind": "edits", "seed": inst["seed"], "pos": inst["pos"], "cells": inst["cells"],
                   "extra": inst["extra"], "hist": inst["hist"],
                   "model": {"err": inst["merr"], "fails": sorted(inst["mfails"])}})
        jobs.append((cid, payloads[cid]))
    SCOPE.update({"cfg": cfg, "states": len(res.printed), "behaviours_replayed": len(jobs)})
    return core.parallel_map(replay_job, jobs, chunksize=8)      # small meshes: a few kB per behaviour


def compare(ctx, verdicts, payloads):
    """model verdict on the last state of each behaviour vs TLC's verdict on the real objects"""
    seen = set()
    for cid, vjs in sorted(verdicts.items()):
        p = payloads.get(cid, {})
        if p.get("kind") != "edits":
            continue
        last = vjs[-1]
        n_steps = len(vjs) - 1
        model = p["model"]
        code_fails = sorted(c for c in last["fails"] if c != "C09.raised")
        code_raised = any(c.endswith("C09.raised") for c in list(last["fails"]) + list(last.get("kf", [])))
        if n_steps == len(p["hist"]):
            agree = (bool(model["err"]) == code_raised) and (code_raised or last.get("kf") or model["fails"] == code_fails)
        else:
            agree = False  # the code stopped earlier than the model
        if not agree:
            key = (p["seed"], tuple(h["op"] for h in p["hist"]))
            if key not in seen and len(seen) < 20:
                seen.add(key)
                ctx.note(f"model_drift edit-model {p['seed']} {[h['op'] for h in p['hist']]}: model err={model['err']!r} "
                         f"fails={model['fails']} / code fails={last['fails']} kf={last.get('kf')} after {n_steps} steps "
                         f"(case {cid})")

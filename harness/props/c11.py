"""C11 — mesh resampling (generate_mesh) keeps junctions, topology and interface shape.

TLC (MC_Resample) enumerates every sub-tissue of the catalogue tissues x interior points x ne x
replace_short_edges, runs the implementation-shaped transcription of generate_mesh (MeshEdits.tla)
in the model twice and checks it against the declarative verdict (Resample.tla); every leaf is
emitted and replayed on the real generate_mesh: snapshot, call, snapshot, call again, snapshot.
TLC (Trace_Resample) judges every snapshot pair against the same declarative verdict. Random
Voronoi tissues (random cell subsets, 0..40 interior points, tissues at negative coordinates and far
from the origin), the shipped Surface Evolver dumps and the shipped skeleton images go through the
same trace spec.

Python only builds, calls, projects (ids -> dense indices, floats -> fixed point / interned
position ids, ids -> link tables) and relays TLC's verdicts."""
import math
import os
import random

from harness import core, project, build, tissue
from harness.gen import catalogue, voronoi

LEVEL = "model_checking"
PID = "C11"
LIM = 500 * project.QS


def _clamp(i):
    return max(-LIM, min(LIM, i))


def snapshot(vertices, edges, cells, scale, interned):
    """projected mesh + exact-position ids shared by all snapshots of the case + fixed-point positions
    (origin preserving: pos = x * scale, clamped to +-500)"""
    m, _, _, _ = project.project_mesh(vertices, edges, cells)
    m["pid"] = [interned.setdefault((float(v.x), float(v.y)), len(interned) + 1) for v in vertices.values()]
    pos = []
    for v in vertices.values():
        x, y = float(v.x) * scale, float(v.y) * scale
        if not (math.isfinite(x) and math.isfinite(y)):
            x, y = 1e9, 1e9
        pos.append([_clamp(int(round(max(-1e4, min(1e4, x)) * project.QS))),
                    _clamp(int(round(max(-1e4, min(1e4, y)) * project.QS)))])
    m["pos"] = pos
    return m


def link(mb, ma):
    """vertices / cells of the two snapshots with the same original id (dense index, 0 = none)"""
    ai = {k: j + 1 for j, k in enumerate(ma["vid"])}
    bi = {k: j + 1 for j, k in enumerate(mb["vid"])}
    ca = {k: j + 1 for j, k in enumerate(ma["cid"])}
    cb = {k: j + 1 for j, k in enumerate(mb["cid"])}
    return {"b2a": [ai.get(k, 0) for k in mb["vid"]], "a2b": [bi.get(k, 0) for k in ma["vid"]],
            "cb2a": [ca.get(k, 0) for k in mb["cid"]], "ca2b": [cb.get(k, 0) for k in ma["cid"]]}


def scale_of(vertices):
    mx = max([abs(float(v.x)) for v in vertices.values()] + [abs(float(v.y)) for v in vertices.values()] + [1e-300])
    return 400.0 / mx


def resample_events(case, vertices, edges, cells, ne, rse, src, calls=2):
    """Mesh, Resample, Resample(again) events for one case; keeps no SmallEdge / Cell reference"""
    import forsys as fs
    interned = {}
    scale = scale_of(vertices)
    prev = snapshot(vertices, edges, cells, scale, interned)
    evs = [{"case": case, "ev": "Mesh", "mesh": prev, "raised": "", "src": src}]
    for n in range(calls):
        raised, arr = "", []
        try:
            vertices, edges, cells, arr = fs.virtual_edges.generate_mesh(vertices, edges, cells, ne=ne,
                                                                         replace_short_edges=rse)
        except Exception as exc:
            raised = type(exc).__name__
        ev = {"case": case, "ev": "Resample", "ne": int(ne), "rse": bool(rse), "again": n > 0, "raised": raised}
        if raised:
            ev.update({"mesh": {}, "lk": {}, "arr": []})
            evs.append(ev)
            break
        cur = snapshot(vertices, edges, cells, scale, interned)
        ev.update({"mesh": cur, "lk": link(prev, cur), "arr": [[int(x) for x in be] for be in arr]})
        evs.append(ev)
        prev = cur
    return evs


# ---- placements of a tissue in the plane -------------------------------------------------------
MODES = ["positive", "negative", "mixed", "far", "negx", "negy"]


def placement(rng, mode, extent):
    """similarity that puts a tissue of model extent `extent` (max |coordinate|) into the requested region"""
    theta = rng.uniform(0, 2 * math.pi)
    scale = 10 ** rng.uniform(-1, 1)
    r = 1.5 * extent * scale + 1e-9
    d = r * rng.uniform(1.2, 4.0)
    if mode == "positive":
        tx, ty = d, d * rng.uniform(1.0, 2.0)
    elif mode == "negative":
        tx, ty = -d, -d * rng.uniform(1.0, 2.0)
    elif mode == "negx":
        tx, ty = -d, d
    elif mode == "negy":
        tx, ty = d, -d
    elif mode == "far":
        tx, ty = rng.choice([-1, 1]) * 1e4 * scale, rng.choice([-1, 1]) * 3e3 * scale
    else:
        tx, ty = rng.uniform(-0.5, 0.5) * r, rng.uniform(-0.5, 0.5) * r
    return tissue.Similarity(theta, scale, tx, ty, reflect=rng.random() < 0.3)


# ---- jobs (run in worker processes) ---------------------------------------------------------------
def _mc_job(args):
    case, base_name, inst, seed = args
    base = catalogue.load(base_name)
    rng = random.Random(seed * 1000003 + case)
    pos = {i + 1: tuple(p) for i, p in enumerate(base["pos"])}
    ext = max(max(abs(p[0]), abs(p[1])) for p in base["pos"])
    mode = MODES[case % len(MODES)]
    sim = placement(rng, mode, ext)
    desc, _ = tissue.instance_desc(pos, inst["cells"], inst["k"], sim, id_offset=rng.choice([0, 0, 5, 100]),
                                   id_stride=rng.choice([1, 1, 3]))
    try:
        vertices, edges, cells = build.build_mesh(desc)
    except Exception as exc:
        raise core.MachineryFailure(f"building {base_name}:{inst['sub']}: {exc!r}")
    src = f"{base_name}:{inst['sub']}:k{inst['k']}:ne{inst['ne']}:rse{inst['rse']}:{mode}"
    return case, resample_events(case, vertices, edges, cells, inst["ne"], inst["rse"], src)


def voronoi_params(seed, cap):
    """random instance parameters; cap bounds the number of vertices (about 3 * ncells * (k + 1))"""
    rng = random.Random(seed)
    k = rng.choice([0, 0, 1, 2, 3, 5, 8, 13, 21, 40, rng.randint(0, 40)])
    sizes = [n for n in (6, 8, 12, 20, 30, 45) if 3 * n * (k + 1) <= cap] or [6]
    return {"ncells": rng.choice(sizes), "keep": rng.choice([1.0, 0.85, 0.6]), "k": k,
            "ne": rng.randint(1, 12), "rse": rng.random() < 0.6, "mode": rng.choice(MODES)}


def _voronoi_job(args):
    case, seed, cap = args
    p = voronoi_params(seed, cap)
    rng = random.Random(seed + 1)
    pos, cells, _, _ = voronoi.random_tissue(rng, p["ncells"])
    keep = [c for c in cells if rng.random() < p["keep"]] or cells[:1]
    sim = placement(rng, p["mode"], 1.0)
    desc, _ = tissue.instance_desc(pos, keep, p["k"], sim, id_offset=rng.choice([0, 7]), id_stride=rng.choice([1, 2]),
                                   shuffle_rng=rng if rng.random() < 0.5 else None)
    vertices, edges, cells_ = build.build_mesh(desc)
    src = f"voronoi:seed{seed}:n{len(keep)}:k{p['k']}:ne{p['ne']}:rse{p['rse']}:{p['mode']}"
    return case, resample_events(case, vertices, edges, cells_, p["ne"], p["rse"], src)


def _dump_job(args):
    case, path, ne, rse = args
    import forsys as fs
    se = fs.surface_evolver.SurfaceEvolver(os.path.join(core.REPO, path))
    vertices, edges, cells = se.vertices, se.edges, se.cells
    del se
    return case, resample_events(case, vertices, edges, cells, ne, rse, f"{path}:ne{ne}:rse{rse}")


def _skeleton_job(args):
    case, path, ne, rse, reduce = args
    import forsys as fs
    sk = fs.skeleton.Skeleton(os.path.join(core.REPO, path))
    vertices, edges, cells = sk.create_lattice(reduce_amount=reduce) if reduce else sk.create_lattice()
    del sk
    return case, resample_events(case, vertices, edges, cells, ne, rse, f"{path}:ne{ne}:rse{rse}:reduce{reduce}")


DUMPS_QUICK = ["tests/data/initial_furrow.dmp", "examples/data/in_silico/step_0.dmp"]
IMAGES = ["tests/data/test_nonzero.tif", "tests/data/experimental/exp_1.tif"] + \
    [f"examples/data/in_vivo/t_{i}.tif" for i in range(5)]


def all_dumps():
    out = []
    for root in ("tests/data", "examples/data"):
        for d, _, files in os.walk(os.path.join(core.REPO, root)):
            for f in sorted(files):
                if f.endswith(".dmp"):
                    out.append(os.path.relpath(os.path.join(d, f), core.REPO))
    return sorted(out)


def run(ctx):
    plan = ctx.pick([("hexflower", "MC_Resample.cfg"), ("squares33", "MC_Resample_small.cfg")],
                    [("hexflower", "MC_Resample_thorough.cfg"), ("hexflower", "MC_Resample_deep.cfg"),
                     ("squares33", "MC_Resample_mid.cfg"), ("brick33", "MC_Resample_mid.cfg"),
                     ("hex33", "MC_Resample_mid.cfg")])
    jobs, payloads, case, verdicts, results = [], {}, 0, {}, []
    n_mc = 0

    def flush(final=False):
        """thorough tier: validate group by group so that the snapshots do not pile up in memory"""
        nonlocal results
        if results and (final or not ctx.quick):
            verdicts.update(ctx.validate("Trace_Resample", results, heap="3g"))
            results = []

    for b, cfg in plan:
        res = ctx.mc("MC_Resample", cfg, env={"BASE_FILE": os.path.join(core.VERIF, "models", "catalogue", b + ".json")},
                     timeout=6000)
        for inst in res.printed:
            case += 1
            jobs.append((case, b, inst, ctx.seed))
            payloads[case] = {"kind": "mc", "base": b, "sub": inst["sub"], "k": inst["k"], "ne": inst["ne"],
                              "rse": inst["rse"], "cells": inst["cells"], "case": case,
                              "model": {"raised": inst["mraised"], "kf": inst["mkf"], "rejected": inst["mrej"]}}
            ctx.add_case(payloads[case], nontrivial=bool({"C11.subsequence", "C11.contracted"} & set(inst["mhits"])),
                         sample=case % 997 == 1)
        if not ctx.quick:
            n_mc += len(jobs)
            for i0 in range(0, len(jobs), 3000):
                results += core.parallel_map(_mc_job, jobs[i0:i0 + 3000], chunksize=32)
                flush()
            jobs = []
    n_mc += len(jobs)
    results += core.parallel_map(_mc_job, jobs, chunksize=32)
    # random Voronoi tissues
    vjobs = []
    cap = ctx.pick(700, 3000)
    for i in range(ctx.pick(100, 1200)):
        case += 1
        s = ctx.seed * 104729 + i
        vjobs.append((case, s, cap))
        payloads[case] = {"kind": "voronoi", "seed": s, "cap": cap, "params": voronoi_params(s, cap)}
        ctx.add_case(payloads[case], sample=i < 1)
    for i0 in range(0, len(vjobs), 400):
        results += core.parallel_map(_voronoi_job, vjobs[i0:i0 + 400], chunksize=4)
        flush()
    # shipped Surface Evolver dumps and skeleton images
    rng = random.Random(ctx.seed)
    fjobs = []
    dumps = DUMPS_QUICK if ctx.quick else all_dumps()
    for p in dumps:
        if ctx.quick:
            combos = [(rng.randint(1, 12), rng.random() < 0.5) for _ in range(2)]
        elif "furrow" in p:
            combos = [(ne, ne % 2 == 0) for ne in range(1, 13)]
        else:
            combos = [(rng.randint(1, 3), True), (rng.randint(4, 7), False), (rng.randint(8, 12), True), (rng.randint(1, 12), False)]
        for ne, rse in combos:
            case += 1
            fjobs.append((case, p, ne, rse))
            payloads[case] = {"kind": "dump", "path": p, "ne": ne, "rse": rse}
            ctx.add_case(payloads[case], sample=False)
    results += core.parallel_map(_dump_job, fjobs)
    flush()
    sjobs = []
    for p in (IMAGES[:1] if ctx.quick else IMAGES):
        for ne, rse, red in ([(6, True, False)] if ctx.quick else
                             [(1, True, False), (2, False, True), (4, True, True), (6, True, False), (6, False, True),
                              (12, True, False)]):
            case += 1
            sjobs.append((case, p, ne, rse, red))
            payloads[case] = {"kind": "skeleton", "path": p, "ne": ne, "rse": rse, "reduce": red}
            ctx.add_case(payloads[case], sample=False)
    results += core.parallel_map(_skeleton_job, sjobs)
    flush(final=True)
    relay(ctx, verdicts)
    ctx.judge(verdicts, payloads)
    ctx.rule = ("TLC enumerates every non-empty cell subset of each catalogue tissue x interior points per edge x ne x "
                "replace_short_edges and checks the transcription of generate_mesh against the declarative verdict; each "
                "instance is built with real objects (placements: positive / negative / mixed coordinates, far from the "
                "origin; random rotation, scale, id numbering), generate_mesh is called twice and the three snapshots are "
                "judged by TLC; plus random Voronoi tissues (random cell subsets, k in 0..40), shipped Surface Evolver "
                "dumps and skeleton images. Non-trivial (catalogue) = some interface is actually resampled or contracted.")
    ctx.exhaustive = True
    ctx.extra["exhaustive_scope"] = {"plan": plan, "catalogue_instances": n_mc}
    ctx.assumptions += ["TLC/SANY and the CommunityModules Json reader are trusted",
                        "projection (harness/project.py, props/c11.py snapshot/link) copies the implementation's state faithfully",
                        "vertex identity across a call = same id and same exact position (reading R1 of Resample.tla)",
                        "consistency of the resampled mesh is C09's clause; reported here as a note, not counted"]


_SEEN = set()


def relay(ctx, verdicts):
    """C09 clauses on these traces are C09's business (relayed as notes); drift is a note"""
    seen = _SEEN
    for cid, vjs in sorted(verdicts.items()):
        for vj in vjs:
            c09 = sorted(c for c in vj["fails"] if c.startswith("C09"))
            if c09 and tuple(c09) not in seen:
                seen.add(tuple(c09))
                ctx.note(f"resampled mesh inconsistent {c09} (first seen in case {cid}); owned by C09")
            vj["fails"] = [c for c in vj["fails"] if not c.startswith("C09")]
            for d in vj.get("drift", []):
                if d not in seen:
                    seen.add(d)
                    ctx.note(f"model_drift {d} (first seen in case {cid})")


def replay(ctx, payload):
    inp = payload["input"]
    cid = payload["case"]
    if inp["kind"] == "mc":
        job = (_mc_job, (cid, inp["base"], inp, payload["seed"]))
    elif inp["kind"] == "voronoi":
        job = (_voronoi_job, (cid, inp["seed"], inp["cap"]))
    elif inp["kind"] == "dump":
        job = (_dump_job, (cid, inp["path"], inp["ne"], inp["rse"]))
    else:
        job = (_skeleton_job, (cid, inp["path"], inp["ne"], inp["rse"], inp["reduce"]))
    c, evs = core.parallel_map(job[0], [job[1]])[0]
    ctx.add_case(inp)
    v = ctx.validate("Trace_Resample", [(c, evs)])
    relay(ctx, v)
    ctx.judge(v, {c: inp})

"""Projection of real forsys objects to the abstract state of the specification.

Dense indices 1..n in dict order; 0 = unresolved reference. Copies ids and numbers only and keeps
no reference to mesh objects (the code relies on __del__ / refcounts)."""
import numpy as np

QS = 1000000


def fx(x, scale=1.0):
    """float -> fixed point int at Q=1e6 (after multiplying with `scale`)"""
    return int(round(float(x) * scale * QS))


def project_mesh(vertices, edges, cells, with_pos=False, pos_scale=1.0, pos_shift=(0.0, 0.0)):
    vkeys = list(vertices.keys())
    ekeys = list(edges.keys())
    ckeys = list(cells.keys())
    vidx = {k: i + 1 for i, k in enumerate(vkeys)}
    eidx = {k: i + 1 for i, k in enumerate(ekeys)}
    cidx = {k: i + 1 for i, k in enumerate(ckeys)}

    def vref(v):
        k = getattr(v, "id", None)
        return vidx[k] if k in vidx and vertices[k] is v else 0

    m = {"nv": len(vkeys), "ne": len(ekeys), "nc": len(ckeys)}
    m["vid"] = [int(k) for k in vkeys]
    m["eid"] = [int(k) for k in ekeys]
    m["cid"] = [int(k) for k in ckeys]
    m["vkey"] = [bool(vertices[k].id == k) for k in vkeys]
    m["ekey"] = [bool(edges[k].id == k) for k in ekeys]
    m["ckey"] = [bool(cells[k].id == k) for k in ckeys]
    m["oe"] = [[eidx.get(e, 0) for e in vertices[k].ownEdges] for k in vkeys]
    m["oc"] = [[cidx.get(c, 0) for c in vertices[k].ownCells] for k in vkeys]
    m["E"] = [[vref(edges[k].v1), vref(edges[k].v2)] for k in ekeys]
    m["C"] = [[vref(v) for v in cells[k].vertices] for k in ckeys]
    # exact-position interning: equal (x, y) float pairs get the same integer
    posid = {}
    pid = []
    for k in vkeys:
        key = (float(vertices[k].x), float(vertices[k].y))
        pid.append(posid.setdefault(key, len(posid) + 1))
    m["pid"] = pid
    if with_pos:
        m["pos"] = [[fx(vertices[k].x - pos_shift[0], pos_scale), fx(vertices[k].y - pos_shift[1], pos_scale)]
                    for k in vkeys]
    return m, vidx, eidx, cidx


def project_frame(frame, vidx, eidx, cidx, lookups=True):
    """abstract view of a Frame for C08 (indices relative to the mesh projection)"""
    bel = frame.big_edges_list
    n = len(bel)
    f = {}
    f["ifaces"] = [[vidx.get(int(v), 0) for v in be] for be in bel]
    bes = [frame.big_edges[i] for i in range(n)]
    f["ext_flag"] = [bool(b.external) for b in bes]
    ext_ids = set(getattr(frame, "external_edges_id", []))
    f["ext_ids"] = [i in ext_ids for i in range(n)]
    pos = {id(b): i + 1 for i, b in enumerate(bes)}
    f["internal"] = [pos.get(id(b), 0) for b in frame.internal_big_edges]
    f["own_cells"] = [[cidx.get(c, 0) for c in b.own_cells] for b in bes]
    f["edges"] = [[eidx.get(e, 0) for e in b.edges] for b in bes]
    try:
        f["table"] = [int(i) + 1 for i in frame.get_tensions()["id"].tolist()]
        f["table_border"] = [int(i) + 1 for i in frame.get_tensions(with_border=True)["id"].tolist()]
        f["table_raised"] = ""
    except Exception as exc:
        f["table"], f["table_border"], f["table_raised"] = [], [], type(exc).__name__
    look = []
    if lookups:
        seen = set()
        for i, b in enumerate(bes):
            if b.external or len(b.own_cells) != 2:
                continue
            a, c = b.own_cells
            for pair in ((a, c), (c, a)):
                if pair in seen:
                    continue
                seen.add(pair)
                try:
                    r = frame.get_big_edge_by_cells(*pair)
                    res = pos.get(id(r), 0)
                except Exception:
                    res = -1
                look.append([cidx.get(pair[0], 0), cidx.get(pair[1], 0), res])
    f["lookup"] = look
    return f

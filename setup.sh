#!/bin/sh
# offline set-up: check the tools, regenerate the catalogue (deterministic), parse every spec with SANY
set -e
cd "$(dirname "$0")"
command -v java >/dev/null
test -f /opt/veriftools/tla/tla2tools.jar
/venv/bin/python -c "import numpy, scipy, pandas"
/venv/bin/python harness/gen/catalogue.py >/dev/null
mkdir -p run evidence
fail=0
for f in spec/*.tla; do
  out=$(cd spec && java -cp /opt/veriftools/tla/tla2tools.jar:/opt/veriftools/tla/CommunityModules-deps.jar tla2sany.SANY "$(basename "$f")" 2>&1) || true
  if echo "$out" | grep -q "\*\*\* Errors\|Fatal\|Could not"; then echo "SANY failed on $f"; echo "$out" | tail -20; fail=1; fi
done
exit $fail

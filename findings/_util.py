"""shared helpers of the stand-alone reproducers (real code only, no TLC)"""
import sys
sys.path.insert(0, "/repo")
sys.path.insert(0, "/verif")
import numpy as np
from harness import core, infer, tissue
from harness.gen import equilibrium as eq, cattissue
import random
fs = core.import_forsys()


def build_and_matrix(t, k, sim, fit="dlite", limit=float("inf")):
    rng = random.Random(0)
    with core.quiet_stdout():
        o = infer.make_case_objects(t, k, sim, rng)
        frame = fs.frames.Frame(0, o["vertices"], o["edges"], o["cells"], time=0)
        f = fs.ForSys({0: frame}, cm=False)
        f.build_force_matrix(when=0, angle_limit=limit, circle_fit_method=fit)
    return o, frame, f


def tangent_errors(t, o, f, sim):
    """list of (error, physical edge, base vertex) of every coefficient pair against the true unit tangent"""
    fm = f.force_matrices[0]
    newid = o["info"]["newid"]
    M = fm.matrix
    out = []
    for c, be in enumerate(fm.big_edges_to_use):
        for e, rec in t["edges"].items():
            if {be[0], be[-1]} == {newid[e[0]], newid[e[1]]}:
                for v, tt in ((e[0], rec["ta"]), (e[1], rec["tb"])):
                    if newid[v] in fm.map_vid_to_row:
                        r = fm.map_vid_to_row[newid[v]]
                        te = infer.embed_dir(sim, tt)
                        out.append((abs(complex(M[r, c], M[r + 1, c]) - te), e, v))
    return sorted(out, reverse=True)

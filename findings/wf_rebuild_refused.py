#!/venv/bin/python
"""workflow finding KF_StaleRegistry: after ForSys.remove_cell(0, c) the frame can no longer be analysed.
BigEdge registers its id in Vertex.own_big_edges and never deregisters; the Frame rebuilt by remove_cell numbers its
interfaces afresh on the same Vertex objects, so the registry mixes ids of two generations.  build_force_matrix (and
get_system_velocity_per_frame, which builds every matrix) resolve a junction's interfaces through that registry:
AssertionError('More than one or no vertex with the same ID') or KeyError.  A fresh session on a copy of the same
edited mesh builds and solves without complaint.
Exit 1 when some removal leaves a frame whose force matrix cannot be rebuilt, 0 otherwise."""
import sys
from _wf_common import session, fresh_copy, quiet

bad = 0
for cell in range(7):
    S = session()
    with quiet():
        S.remove_cell(0, cell)
    res = {}
    for name, fn in (("build_force_matrix(0)", lambda: S.build_force_matrix(when=0)),
                     ("get_system_velocity_per_frame()", lambda: S.get_system_velocity_per_frame())):
        try:
            with quiet():
                fn()
            res[name] = "ok"
        except Exception as exc:
            res[name] = type(exc).__name__
    F = fresh_copy(S)
    try:
        with quiet():
            F.build_force_matrix(when=0)
            F.solve_stress(when=0)
        fresh = "ok"
    except Exception as exc:
        fresh = type(exc).__name__
    print(f"remove_cell(0, {cell}): " + ", ".join(f"{k} -> {v}" for k, v in res.items()) + f"; fresh session on the same mesh -> {fresh}")
    if fresh == "ok" and any(v != "ok" for v in res.values()):
        bad += 1
print(f"{bad} of 7 removals leave a frame that cannot be re-analysed")
sys.exit(1 if bad else 0)

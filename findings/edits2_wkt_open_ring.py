#!/venv/bin/python
"""edits2 finding KF_WktOpenRing: wkt.create_wkt writes every polygon ring OPEN (the first point is not repeated at the
end), wkt.create_lattice assumes closed rings and drops the last point of every ring: the round trip
create_lattice(create_wkt(cells).splitlines()) loses the last vertex of every cell.
2x2 squares. Exit 1 when a cell comes back with fewer vertices, 0 when every cell has its 4 vertices."""
import sys
from _edits2_common import grid_mesh, fs

V, E, C = grid_mesh(cols=2, rows=2)
n_in = [len(c.vertices) for c in C.values()]
text = fs.wkt.create_wkt(C)
print(text.splitlines()[0])
V2, E2, C2 = fs.wkt.create_lattice(text.splitlines())
n_out = [len(c.vertices) for c in C2.values()]
print(f"vertices per cell before {n_in}, after the round trip {n_out}; vertices {len(V)} -> {len(V2)}, mesh edges {len(E)} -> {len(E2)}")
sys.exit(1 if n_out != n_in else 0)

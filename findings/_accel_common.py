"""shared by the accel_* reproducers: a four-frame series of the 7-hexagon flower (real code only, no TLC).
Frames 0, 1 drift slowly; frames 2, 3 are the same tissue stretched by 1.5 along x and numbered differently
(vertex ids shifted by 5: ids 5..23 exist in both numberings but denote other vertices), so that step 1 -> 2 is skipped by TimeSeries as "different tissue" (mapping[1] is None)
while steps 0 -> 1 and 2 -> 3 are tracked."""
import os
import sys

REPO = os.environ.get("VERIF_REPO", "/repo")
sys.path.insert(0, REPO)
_devnull = os.open(os.devnull, os.O_WRONLY)
_saved = os.dup(1)
os.dup2(_devnull, 1)
import forsys as fs  # noqa: E402


def restore_stdout():
    sys.stdout.flush()
    os.dup2(_saved, 1)


def hexagon(cx, cy):
    return [(cx + 2, cy), (cx + 1, cy + 2), (cx - 1, cy + 2), (cx - 2, cy), (cx - 1, cy - 2), (cx + 1, cy - 2)]


FLOWER = [(0, 0), (3, 2), (0, 4), (-3, 2), (-3, -2), (0, -4), (3, -2)]
# second ring; the last cell (3, 6) can be left out without changing the bounding box of the interface end points
FLOWER19 = FLOWER + [(6, 4), (0, 8), (-3, 6), (-6, 4), (-6, 0), (-6, -4), (-3, -6), (0, -8), (3, -6), (6, -4), (6, 0), (3, 6)]


def frame(t, dx, sx=1.0, id0=0, centres=FLOWER):
    ids, vertices, edges, cells = {}, {}, {}, {}
    for ci, (cx, cy) in enumerate(centres):
        cyc = []
        for p in hexagon(cx, cy):
            if p not in ids:
                ids[p] = id0 + len(ids)
                vertices[ids[p]] = fs.vertex.Vertex(ids[p], sx * p[0] + dx, float(p[1]) + 0.5 * dx * dx)
            cyc.append(ids[p])
        for a, b in zip(cyc, cyc[1:] + cyc[:1]):
            if not any(set(e.get_vertices_id()) == {a, b} for e in edges.values()):
                edges[len(edges)] = fs.edge.SmallEdge(len(edges), vertices[a], vertices[b])
        cells[ci] = fs.cell.Cell(ci, [vertices[v] for v in cyc])
    return fs.frames.Frame(t, vertices, edges, cells, time=float(t))


def session():
    frames = {0: frame(0, 0.00), 1: frame(1, 0.05), 2: frame(2, 0.10, sx=1.5, id0=5), 3: frame(3, 0.15, sx=1.5, id0=5)}
    s = fs.ForSys(frames, cm=False)
    assert s.mesh.mapping[0] is not None and s.mesh.mapping[1] is None and s.mesh.mapping[2] is not None, \
        "the series is meant to have exactly step 1 -> 2 skipped"
    return s, frames

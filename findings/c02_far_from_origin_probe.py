from _util import *
import math
pts = []
for seed in range(60):
    rng = random.Random(1000 + seed)
    spec = {"tissue": {"kind": "equilibrium", "ncells": rng.choice([10, 16, 25, 45]), "mobius": rng.choice([0.0, 0.6, 1.0, 1.6])}, "seed": seed}
    t = infer.make_tissue(spec, rng)
    ext = max(abs(z1 - z2) for z1 in t["pos"].values() for z2 in t["pos"].values())
    off = rng.choice([500, 1000, 2000, 3000, 4000, 6000])
    ang = rng.uniform(0, 6.28)
    scale = 10 ** rng.uniform(-2, 2)
    sim = tissue.Similarity(rng.uniform(0, 6.28), scale, off * ext * scale * math.cos(ang), off * ext * scale * math.sin(ang))
    try:
        o, frame, f = build_and_matrix(t, rng.choice([2, 4, 8, 15]), sim)
    except Exception as exc:
        print("raised", off, type(exc).__name__); continue
    for err, e, v in tangent_errors(t, o, f, sim):
        rec = t["edges"][e]
        if rec["centre"] is None: continue
        chord = abs(t["pos"][e[0]] - t["pos"][e[1]])
        pts.append((off * ext / chord, err))
pts.sort()
import bisect
for lo, hi in [(0, 5e3), (5e3, 1e4), (1e4, 1.5e4), (1.5e4, 2e4), (2e4, 3e4), (3e4, 5e4), (5e4, 1e5), (1e5, 1e6)]:
    sel = [e for o_, e in pts if lo <= o_ < hi]
    if sel: print("%8.0f-%8.0f n=%5d max=%.2e  >5e-3: %d" % (lo, hi, len(sel), max(sel), sum(1 for e in sel if e > 5e-3)))

"""Reproducer (fixed by a `fix:` commit): building the force matrix of a tissue with an exactly
straight-through pair of interfaces at a junction (square grid, brick lattice) raised
FloatingPointError('invalid value encountered in arccos'): the dot product of two unit vectors can
exceed [-1, 1] by one ulp and forsys sets np.seterr(all='raise').
Run: /venv/bin/python findings/c16_arccos_domain.py   (exit 0 = defect absent)"""
import sys
sys.path.insert(0, "/repo")
sys.path.insert(0, "/verif")
import forsys as fs
from harness import core, infer
spec = {'tissue': {'kind': 'catalogue', 'base': 'squares33', 'cells': [[2, 5, 6, 3], [5, 7, 8, 6], [3, 6, 11, 9], [6, 8, 12, 11], [9, 11, 15, 13], [11, 12, 16, 15]], 'sagitta': 0.08, 'tseed': 861934}, 'k': 1, 'seed': 26093300, 'want': ['C02'], 'sim': {'theta': -0.002, 'scale': 0.39117475771430316, 'offset_sizes': 0, 'extent': 10.0, 'reflect': True}, 'build': {'limit': 'inf', 'fit': 'taubinSVD', 'ignore_four': True}, 'ids': {'offset': 0, 'stride': 1}, 'nosolve': True}
with core.quiet_stdout():
    _, evs = infer.run_spec((1, spec))
raised = [e["raised"] for e in evs if e["ev"] == "BuildForce"][0]
print("build_force_matrix raised:", raised.split(":")[0] if raised else "nothing")
sys.exit(1 if "FloatingPointError" in raised else 0)

#!/venv/bin/python
"""C09 finding: the "triangles in the middle" step of Skeleton.create_lattice.
The parser is driven through its public method on contour lists (the part after OpenCV's contour tracing).
(a) live-list iteration: `for edge_id in its_edges: del self.edges[edge_id]` iterates vertex.ownEdges while the
    edge destructors remove entries from that very list, so every other edge survives: a mesh edge keeps
    referring to a vertex that was deleted from the dictionary (and the cell's consecutive vertices are not joined).
(b) when the two junctions of a short (<= 3 points) interface are also joined by the interface listed next,
    np.setdiff1d(...)[0] raises IndexError: two cells sharing a two-point interface cannot be parsed.
Exit 1 when either happens."""
import os, sys
sys.path.insert(0, os.environ.get("VERIF_REPO", "/repo"))
import numpy as np
import forsys.skeleton as sk


def parse(polys):
    s = object.__new__(sk.Skeleton)
    s.fname, s.mirror_y = "", False
    s.contours = [np.array(p) for p in polys]
    s.vertex_id = s.edge_id = s.cell_id = 0
    return s.create_lattice()


bad = 0
# (a) cell 1 goes 4 - 7 - 3, cell 2 uses the direct edge 3 - 4
P = {1: (0, 0), 2: (0, 12), 3: (12, 12), 4: (12, 0), 5: (24, 0), 6: (24, 12), 7: (6, 6)}
try:
    V, E, C = parse([[P[i] for i in (1, 4, 7, 3, 2)], [P[i] for i in (4, 5, 6, 3)]])
    dangling = [(k, e.v1.id, e.v2.id) for k, e in E.items() if V.get(e.v1.id) is not e.v1 or V.get(e.v2.id) is not e.v2]
    if dangling:
        print(f"(a) mesh edges referring to vertices that are not in the dictionary: {dangling}")
        bad += 1
    else:
        print("(a) ok")
except Exception as exc:
    print(f"(a) create_lattice raised {type(exc).__name__}: {exc}")
    bad += 1
# (b) two squares sharing one two-point interface
Q = {1: (0, 0), 2: (12, 0), 3: (12, 12), 4: (0, 12), 5: (24, 0), 6: (24, 12)}
try:
    parse([[Q[i] for i in (1, 2, 3, 4)], [Q[i] for i in (2, 5, 6, 3)]])
    print("(b) ok")
except Exception as exc:
    print(f"(b) create_lattice raised {type(exc).__name__}: {exc}")
    bad += 1
sys.exit(1 if bad else 0)

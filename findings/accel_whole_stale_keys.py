#!/venv/bin/python
"""accel observation: TimeSeries.whole_tissue_acceleration(t) (and whole_tissue_velocity) fill and return the
accumulating attribute self.accelerations (self.velocities), keyed by the interface index of frame t. Asked for a frame
with fewer interfaces than a frame asked for earlier, the answer still carries the earlier frame's entries under the
surplus keys: "acceleration of all big edges" of frame t contains values that belong to another frame.

Stand-alone: three slowly drifting frames of a 19-hexagon flower; frame 0 has 19 cells, frames 1 and 2 have 18.
Exit 1 when the answer for frame 1 has keys that are no interface index of frame 1, 0 otherwise."""
import sys

from _accel_common import FLOWER19, frame, fs, restore_stdout

frames = {0: frame(0, 0.00, centres=FLOWER19), 1: frame(1, 0.03, centres=FLOWER19[:-1]), 2: frame(2, 0.08, centres=FLOWER19[:-1])}
s = fs.ForSys(frames, cm=False)
assert all(m is not None for m in s.mesh.mapping.values())
n0 = len(s.mesh.whole_tissue_acceleration(0))
res = dict(s.mesh.whole_tissue_acceleration(1))
n1 = len(frames[1].big_edges_list)
extra = sorted(k for k in res if not 0 <= k < n1)
restore_stdout()
if extra:
    print(f"DEFECT PRESENT: frame 1 has {n1} interfaces, whole_tissue_acceleration(1) returned {len(res)} entries; "
          f"keys {extra[:4]}.. are left over from frame 0 ({n0} interfaces)")
    sys.exit(1)
print("ok: whole_tissue_acceleration(t) returns exactly the interfaces of frame t")
sys.exit(0)

#!/venv/bin/python
"""reporting finding KF_ByCellsNoInterior: Frame.get_big_edge_by_cells(c1, c2) looks the interface up through the
vertices common to both cells that have fewer than three mesh edges (interior points). An interface made of its two
junctions only - every interface of a polygonal tissue that was not resampled - has none: IndexError although the cells
share an interface. 2x2 squares without interior points: all four pairs of neighbouring cells.
Exit 1 when a lookup of neighbouring cells raises or returns an interface that is not between them, 0 otherwise."""
import sys
from _rep_common import frame

bad = 0
for k in (1, 0):
    fr = frame(2, 2, k)
    for a, b in ((0, 1), (0, 2), (1, 3), (2, 3)):
        shared = {v.id for v in fr.cells[a].vertices} & {v.id for v in fr.cells[b].vertices}
        for x, y in ((a, b), (b, a)):
            try:
                be = fr.get_big_edge_by_cells(x, y)
                ok = {v.id for v in be.vertices} <= shared
                if not ok:
                    bad += 1
                    print(f"k={k}: get_big_edge_by_cells({x}, {y}) -> interface {be.big_edge_id}, not between the cells")
            except Exception as exc:
                bad += 1
                print(f"k={k} interior points: get_big_edge_by_cells({x}, {y}) raises {type(exc).__name__}: {exc} "
                      f"(the cells share the vertices {sorted(shared)})")
print(f"{bad} failing lookups of neighbouring cells")
sys.exit(1 if bad else 0)

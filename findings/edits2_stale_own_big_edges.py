#!/venv/bin/python
"""edits2 finding KF_StaleOwnBigEdges: ForSys.remove_cell rebuilds the Frame on the same Vertex objects;
Vertex.own_big_edges only ever grows, so the vertices keep the interface ids of the replaced Frame and
Frame.get_big_edge_by_cells (which takes the first id listed by the common vertices) returns a wrong interface.
3x3 squares with one interior point per side, remove_cell(0, 1); then for every pair of neighbouring cells the
returned interface must contain a vertex common to both cells.
Exit 1 when some lookup returns an interface that does not separate the two cells, 0 otherwise."""
import contextlib, io, sys
from _edits2_common import session

S = session(k=1)
with contextlib.redirect_stdout(io.StringIO()):
    fr = S.remove_cell(0, 1)
bad = 0
for a in sorted(fr.cells):
    for b in sorted(fr.cells):
        if a >= b:
            continue
        va = {v.id for v in fr.cells[a].vertices}
        vb = {v.id for v in fr.cells[b].vertices}
        inner = [v for v in va & vb if len(fr.vertices[v].ownEdges) < 3]
        if not inner:
            continue
        try:
            be = fr.get_big_edge_by_cells(a, b)
        except KeyError as exc:      # a stale id beyond the new interface list
            bad += 1
            print(f"get_big_edge_by_cells({a}, {b}) raises KeyError({exc}); own_big_edges of the common vertex {inner[0]}: "
                  f"{fr.vertices[inner[0]].own_big_edges}, interfaces 0..{len(fr.big_edges) - 1}")
            continue
        ids = [v.id for v in be.vertices]
        if not set(inner) <= set(ids):
            bad += 1
            print(f"get_big_edge_by_cells({a}, {b}) -> interface {be.big_edge_id} {ids}, which does not contain the common "
                  f"vertex {inner}; own_big_edges of vertex {inner[0]}: {fr.vertices[inner[0]].own_big_edges}")
print(f"{bad} wrong lookups after remove_cell(0, 1)")
sys.exit(1 if bad else 0)

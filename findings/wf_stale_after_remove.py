#!/venv/bin/python
"""workflow finding KF_EditKeepsResults: ForSys.remove_cell installs a new Frame object but invalidates nothing.
The force / pressure matrices keep pointing at the replaced Frame, forces[0], pressures[0] and Cell.pressure keep the
old numbers, and solve_stress / solve_pressure WITHOUT a rebuild are accepted: they solve the system of the seven-cell
tissue and write it, through the shared dictionaries, onto the six-cell Frame.
Checks (each against a fresh session on a deep copy of the edited mesh):
  1. right after remove_cell: forces[0] and get_pressures() are neither empty nor what a fresh session shows;
  2. solve_stress(0) + solve_pressure(0) on the old matrices are accepted, and get_tensions() / get_pressures() of the NEW
     Frame then differ from a fresh analysis of the six-cell tissue.
Exit 1 when stale numbers are shown, 0 otherwise."""
import sys
import numpy as np
from _wf_common import session, fresh_copy, analyse, tensions, pressures, quiet

S = session()
analyse(S, 0)
old_frame = S.frames[0]
with quiet():
    S.remove_cell(0, 1)
bad = 0
print(f"frames[0] is a new Frame object: {S.frames[0] is not old_frame}; force matrix still references the replaced Frame: "
      f"{S.force_matrices[0].frame is old_frame}; pressure matrix too: {S.pressure_matrices[0].frame is old_frame}")
F = fresh_copy(S)
print(f"after remove_cell(0, 1): get_tensions() all zero: {not any(tensions(S))}")
print(f"  forces[0] still holds {len(S.forces[0])} tensions of the 7-cell tissue; the 6-cell frame has "
      f"{len(S.frames[0].internal_big_edges)} internal interfaces")
if S.forces[0] is not None and len(S.forces[0]) != len(S.frames[0].internal_big_edges):
    bad += 1
p_now = pressures(S)
print(f"  get_pressures() on the new Frame: {p_now}  (a fresh session shows {pressures(F)})")
if any(x is not None for x in p_now):
    bad += 1
try:
    with quiet():
        S.solve_stress(when=0)
        S.solve_pressure(when=0, method="lagrange_pressure")
    accepted = True
except Exception as exc:
    accepted = False
    print("solve on the old matrices raised", repr(exc))
analyse(F, 0)
if accepted:
    a, b = tensions(S, with_border=False), tensions(F, with_border=False)
    print(f"solve_stress(0); solve_pressure(0) without rebuild are accepted.\n  get_tensions(): {a}\n  fresh session : {b}")
    pa, pb = pressures(S), pressures(F)
    print(f"  get_pressures(): {pa}\n  fresh session  : {pb}")
    if len(a) != len(b) or not np.allclose(a, b, atol=1e-5) or not np.allclose(pa, pb, atol=1e-5):
        bad += 1
print(f"{bad} stale result(s) shown after remove_cell")
sys.exit(1 if bad else 0)

"""Reproducer (C19, KF_VerticalRidge): tessellation.line_eq evaluates the ridge as y(x) = y0 + m (x - x0) with
m = (y1 - y0) / (x1 - x0). For a Voronoi ridge whose two corners have the same x after rounding to three
decimals (a ridge parallel to the y axis: every exactly square centre set, every hexagonal set with pointy-top
cells, the ring of add_voronoi_centers, and ~40% of random sets of 300 centres where some ridge is steeper than
the 1e-3 resolution) the division is by zero; forsys sets np.seterr(all='raise'), so
create_lattice_elements raises FloatingPointError instead of returning the lattice.
Run: /venv/bin/python findings/c19_vertical_ridge.py   (exit 1 = defect present, 0 = absent)"""
import io
import contextlib
import math
import os
import sys
sys.path.insert(0, os.environ.get("VERIF_REPO", "/repo"))
import numpy as np
import forsys.tessellation as T


def lattice(pts, md=float("inf")):
    with contextlib.redirect_stdout(io.StringIO()):
        return T.create_lattice(*T.create_lattice_elements(pts, max_distance=md))


square = [(float(i), float(j)) for i in range(4) for j in range(4)]                       # 2x2 bounded squares
pointy = [((i + 0.5 * (j % 2)) * 1.0, j * math.sqrt(3) / 2) for i in range(5) for j in range(5)]
rotated = [(0.6 * x - 0.8 * y, 0.8 * x + 0.6 * y) for x, y in square]                     # same set, no vertical ridge
bad = 0
for name, pts, ncells in (("exactly square 4x4", square, 4), ("hexagonal 5x5, pointy-top cells", pointy, None)):
    try:
        v, e, c = lattice(pts)
        print(f"ok: {name}: {len(c)} cells")
        if ncells is not None and len(c) != ncells:
            bad += 1
    except FloatingPointError as exc:
        print(f"DEFECT: {name}: FloatingPointError: {exc}")
        bad += 1
# control: the rotated square set has the same diagram without axis-parallel ridges and works
v, e, c = lattice(rotated)
assert len(c) == 4, len(c)
print(f"control: rotated square 4x4: {len(c)} cells")
# the function itself (information only: a repair may also live in the caller)
try:
    with np.errstate(all="raise"):
        y = T.line_eq(np.array([0.5, 0.5]), np.array([0.5, 1.5]), np.array([0.5, 0.5]))
    print("info: line_eq on a vertical ridge returned", list(y))
except FloatingPointError as exc:
    print("info: line_eq((0.5,0.5),(0.5,1.5)) raised:", exc)
sys.exit(1 if bad else 0)

"""History dependence through numpy's global error state (C10, recorded as known finding KF_ErrstateAfterLsq).

forsys sets np.seterr(all='raise') at import and at the start of every solve, and relies on FloatingPointError for
control flow (virtual_edges.calculate_circle_center falls back from taubinSVD to the least-squares fit in an
`except FloatingPointError`). lmfit's least-squares driver switches the error state to 'ignore' and, on some inputs, does not restore it, so
after a solve_stress(method='lsq') the state can stay at 'ignore' until the next solve. A build_force_matrix(circle_fit_method='taubinSVD') on a frame with
exactly straight interfaces issued in that window silently yields NaN coefficients, whereas the same call on a
fresh object (or after any other solve) falls back and yields finite ones.
Run in a fresh process: /venv/bin/python findings/c10_errstate_after_lsq.py   (exit 1 = finding present)"""
import sys
sys.path.insert(0, "/repo")
sys.path.insert(0, "/verif")
import random
import numpy as np
from harness import core, infer, tissue
from harness.gen import cattissue
fs = core.import_forsys()


def frame_of(fid, arcs=False):
    if arcs:
        from harness.gen import equilibrium as eq
        t = eq.make(random.Random(5), 6, 0.6)
    else:
        t = cattissue.make("hexflower")
    o = infer.make_case_objects(t, 3, tissue.Similarity(0.3, 1.0, 0, 0), random.Random(0))
    return fs.frames.Frame(fid, o["vertices"], o["edges"], o["cells"], time=fid)


with core.quiet_stdout():
    fresh = fs.ForSys({0: frame_of(0)}, cm=False)
    fresh.build_force_matrix(when=0, circle_fit_method="taubinSVD")
    ok_fresh = bool(np.isfinite(fresh.force_matrices[0].matrix).all())
    state0 = np.geterr()["invalid"]
    hist = fs.ForSys({0: frame_of(0, arcs=True)}, cm=False)
    hist2 = fs.ForSys({0: frame_of(0)}, cm=False)
    hist.build_force_matrix(when=0)
    hist.solve_stress(when=0, method="lsq")            # first lsq solve of the process: imports lmfit
    state1 = np.geterr()["invalid"]
    hist2.build_force_matrix(when=0, circle_fit_method="taubinSVD")
    ok_hist = bool(np.isfinite(hist2.force_matrices[0].matrix).all())
print(f"error state before: {state0}, after the first lsq solve: {state1}; taubinSVD matrix finite on a fresh object: {ok_fresh}, "
      f"after the lsq solve: {ok_hist}")
sys.exit(1 if ok_fresh and not ok_hist else 0)

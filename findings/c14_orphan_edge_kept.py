"""Finding C14/KF_OrphanEdgeKept: create_lattice removes the vertices that belong to no cell and the
edges attached to them; an edge record that is in no face loop but joins two vertices that DO lie on
faces (here the diagonal 1-3 of a square face) survives. The statement says edges that belong to no face
are dropped. Consequence: both ends list three edges, so Frame() treats them as junctions and splits the
cell outline into interfaces there.
Run: /venv/bin/python findings/c14_orphan_edge_kept.py   (exit 1 = finding present, 0 = absent)"""
import os
import sys
sys.path.insert(0, os.environ.get("VERIF_REPO", "/repo"))
import forsys as fs

DMP = """// one square face, edge 5 (1-3) is in no face; vertex 5 and edge 6 (5-1) are unattached as well
vertices        /*  coordinates  */    
  1                  0                  0
  2                 10                  0
  3                 10                 10
  4                  0                 10
  5                 30                 30

edges  
  1       1    2      density 1
  2       2    3      density 1
  3       3    4      density 1
  4       4    1      density 1
  5       1    3      density 1
  6       5    1      density 1

faces    /* edge loop */      
  1   1 2 3 4 /*area 100*/

bodies  /* facets */
  1       1  volume 100  /*actual: 100*/ lagrange_multiplier 0.05  centerofmass 

read
"""
path = os.path.join(os.path.dirname(os.path.abspath(__file__)), "..", "run", "C14", "findings", "orphan_edge_kept.dmp")
os.makedirs(os.path.dirname(path), exist_ok=True)
open(path, "w").write(DMP)
se = fs.surface_evolver.SurfaceEvolver(path)
print("vertices:", sorted(se.vertices), "edges:", sorted(se.edges), "(edge 5 is in no face; edge 6 and vertex 5 are dropped)")
print("edges listed by vertex 1:", se.vertices[1].ownEdges)
sys.exit(1 if 5 in se.edges else 0)

"""Genuine defect C17 / KF_EqualInterfaceKey: get_intensities keys each interface by
`big_edges.index(big_edge)`, which uses VALUE equality (BigEdge and Vertex are dataclasses). When the
list contains the same interface twice, or two interface objects that compare equal (same id, equal
vertices - e.g. the same interface taken from two copies of a frame), both positions get the key of
the first one, a key is missing, and the write-back `intensities_only_internal[be_id]` raises
KeyError - after some `gt` values have already been overwritten. The statement demands the values to
be "stored as the interfaces' reference values in the order given" for "interface lists with repeated
or equal-valued interfaces".

Run: /venv/bin/python findings/c17_equal_interface_key.py   (exit 1 = defect present, 0 = absent)
VERIF_REPO=<dir> selects another working tree."""
import contextlib
import io
import os
import sys

sys.path.insert(0, os.environ.get("VERIF_REPO", "/repo"))
import numpy as np
from PIL import Image
import forsys as fs


def interface(bid, pts, vid0=0):
    vs = [fs.vertex.Vertex(vid0 + i, x, y) for i, (x, y) in enumerate(pts)]
    es = [fs.edge.SmallEdge(vid0 + i, vs[i], vs[i + 1]) for i in range(len(vs) - 1)]
    return fs.edge.BigEdge(bid, vs), es


image = Image.fromarray(np.arange(144, dtype=np.float32).reshape(12, 12))
bad = []
for name in ("repeated object", "equal-valued objects"):
    a, ea = interface(0, [(3, 3), (6, 3)])
    b, eb = interface(1, [(3, 7), (6, 7)], 10)
    if name == "repeated object":
        lst = [a, b, a]
    else:
        c, ec = interface(0, [(3, 3), (6, 3)])      # other objects, equal values: a == c, a is not c
        lst = [a, b, c]
    try:
        with contextlib.redirect_stdout(io.StringIO()):
            res = fs.myosin.get_intensities(lst, image, False, None, 1)
        want = [40.5, 88.5, 40.5]
        got = [res.get(j) for j in range(3)]
        gts = [x.gt for x in lst]
        print(f"{name}: returned {got}, gt {gts}")
        if got != want or gts != want:
            bad.append(name)
    except Exception as exc:
        print(f"{name}: {type(exc).__name__}: {exc}")
        bad.append(name)
print("DEFECT PRESENT" if bad else "defect absent", bad)
sys.exit(1 if bad else 0)

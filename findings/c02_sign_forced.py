"""Known finding C02/KF_SignForced (also C01, C03, C06): BigEdge.get_vector_from_vertex forces each component of
the tangent to the sign of the first chord's component; when the true tangent and the chord straddle a coordinate
axis the coefficient pair is mirrored. The same arc tissue is exact at some rotations and wrong at others.
Exit 1 = finding present."""
from _util import *
t = cattissue.make("hexflower", sagitta=0.2)
worst = {}
for i in range(16):
    theta = 0.05 + i * 0.1
    sim = tissue.Similarity(theta, 1.0, 0, 0)
    o, frame, f = build_and_matrix(t, 4, sim, fit="taubinSVD")
    worst[round(theta, 2)] = round(tangent_errors(t, o, f, sim)[0][0], 4)
print("largest coefficient error per rotation angle:", worst)
sys.exit(1 if max(worst.values()) > 0.05 and min(worst.values()) < 1e-3 else 0)

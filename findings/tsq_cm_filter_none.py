#!/venv/bin/python
"""tsqueries finding: ForSys(frames, cm=True) ("each frame should be moved to the center of mass system") translates the
vertices of every frame in place, but the interfaces (BigEdge.xs / ys) keep the coordinates cached when the Frame was
built. Frame.filter_edges("none") - documented as `"none" for no filtering` - writes the cached coordinates back onto the
vertices: every interface vertex jumps back by the frame's centre of mass (and a velocity computed afterwards contains
that jump). Without cm the same call moves nothing.

Stand-alone: three slowly drifting frames of the 7-hexagon flower, shifted away from the origin.
Exit 1 when filter_edges("none") moves a vertex, 0 otherwise."""
import sys

import numpy as np

from _accel_common import frame, fs, restore_stdout


def build():
    fr = {0: frame(0, 10.00), 1: frame(1, 10.04), 2: frame(2, 10.09)}
    return fr


problems = []
for cm in (False, True):
    fr = build()
    s = fs.ForSys(fr, cm=cm)
    vid = next(k for k, v in s.mesh.mapping[1].items() if v is not None)       # a tracked junction of frame 1
    v_before = s.mesh.calculate_velocity(vid, 1)
    pos = {v.id: (v.x, v.y) for v in fr[1].vertices.values()}
    fr[1].filter_edges("none")
    moved = {v.id: (round(v.x - pos[v.id][0], 3), round(v.y - pos[v.id][1], 3)) for v in fr[1].vertices.values() if pos[v.id] != (v.x, v.y)}
    v_after = s.mesh.calculate_velocity(vid, 1)
    if moved:
        problems.append(f"cm={cm}: filter_edges('none') moved {len(moved)} of {len(pos)} vertices of frame 1 by {sorted(set(moved.values()))[:2]}; "
                        f"velocity of vertex {vid} at frame 1 was {np.round(v_before, 3)}, is now {np.round(v_after, 3)}")
restore_stdout()
if problems:
    print("DEFECT PRESENT: " + "; ".join(problems))
    sys.exit(1)
print("ok: filter_edges('none') moves nothing, with and without cm")
sys.exit(0)

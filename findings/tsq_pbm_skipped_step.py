#!/venv/bin/python
"""tsqueries finding: TimeSeries.get_point_id_by_map (and get_vertex_position, which is built on it) over a span that
contains a step skipped as "different tissue" (mapping[f] is None). "ID of the required vertex at time final_time" does not
exist there: None (what the function returns when a link is missing) or an exception would say so. Instead the loop is
left with `break` and the id reached so far - an id of an EARLIER frame - is returned as if it were the answer (forward);
backward the skipped dict is inverted before the test: AttributeError. get_vertex_position then looks the stale id up in
the later frames: the position of an unrelated vertex that happens to carry the same id, or KeyError.

Stand-alone: four frames of the 7-hexagon flower, step 1 -> 2 skipped, frames 2 and 3 numbered differently (ids shifted
by 5, see _accel_common.py). Exit 1 when the defect is present, 0 otherwise."""
import sys

from _accel_common import restore_stdout, session

s, frames = session()
mesh = s.mesh
problems = []
v0 = next(k for k, v in mesh.mapping[0].items() if v is not None and v >= 5)   # a junction of frame 0, tracked to frame 1
vb = next(iter(mesh.mapping[2].values()))                                  # a junction of frame 3
id1 = mesh.get_point_id_by_map(v0, 0, 1)
try:
    r = mesh.get_point_id_by_map(v0, 0, 3)
    if r is not None:
        where = "the id it has in frame 1" if r == id1 else "an id of another frame"
        problems.append(f"get_point_id_by_map({v0}, 0, 3) = {r} ({where}; step 1 -> 2 was skipped, there is no tracked partner in frame 3)")
except KeyError:
    pass
try:
    r = mesh.get_point_id_by_map(vb, 3, 0)
    if r is not None:
        problems.append(f"get_point_id_by_map({vb}, 3, 0) = {r} across the skipped step")
except KeyError:
    pass
except AttributeError as exc:
    problems.append(f"get_point_id_by_map({vb}, 3, 0): AttributeError: {exc}")
try:
    xs, ys = mesh.get_vertex_position(v0, 0, 4)
    truth = frames[3].vertices[v0 + 5]           # the same physical junction carries id + 5 in frames 2, 3
    problems.append(f"get_vertex_position({v0}, 0, 4) returned positions for frames 2, 3 although the vertex cannot be followed there: "
                    f"x = {[round(x, 3) for x in xs]} (the physical junction is at x = {truth.x:.3f} in frame 3)")
except KeyError:
    pass
restore_stdout()
if problems:
    print("DEFECT PRESENT: " + "; ".join(problems))
    sys.exit(1)
print("ok: no id / position is reported across a skipped step")
sys.exit(0)

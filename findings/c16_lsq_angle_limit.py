"""Reproducer (fixed by a `fix:` commit): solve_stress(method='lsq') on a matrix built with an angle limit that
excludes some interfaces raised TypeError/AttributeError ('xres = xres.insert(index, -1)' makes xres None).
Run: /venv/bin/python findings/c16_lsq_angle_limit.py   (exit 0 = defect absent)"""
import sys
sys.path.insert(0, "/repo")
sys.path.insert(0, "/verif")
from harness import core, infer
core.import_forsys()
spec = {"tissue": {"kind": "catalogue", "base": "hexflower", "sagitta": 0.1, "tseed": 3}, "k": 3, "seed": 11, "want": ["C16"],
        "sim": {"theta": 0.4, "scale": 1.0, "offset_sizes": 0, "extent": 10.0},
        "build": {"limit": 2.2, "fit": "dlite"}, "solve": {"method": "lsq", "allow_negatives": True, "initial_condition": "ones"}}
with core.quiet_stdout():
    _, evs = infer.run_spec((1, spec))
b = [e for e in evs if e["ev"] == "BuildForce"][0]
s = [e for e in evs if e["ev"] == "SolveStress"][0]
print("deleted junctions:", len(b["fm"]["deletes"]), "columns:", len(b["fm"]["cols"]), "solve raised:", s["raised"].split(":")[0] or "nothing")
sys.exit(1 if s["raised"] else 0)

#!/venv/bin/python
"""C11 finding: a mesh with two mesh edges between the same pair of vertices (Skeleton.create_lattice produces
one on the shipped image examples/data/in_vivo/t_2.tif: two adjacent T3 merges leave edges 7696-7697 twice)
is not brought to a fixed point by generate_mesh: create_edges_new counts both edges, so the two vertices are
junctions (3 mesh edges) before the call; the rebuilt mesh has the edge once, they are ordinary points afterwards,
the interfaces through them fuse, keep more than ne segments, and a second generate_mesh with the same ne
changes the mesh again.  Exit 1 when the second call changes the mesh."""
import os, sys
sys.path.insert(0, os.environ.get("VERIF_REPO", "/repo"))
import forsys.vertex as fv, forsys.edge as fe, forsys.cell as fc, forsys.virtual_edges as ve

# two squares sharing the edge 2-3; the lower side of the first one carries the points 7, 8, 9, 10
pos = {1: (0, 0), 2: (30, 0), 3: (30, 30), 4: (0, 30), 5: (60, 0), 6: (60, 30), 7: (6, 0), 8: (12, 0), 9: (18, 0), 10: (24, 0)}
cyc = [[1, 7, 8, 9, 10, 2, 3, 4], [2, 5, 6, 3]]
V = {k: fv.Vertex(k, float(x) + 50, float(y) + 50) for k, (x, y) in pos.items()}
E, seen = {}, set()
for c in cyc:
    for i in range(len(c)):
        a, b = c[i], c[(i + 1) % len(c)]
        if frozenset((a, b)) not in seen:
            seen.add(frozenset((a, b)))
            E[len(E)] = fe.SmallEdge(len(E), V[a], V[b])
E[len(E)] = fe.SmallEdge(len(E), V[8], V[9])          # the parallel mesh edge
C = {i + 1: fc.Cell(i + 1, [V[v] for v in c]) for i, c in enumerate(cyc)}


def snap():
    return (sorted((v.id, v.x, v.y) for v in V.values()), {k: [v.id for v in c.vertices] for k, c in C.items()},
            sorted(tuple(sorted((e.v1.id, e.v2.id))) for e in E.values()))


NE = 3
V, E, C, arr1 = ve.generate_mesh(V, E, C, ne=NE, replace_short_edges=False)
s1 = snap()
ifaces = ve.create_edges_new(V, C)
V, E, C, arr2 = ve.generate_mesh(V, E, C, ne=NE, replace_short_edges=False)
s2 = snap()
print("interfaces of the result of the first call:", ifaces, "(ne =", NE, ")")
print("cells after 1st call:", s1[1])
print("cells after 2nd call:", s2[1])
sys.exit(1 if s1 != s2 else 0)

#!/venv/bin/python
"""workflow finding KF_StaleBorderRows: SmallEdge.tension survives a change of Frame generation.
Analyse the seven-cell flower, remove the CENTRE cell (the one removal after which build_force_matrix still works:
see wf_rebuild_refused.py), re-analyse completely.  The six interfaces that bounded the centre cell are border
interfaces of the ring now; a fresh session reports tension 0 on every border interface, the edited session reports
the tensions inferred for the seven-cell tissue there (get_tensions(with_border=True), get_edges_props_df, and
everything computed from BigEdge.tension such as the stress tensor).
Exit 1 when a border interface carries a non-zero tension after the re-analysis, 0 otherwise."""
import sys
from _wf_common import session, fresh_copy, analyse, quiet

S = session()
analyse(S, 0)
with quiet():
    S.remove_cell(0, 0)
try:
    analyse(S, 0)
except Exception as exc:
    print("re-analysis after remove_cell(0, 0) raised", repr(exc), "(KF_StaleRegistry)")
    sys.exit(0)
F = fresh_copy(S)
analyse(F, 0)
fr, ff = S.frames[0], F.frames[0]
stale = [(i, round(b.tension, 4)) for i, b in fr.big_edges.items() if b.external and abs(b.tension) > 1e-9]
fresh = [(i, round(b.tension, 4)) for i, b in ff.big_edges.items() if b.external and abs(b.tension) > 1e-9]
print(f"border interfaces with a non-zero tension after remove_cell(0, 0) + full re-analysis: {stale}")
print(f"fresh session on the same mesh: {fresh}")
sys.exit(1 if stale and not fresh else 0)

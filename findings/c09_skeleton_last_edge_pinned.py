#!/venv/bin/python
"""C09 finding: Skeleton.create_lattice keeps the LAST mesh edge it created alive through a loop variable
(`for e in self.edges.values(): ... e.external = ...` leaves `e` bound to the last value), so deleting that
edge from the dictionary never runs SmallEdge.__del__ and its id stays in the ownEdges of its ends.
When the last edge is a side of an artefact triangle, do_t3_transition deletes it for the first end and then
fails on the stale id of the second end: KeyError (an uncaught crash of the parser on a legal contour list).
Three cells around an artefact triangle (1, 2, 3), border points 7, 8, 9 on the outer sides; the last polygon
closes with the triangle side 3 - 1.  Exit 1 when create_lattice raises or leaves a stale edge id."""
import os, sys
sys.path.insert(0, os.environ.get("VERIF_REPO", "/repo"))
import numpy as np
import forsys.skeleton as sk

P = {1: (18, 12), 2: (30, 12), 3: (24, 24), 4: (24, -24), 5: (60, 36), 6: (-12, 36), 7: (42, 6), 8: (24, 36), 9: (6, 6)}
polys = [[1, 2, 5, 7, 4], [2, 3, 6, 8, 5], [1, 4, 9, 6, 3]]      # the last one closes with 3 - 1
s = object.__new__(sk.Skeleton)
s.fname, s.mirror_y = "", False
s.contours = [np.array([P[i] for i in p]) for p in polys]
s.vertex_id = s.edge_id = s.cell_id = 0
try:
    V, E, C = s.create_lattice()
except Exception as exc:
    print(f"create_lattice raised {type(exc).__name__}: {exc!r}")
    sys.exit(1)
stale = [(v.id, e) for v in V.values() for e in v.ownEdges if e not in E]
print("stale edge ids listed by vertices:", stale)
sys.exit(1 if stale else 0)

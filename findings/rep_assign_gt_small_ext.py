#!/venv/bin/python
"""reporting finding KF_GTSmallExt: Frame.assign_gt_small_edges("ext") (documented: '"ext" includes external edges')
iterates Frame.big_edges_list - lists of vertex ids - instead of BigEdge objects and raises AttributeError.
Exit 1 when the call raises or a mesh edge does not carry its interface's ground truth afterwards, 0 otherwise."""
import sys
from _rep_common import frame

fr = frame(2, 2, 1)
for i, b in fr.big_edges.items():
    b.gt = 1.0 + i
try:
    fr.assign_gt_small_edges("ext")
except Exception as exc:
    print(f'assign_gt_small_edges("ext") raises {type(exc).__name__}: {exc}')
    sys.exit(1)
wrong = [(i, e) for i, b in fr.big_edges.items() for e in b.edges if fr.edges[e].gt != b.gt]
print(f"{len(wrong)} mesh edges do not carry their interface's ground truth")
sys.exit(1 if wrong else 0)

"""Genuine defect C10 / KF_StaleExcluded.

ForceMatrix.solve writes the new tensions onto the mesh edges of the interfaces the matrix USES only
(`for index, element in enumerate(self.big_edges_to_use)`, forsys/fmatrix.py:326-331). Interfaces excluded by
the angle limit keep the SmallEdge.tension of an earlier solve; Frame.assign_tensions_to_big_edges then averages
those stale values into BigEdge.tension for ALL interfaces, so get_tensions() and every later
build_pressure_matrix() show the earlier solve's values at the excluded interfaces, where a fresh object solved
once with the same arguments shows 0 (ForSys.forces[t] agrees between the two: -1 at the excluded positions).

    build_force_matrix(0, angle_limit=pi); solve_stress(0); build_force_matrix(0, angle_limit=0.85*pi); solve_stress(0)
  vs fresh:
    build_force_matrix(0, angle_limit=0.85*pi); solve_stress(0)

Run: /venv/bin/python findings/c10_stale_excluded_tension.py   (exit 1 = defect present, 0 = absent)"""
import sys
from _c10_common import np, session, quiet, c10

LOW = c10.LIMITS["low"]
a, fa = session()
quiet(a.build_force_matrix, when=0, angle_limit=np.pi)
quiet(a.solve_stress, when=0)
first = {k: b.tension for k, b in fa[0].big_edges.items()}
quiet(a.build_force_matrix, when=0, angle_limit=LOW)
quiet(a.solve_stress, when=0)
b, fb = session()
quiet(b.build_force_matrix, when=0, angle_limit=LOW)
quiet(b.solve_stress, when=0)
excluded = [be.big_edge_id for be, used in zip(fa[0].internal_big_edges, fa[0].internal_big_edges_vertices)
            if used not in a.force_matrices[0].big_edges_to_use]
ta = quiet(fa[0].get_tensions, with_border=True).set_index("id")["stress"]
tb = quiet(fb[0].get_tensions, with_border=True).set_index("id")["stress"]
same_forces = all(abs(a.forces[0][i] - b.forces[0][i]) < 1e-12 for i in range(len(b.forces[0])))
stale = [k for k in excluded if abs(ta[k] - tb[k]) > 1e-9 and abs(ta[k] - first[k]) < 1e-9]
print("excluded interfaces:", excluded)
print("ForSys.forces[0] equal to the fresh object's:", same_forces)
for k in excluded:
    print(f"  interface {k}: revisited object {ta[k]:.6f}   fresh object {tb[k]:.6f}   first solve {first[k]:.6f}")
print("interfaces showing the FIRST solve's value although excluded now:", stale)
sys.exit(1 if stale else 0)

#!/venv/bin/python
"""reporting finding KF_ExportEmptyStore: Frame.export_tensions never exports anything.
It reads Frame.big_edge_gt_tension / Frame.big_edge_tension, which are created empty in __post_init__ and never
filled. 2x2 squares with one interior point per side, ground truth assigned and tensions inferred; the exported file
must contain the rows of get_gt_tensions() / get_tensions() (columns id, tension).
Exit 1 when an export does not round-trip to the table, 0 otherwise."""
import os, sys, tempfile
import pandas as pd
from _rep_common import fs, frame, quiet

fr = frame(2, 2, 1)
inner = fr.get_big_edges(use_all=False)
fr.assign_gt_tensions_to_big_edges([1.0 + 0.5 * i for i in range(len(inner))])
S = fs.ForSys({0: fr})
quiet(S.build_force_matrix, when=0)
quiet(S.solve_stress, when=0)
d = tempfile.mkdtemp()
bad = 0
for is_gt in (True, False):
    for with_border in (True, False):
        table = fr.get_gt_tensions(with_border) if is_gt else fr.get_tensions(with_border)
        want = list(zip(table["id"], table["gt" if is_gt else "stress"]))
        path = os.path.join(d, "out.csv")
        if os.path.exists(path):
            os.remove(path)
        try:
            fr.export_tensions("out.csv", d, is_gt=is_gt, with_border=with_border)
            text = open(path).read()
            try:
                got = pd.read_csv(path)
                got = list(zip(got["id"], got["tension"]))
            except Exception as exc:
                got = f"unreadable ({type(exc).__name__}); file content {text!r}"
        except Exception as exc:
            got = f"raised {type(exc).__name__}: {exc}"
        ok = got == want
        bad += not ok
        print(f"export_tensions(is_gt={is_gt}, with_border={with_border}): {'ok' if ok else 'FAILS'}: table has {len(want)} rows "
              f"{want[:2]}..., export gives {got if isinstance(got, str) else got[:2]}")
print(f"stores: big_edge_gt_tension={fr.big_edge_gt_tension} big_edge_tension={fr.big_edge_tension}")
sys.exit(1 if bad else 0)

"""Genuine defect C10 / KF_PressuresOverwritten.

ForSys.__post_init__ creates `self.pressures = {k: None for k in range(len(frames))}` (a per-frame store like
`self.forces`), but ForSys.solve_pressure does `self.pressures = self.pressure_matrices[when].solve_system(...)`
(forsys/forsys.py:104): the dict is REPLACED by the last result list, so the store never holds frame t's pressures
under key t and the results of every frame solved earlier are gone from it.

Run: /venv/bin/python findings/c10_pressures_store_overwritten.py   (exit 1 = defect present, 0 = absent)"""
import sys
from _c10_common import session, quiet

s, frames = session()
for t in (0, 1):
    quiet(s.build_force_matrix, when=t)
    quiet(s.solve_stress, when=t)
    quiet(s.build_pressure_matrix, when=t)
    quiet(s.solve_pressure, when=t, method="lagrange_pressure")
print("type(ForSys.pressures) after solve_pressure(0); solve_pressure(1):", type(s.pressures).__name__)
ok = isinstance(s.pressures, dict) and all(
    s.pressures.get(t) is not None and
    sorted(float(x) for x in s.pressures[t]) == sorted(float(c.pressure) for c in frames[t].cells.values())
    for t in (0, 1))
print("pressures[t] holds frame t's cell pressures for t = 0, 1:", ok)
sys.exit(0 if ok else 1)

#!/venv/bin/python
"""accel finding: TimeSeries.calculate_acceleration does not notice a step that was skipped as "different tissue"
(mapping[f] is None). calculate_velocity raises DifferentTissueException there (and acceleration_per_edge catches
exactly that exception), but calculate_acceleration
  * crashes with AttributeError ('NoneType' object has no attribute 'items') when the skipped step lies BEHIND the
    frame (central / backward difference: get_point_id_by_map inverts mapping[f] before testing it), and
  * goes on with the id of ANOTHER frame when the skipped step lies AHEAD (get_point_id_by_map leaves its loop and
    returns the id unchanged): the result is NaN or, when that id happens to exist in the later frame, a number
    computed from a vertex that is not the tracked partner.

Stand-alone: four frames of the 7-hexagon flower, step 1 -> 2 skipped (see _accel_common.py).
Exit 1 when the defect is present, 0 when every call over the skipped step raises DifferentTissueException or
returns NaN."""
import sys

import numpy as np

from _accel_common import fs, restore_stdout, session
from forsys.exceptions import DifferentTissueException

s, frames = session()
mesh = s.mesh
problems = []
for t in range(4):
    # the three time points of every frame of this four-frame series include step 1 -> 2
    for vid in [be[0] for be in frames[t].big_edges_list][:6]:
        try:
            a = mesh.calculate_acceleration(vid, t)
            if not np.any(np.isnan(a)):
                problems.append(f"frame {t} vertex {vid}: number {np.asarray(a).round(3).tolist()} across the skipped step")
        except DifferentTissueException:
            pass
        except Exception as exc:
            problems.append(f"frame {t} vertex {vid}: {type(exc).__name__}: {exc}")
# the same through the right-hand side of the force matrix
try:
    s.build_force_matrix(when=3)
    s.force_matrices[3].set_velocity_matrix(mesh, b_matrix="acceleration")
except DifferentTissueException:
    pass
except Exception as exc:
    problems.append(f"set_velocity_matrix(b_matrix='acceleration') at frame 3: {type(exc).__name__}: {exc}")
restore_stdout()
if problems:
    print(f"DEFECT PRESENT: {len(problems)} call(s) over the skipped step 1 -> 2 neither raise DifferentTissueException "
          f"nor return NaN; e.g. {problems[0]}; {problems[-1]}")
    sys.exit(1)
print("ok: calculate_acceleration over a skipped step raises DifferentTissueException / returns NaN")
sys.exit(0)

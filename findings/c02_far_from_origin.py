"""Known finding C02/KF_FarFromOrigin (also C01, C06): with the default 'dlite' least-squares circle fit the
tangents of arc interfaces become inaccurate when the tissue is translated by ~1e4 tissue sizes (within C06's
stated range); taubinSVD stays exact. Exit 1 = finding present."""
from _util import *
rng = random.Random(3)
t = eq.make(rng, 25, 1.5)
res = {}
for fit in ("dlite", "taubinSVD"):
    for off in (0.0, 1e4):
        sim = tissue.Similarity(0.7, 1.0, off, 0.3 * off)
        o, frame, f = build_and_matrix(t, 5, sim, fit=fit)
        # ignore sign-forced ends: compare only ends that are accurate at the origin
        res[(fit, off)] = {(e, v): err for err, e, v in tangent_errors(t, o, f, sim)}
bad = {fit: max(res[(fit, 1e4)][k] for k in res[(fit, 0.0)] if res[(fit, 0.0)][k] < 1e-3) for fit in ("dlite", "taubinSVD")}
print("largest error at 1e4 sizes among ends that are exact at the origin:", bad)
sys.exit(1 if bad["dlite"] > 0.02 and bad["taubinSVD"] < 1e-3 else 0)

#!/venv/bin/python
"""C12 finding: a partial `initial_guess` that pairs vertices for SOME steps only makes the whole
construction fail with KeyError (TimeSeries.__post_init__ indexes self.initial_guess[key] for every step),
so the user-supplied pairing is not honoured — no correspondence is built at all.

Stand-alone: three frames of the 7-hexagon flower moving rigidly by a small step, a guess for step 0 only.
Exit 1 when the defect is present, 0 when the session is built and the pairing is honoured."""
import os
import sys

REPO = os.environ.get("VERIF_REPO", "/repo")
sys.path.insert(0, REPO)
devnull = os.open(os.devnull, os.O_WRONLY)
saved = os.dup(1)
os.dup2(devnull, 1)
import forsys as fs  # noqa: E402


def hexagon(cx, cy):
    return [(cx + 2, cy), (cx + 1, cy + 2), (cx - 1, cy + 2), (cx - 2, cy), (cx - 1, cy - 2), (cx + 1, cy - 2)]


def frame(t, dx):
    centres = [(0, 0), (3, 2), (0, 4), (-3, 2), (-3, -2), (0, -4), (3, -2)]
    ids, vertices, edges, cells = {}, {}, {}, {}
    for ci, (cx, cy) in enumerate(centres):
        cyc = []
        for p in hexagon(cx, cy):
            if p not in ids:
                ids[p] = len(ids)
                vertices[ids[p]] = fs.vertex.Vertex(ids[p], p[0] + dx, float(p[1]))
            cyc.append(ids[p])
        for a, b in zip(cyc, cyc[1:] + cyc[:1]):
            if not any(set(e.get_vertices_id()) == {a, b} for e in edges.values()):
                edges[len(edges)] = fs.edge.SmallEdge(len(edges), vertices[a], vertices[b])
        cells[ci] = fs.cell.Cell(ci, [vertices[v] for v in cyc])
    return fs.frames.Frame(t, vertices, edges, cells, time=float(t))


frames = {t: frame(t, 0.05 * t) for t in range(3)}
junction = frames[0].big_edges_list[0][0]
status, msg = 0, ""
try:
    s = fs.ForSys(frames, cm=False, initial_guess={0: {junction: junction}})
    if s.mesh.mapping[0].get(junction) != junction or s.mesh.mapping[1].get(junction) != junction:
        status, msg = 1, f"pairing not honoured: {s.mesh.mapping[0].get(junction)}"
except KeyError as exc:
    status, msg = 1, f"KeyError({exc}) while building the correspondence: a guess for step 0 only is rejected"
os.dup2(saved, 1)
print("DEFECT PRESENT: " + msg if status else "ok: partial initial_guess (one step only) is honoured")
sys.exit(status)

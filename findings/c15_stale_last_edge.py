"""Finding C15 / KF_StaleLastEdge -- Skeleton.create_lattice raises KeyError in do_t3_transition
(or would leave a stale edge id in Vertex.ownEdges) on a premise-conforming skeleton.

Cause: in create_lattice the loop `for e in self.edges.values(): ... e.external = ...` leaves the local
variable `e` bound to the LAST-created SmallEdge for the rest of the function. When that edge is a side of
an artefact triangle (three-pixel junction cluster), do_t3_transition removes it from self.edges with `del`,
but the object stays alive through `e`, so SmallEdge.__del__ does not run and both end vertices keep the
edge id in ownEdges; the transition of the second end then does self.edges[<stale id>] -> KeyError.

Which edge is created last depends on the orientation of the image: OpenCV lists the holes in reverse
raster order, so the last contour belongs to the cell that contains the first enclosed background pixel;
its last new edge is a triangle side when, walking its boundary backwards from the start pixel, an interior
three-pixel junction is met before any outer-border line. In the image below that is the cell in the
top-left corner (a cell corner of the tissue outline that is also a junction). The same tissue rotated by
180 degrees parses fine.

The image: three cells, one-pixel-wide minimal 8-connected skeleton (no deletable pixel, no 2x2 block, every
pixel has 2 or 3 neighbours), all ridges >= 9 px, white one-pixel frame, black margin -- inside the premise
of C15.

Run: /venv/bin/python findings/c15_stale_last_edge.py   (exit 1 = finding present, 0 = absent)"""
import os
import sys
import tempfile

sys.path.insert(0, os.environ.get("VERIF_REPO", "/repo"))
import numpy as np
from PIL import Image

ROWS = """
#################################
#...............................#
#...............................#
#...............................#
#.....######################....#
#....#......................#...#
#...#.#.....................#...#
#...#..#....................#...#
#...#...#...................#...#
#...#....#..................#...#
#...#.....#.................#...#
#...#......#................#...#
#...#.......#...............#...#
#...#........#..............#...#
#...#.........#.............#...#
#...#..........#............#...#
#...#...........############....#
#...#...........#...........#...#
#...#...........#...........#...#
#...#...........#...........#...#
#...#...........#...........#...#
#...#...........#...........#...#
#...#...........#...........#...#
#...#...........#...........#...#
#...#...........#...........#...#
#...#...........#...........#...#
#...#...........#...........#...#
#...#...........#...........#...#
#....###########.###########....#
#...............................#
#...............................#
#...............................#
#################################
""".split()


def parse(img):
    import forsys as fs
    d = tempfile.mkdtemp(prefix="c15_", dir=os.path.join(os.path.dirname(os.path.abspath(__file__)), "..", "run"))
    path = os.path.join(d, "repro.png")
    Image.fromarray(img, mode="L").save(path)
    try:
        sk = fs.skeleton.Skeleton(path)
        vertices, edges, cells = sk.create_lattice()
        stale = [(v.id, e) for v in vertices.values() for e in v.ownEdges if e not in edges]
        return f"ok: {len(cells)} cells, stale edge ids {stale}", bool(stale)
    except Exception as exc:  # noqa
        return f"raised {type(exc).__name__}: {exc}", True
    finally:
        try:
            os.remove(path)
            os.rmdir(d)
        except OSError:
            pass


if __name__ == "__main__":
    os.makedirs(os.path.join(os.path.dirname(os.path.abspath(__file__)), "..", "run"), exist_ok=True)
    img = np.array([[255 if ch == "#" else 0 for ch in row] for row in ROWS], dtype=np.uint8)
    devnull = os.open(os.devnull, os.O_WRONLY)
    saved = os.dup(1)
    os.dup2(devnull, 1)          # forsys prints diagnostics on stdout
    try:
        res_a, bad_a = parse(img)
        res_b, bad_b = parse(img[::-1, ::-1].copy())
    finally:
        os.dup2(saved, 1)
    print("as drawn          :", res_a)
    print("rotated 180 degrees:", res_b)
    sys.exit(1 if (bad_a or bad_b) else 0)

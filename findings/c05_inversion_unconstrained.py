"""Known finding C05/KF_InversionUnconstrained: on a SQUARE system (2 x junctions = interfaces; here the hexagonal
flower: 6 junctions, 12 interfaces) the default back-end inverts the augmented system and returns the exact
solution without constraining signs: the multiplier is never checked (and tensions only with
allow_negatives=False). With a negative multiplier the reported tensions are not the non-negative least-squares
optimum that scipy.optimize.nnls finds for the same system. Exit 1 = finding present."""
from _util import *
import scipy.optimize as sco
t = cattissue.make("hexflower", sagitta=0.1, rng=random.Random(718796))
o, frame, f = build_and_matrix(t, 1, tissue.Similarity(0.2065, 2.03, 20.0, 5.0), fit="taubinSVD")
with core.quiet_stdout():
    f.solve_stress(when=0)
fm = f.force_matrices[0]
x = np.array([f.forces[0][i] for i in range(len(f.forces[0]))])
mp, b = fm.add_mean_one(np.zeros((fm.matrix.shape[0], 1)))
z = np.linalg.solve(mp, b.flatten())
znn, _ = sco.nnls(mp, b.flatten())
print("system", mp.shape, "exact solution multiplier:", round(z[-1], 4), " max |reported - nnls optimum|:", round(np.abs(x - znn[:-1]).max(), 4))
sys.exit(1 if z[-1] < -1e-3 and np.abs(x - znn[:-1]).max() > 1e-3 else 0)

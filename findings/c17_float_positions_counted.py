"""Genuine defect C17 / KF_FloatPositionsCounted: in integrate mode get_interpolation collects the
window positions of the walk in a set of FLOAT positions. On a slanted segment the interpolated
coordinate is not an integer, so several distinct float positions (4, 3.75), (4, 4.0) ... address the
same pixel (getpixel truncates) and the pixel is summed several times: the result is not "the sum of
the distinct pixels in the layered band". A 3-4-5 segment and a horizontal segment of the same length
5 with layers = 1 get 7.2 and 4.2 on a uniform image of ones (36 and 21 "pixels").

Measured through impulse responses (value for the image e_p times the length = weight of pixel p):
every weight must be 0 or 1.

Run: /venv/bin/python findings/c17_float_positions_counted.py   (exit 1 = defect present, 0 = absent)
VERIF_REPO=<dir> selects another working tree."""
import contextlib
import io
import os
import sys

sys.path.insert(0, os.environ.get("VERIF_REPO", "/repo"))
import numpy as np
from PIL import Image
import forsys as fs


def interface(bid, pts, vid0=0):
    vs = [fs.vertex.Vertex(vid0 + i, x, y) for i, (x, y) in enumerate(pts)]
    es = [fs.edge.SmallEdge(vid0 + i, vs[i], vs[i + 1]) for i in range(len(vs) - 1)]
    return fs.edge.BigEdge(bid, vs), es


slanted, e1 = interface(0, [(4, 4), (8, 7)])       # 3-4-5 segment, length 5
W, Hh, LAYERS, LENGTH = 14, 13, 1, 5.0
weights = np.zeros((Hh, W))
img = Image.new("F", (W, Hh), 0.0)
with contextlib.redirect_stdout(io.StringIO()), np.errstate(all="ignore"):
    for y in range(Hh):
        for x in range(W):
            img.putpixel((x, y), 1.0)
            weights[y, x] = fs.myosin.get_intensities([slanted], img, True, None, LAYERS)[0] * LENGTH
            img.putpixel((x, y), 0.0)
    w = np.rint(weights).astype(int)
    multi = [(x, y, int(w[y, x])) for y in range(Hh) for x in range(W) if w[y, x] > 1]
    ones = Image.fromarray(np.ones((Hh, W), dtype=np.float32))
    total = fs.myosin.get_intensities([slanted], ones, True, None, LAYERS)[0] * LENGTH
print("pixels counted more than once (x, y, times):", multi)
print(f"uniform image of ones: sum over the band = {total:.1f}, distinct pixels in the band = {int((w > 0).sum())}")
bad = bool(multi) or abs(total - (w > 0).sum()) > 1e-9
print("DEFECT PRESENT" if bad else "defect absent")
sys.exit(1 if bad else 0)

"""shared builder of the edits2 reproducers (real code only, no TLC): a grid of 2x2 squares as a two-frame ForSys
session; vertices are labelled 1.., cells 1.. row by row, k interior points on every square side"""
import contextlib, io, os, sys
sys.path.insert(0, os.environ.get("VERIF_REPO", "/repo"))
import forsys as fs
import forsys.vertex as fv, forsys.edge as fe, forsys.cell as fc


def grid_mesh(cols=3, rows=3, k=0, side=12.0, x0=100.0, y0=100.0):
    V, E, C, ids, seen = {}, {}, {}, {}, {}

    def vert(key, x, y):
        if key not in ids:
            ids[key] = len(ids) + 1
            V[ids[key]] = fv.Vertex(ids[key], float(x), float(y))
        return ids[key]
    cycles = []
    for j in range(rows):
        for i in range(cols):
            corners = [(i, j), (i + 1, j), (i + 1, j + 1), (i, j + 1)]
            cyc = []
            for a, b in zip(corners, corners[1:] + corners[:1]):
                cyc.append(vert((a, a, 0), x0 + side * a[0], y0 + side * a[1]))
                lo, hi = min(a, b), max(a, b)
                pts = [vert((lo, hi, n), x0 + side * (lo[0] + (hi[0] - lo[0]) * n / (k + 1)),
                            y0 + side * (lo[1] + (hi[1] - lo[1]) * n / (k + 1))) for n in range(1, k + 1)]
                cyc += pts if a == lo else pts[::-1]
            cycles.append(cyc)
    for cyc in cycles:
        for a, b in zip(cyc, cyc[1:] + cyc[:1]):
            if frozenset((a, b)) not in seen:
                seen[frozenset((a, b))] = len(E)
                E[len(E)] = fe.SmallEdge(len(E), V[a], V[b])
    for n, cyc in enumerate(cycles):
        C[n + 1] = fc.Cell(n + 1, [V[v] for v in cyc])
    return V, E, C


def session(nframes=2, **kw):
    frames = {}
    with contextlib.redirect_stdout(io.StringIO()):
        for t in range(nframes):
            V, E, C = grid_mesh(**kw)
            frames[t] = fs.frames.Frame(t, V, E, C, time=float(t))
            del V, E, C
        return fs.ForSys(frames)


def counts(frame):
    return len(frame.vertices), len(frame.edges), len(frame.cells)


def on_some_cell(frame, edge):
    a, b = edge.v1.id, edge.v2.id
    for cid in frame.cells:
        ids = [v.id for v in frame.cells[cid].vertices]
        if any({ids[i], ids[(i + 1) % len(ids)]} == {a, b} for i in range(len(ids))):
            return True
    return False

"""Finding C18/KF_KeyCollision: the dictionary of coarse-grained tensors is keyed by f"{row}{column}".

For grid >= 12 the key is not injective: "110" is (row 1, column 10) and (row 11, column 0), "111" is
(1, 11) and (11, 1). stress_tensor(frame, 12, r)[0] therefore has 142 entries for 144 grid cells (the
later position overwrites the earlier one) and Frame.calculate_stress_tensor reports, under the centre
of grid cell (1, 10), the eigen-decomposition of the tensor of grid cell (11, 0).

Staircase of unit squares (cells (i, j), i <= j < 6, side 2), every pressure 1, every tension 0, radius 1:
grid cell (1, 10) lies inside the tissue (tensor must be -1 * identity), grid cell (11, 0) lies outside
(tensor zero).
Run: /venv/bin/python findings/c18_key_collision.py   (exit 1 = finding present, 0 = absent)"""
import contextlib
import io
import os
import sys
sys.path.insert(0, os.environ.get("VERIF_REPO", "/repo"))
sys.path.insert(0, "/verif")
import numpy as np
import forsys as fs
from harness import build

N, GRID, RADIUS = 6, 12, 1.0
pts = {(i, j): (N + 1) * j + i for i in range(N + 1) for j in range(N + 1)}
cells, used = [], set()
for j in range(N):
    for i in range(j + 1):
        cyc = [pts[(i, j)], pts[(i + 1, j)], pts[(i + 1, j + 1)], pts[(i, j + 1)]]
        cells.append([len(cells), cyc])
        used.update(cyc)
V = [[pts[k], 2.0 * k[0], 2.0 * k[1]] for k in pts if pts[k] in used]
desc = {"V": V, "E": build.edges_from_cells(cells), "C": cells}
with contextlib.redirect_stdout(io.StringIO()):
    v, e, c = build.build_mesh(desc)
    fr = fs.frames.Frame(0, v, e, c)
    for cell in fr.cells.values():
        cell.pressure = 1.0
    for be in fr.big_edges.values():
        be.tension = 0.0
    sig, centres, _ = fs.stress_tensor.stress_tensor(fr, GRID, RADIUS)
    fr.calculate_stress_tensor(coarsing=GRID, radius=RADIUS)

# independent oracle for this input: -1 * identity where a centroid is within the radius, else zero
cms = np.array([cell.get_cm() for cell in fr.cells.values()])
mean_area = np.mean([abs(cell.get_area()) for cell in fr.cells.values()])
dmin2 = RADIUS ** 2 * mean_area / np.pi
wrong = []
with np.errstate(all="ignore"):
    for row in range(GRID):
        for col in range(GRID):
            x, y = centres[0][row], centres[1][col]
            inside = bool(np.any((cms[:, 0] - x) ** 2 + (cms[:, 1] - y) ** 2 <= dmin2))
            want = -1.0 if inside else 0.0
            w, _ = fr.principal_stress[(x, y)]
            if not np.allclose(sorted(np.real(w)), [want, want], atol=1e-9):
                wrong.append(((row, col), want, [float(t) for t in np.real(w)]))
print(f"grid {GRID}: {len(sig)} dictionary entries for {GRID * GRID} grid cells")
for pos, want, got in wrong:
    print(f"principal stresses reported at the centre of grid cell {pos}: {got}, expected {want} twice")
sys.exit(1 if (len(sig) != GRID * GRID or wrong) else 0)

"""Known finding C02/KF_TwoPointInterface (also C01, C03, C06): an interface given by exactly two points gets a
coefficient pair PERPENDICULAR to the interface (the 'circle centre' of two points is their midpoint, and the
tangent is taken perpendicular to the radius). Exit 1 = finding present."""
from _util import *
t = cattissue.make("hexflower")
sim = tissue.Similarity(0.3, 1.0, 0, 0)
o, frame, f = build_and_matrix(t, 0, sim)
errs = tangent_errors(t, o, f, sim)
print("largest coefficient errors with 2-point interfaces:", [round(e[0], 3) for e in errs[:5]])
sys.exit(1 if errs[0][0] > 0.5 else 0)

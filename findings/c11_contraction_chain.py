#!/venv/bin/python
"""C11 / C09 finding: generate_mesh(replace_short_edges=True) cannot contract two-point border interfaces that
share an end (a "chain"): join_two_vertices looks the shared end up through a mapper that is not followed
transitively and Cell.replace_vertex is applied to cells that no longer contain the vertex.
(a) three triangles around a junction (all three border interfaces are two-point): SegmentationArtifactException
(b) a strip of three cells: ValueError ("list.remove(x): x not in list")
Both are legal meshes (Consistent, planar cell complexes). Exit 1 when a call raises, 0 otherwise."""
import os, sys
sys.path.insert(0, os.environ.get("VERIF_REPO", "/repo"))
import forsys.vertex as fv, forsys.edge as fe, forsys.cell as fc, forsys.virtual_edges as ve

SEEDS = {
    "fan": ({1: (12, 12), 2: (0, 0), 3: (24, 0), 4: (12, 30)}, [[1, 2, 3], [1, 3, 4], [1, 4, 2]], 3),
    "strip": ({1: (0, 0), 2: (12, 0), 3: (24, 0), 4: (36, 0), 5: (36, 12), 6: (24, 12), 7: (12, 12), 8: (0, 12), 9: (6, 0)},
              [[1, 9, 2, 7, 8], [2, 3, 6, 7], [3, 4, 5, 6]], 3),
}


def build(pos, cyc):
    V = {k: fv.Vertex(k, float(x) + 50, float(y) + 50) for k, (x, y) in pos.items()}
    E, seen = {}, set()
    for c in cyc:
        for i in range(len(c)):
            a, b = c[i], c[(i + 1) % len(c)]
            if frozenset((a, b)) not in seen:
                seen.add(frozenset((a, b)))
                E[len(E)] = fe.SmallEdge(len(E), V[a], V[b])
    C = {i + 1: fc.Cell(i + 1, [V[v] for v in c]) for i, c in enumerate(cyc)}
    return V, E, C


bad = 0
for name, (pos, cyc, ne) in SEEDS.items():
    V, E, C = build(pos, cyc)
    try:
        ve.generate_mesh(V, E, C, ne=ne, replace_short_edges=True)
        print(f"{name}: ok")
    except Exception as exc:
        print(f"{name}: generate_mesh(ne={ne}, replace_short_edges=True) raised {type(exc).__name__}: {exc}")
        bad += 1
sys.exit(1 if bad else 0)

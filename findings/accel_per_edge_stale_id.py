#!/venv/bin/python
"""accel finding: acceleration_per_edge / velocity_per_edge / whole_tissue_acceleration after a step that was skipped
as "different tissue". get_point_id_by_map leaves its loop at the skipped step and returns the id it has reached so
far - an id of an EARLIER frame - and the callers look that id up in the LATER frame: KeyError (uncaught, the lookups
are outside the try), AttributeError from calculate_acceleration, or the value of an unrelated vertex that happens to
carry the same id. The docstrings / the `except DifferentTissueException: acc = np.nan` branch show the intent:
nan for the steps that cannot be reached.

Stand-alone: four frames of the 7-hexagon flower, step 1 -> 2 skipped, frames 2 and 3 numbered differently
(see _accel_common.py). Exit 1 when the defect is present, 0 when the rows have nan from the skipped step on."""
import sys

import numpy as np

from _accel_common import fs, restore_stdout, session
from forsys.exceptions import DifferentTissueException

s, frames = session()
mesh = s.mesh
problems = []
for name in ("velocity_per_edge", "acceleration_per_edge"):
    try:
        row = getattr(mesh, name)(0, 0, 4)
        # velocities: step 0 is tracked; everything from frame 1 on needs the skipped step. accelerations: every frame does
        first_bad = 1 if name == "velocity_per_edge" else 0
        if len(row) != 4 or not all(np.isnan(x) for x in row[first_bad:]):
            problems.append(f"{name}(0, 0, 4) = {[None if np.isnan(x) else round(float(x), 3) for x in row]}: numbers beyond the skipped step")
    except Exception as exc:
        problems.append(f"{name}(0, 0, 4): {type(exc).__name__}: {exc}")
try:
    mesh.whole_tissue_acceleration(3)
except DifferentTissueException:      # acceptable: whole_tissue_velocity lets the same exception through
    pass
except Exception as exc:
    problems.append(f"whole_tissue_acceleration(3): {type(exc).__name__}: {exc}")
restore_stdout()
if problems:
    print("DEFECT PRESENT: " + "; ".join(problems))
    sys.exit(1)
print("ok: per-interface rows are nan from the skipped step on")
sys.exit(0)

#!/venv/bin/python
"""primitives finding KF_CellEdgesOpen: Cell.get_edges() looks up the mesh edge of (vertices[n], vertices[n + 1]) for
n < len - 1 only: the side closing the cycle (last vertex -> first vertex) is never returned. A triangle with its
three mesh edges reports two. Uses forsys only. Exit 1 when a side of the cell is missing, 0 otherwise."""
import contextlib, io, os, sys
sys.path.insert(0, os.environ.get("VERIF_REPO", "/repo"))
with contextlib.redirect_stdout(io.StringIO()):
    from forsys.vertex import Vertex
    from forsys.edge import SmallEdge
    from forsys.cell import Cell
    a, b, c = Vertex(0, 1., 1.), Vertex(1, 2., 4.), Vertex(2, 3., 9.)
    edges = {0: SmallEdge(0, a, b), 1: SmallEdge(1, b, c), 2: SmallEdge(2, c, a)}
    cell = Cell(0, [a, b, c])
    got = cell.get_edges()
missing = sorted(set(edges) - set(got))
if missing:
    print(f"triangle with mesh edges {sorted(edges)}: get_edges() = {got}; missing side(s) {missing} "
          f"= {[edges[k].get_vertices_id() for k in missing]}")
sys.exit(1 if missing else 0)

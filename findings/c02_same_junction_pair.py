"""Fixed defect (C02, C01): two internal interfaces that join the SAME pair of junctions (the two sides of a lens-shaped
cell D squeezed between neighbours L and R that also touch each other) were given ONE column of the force-balance matrix:
virtual_edges.eid_from_vertex identified an interface by any two shared vertices, so D|R was written into the column of
D|L, the column of D|R stayed empty and both junctions, left with two non-zero coefficients, lost their equations.
Stand-alone (forsys only). Exit 1 = defect present, 0 = absent."""
import os, sys
sys.path.insert(0, os.environ.get("VERIF_REPO", "/repo"))
import io, contextlib
import numpy as np
import forsys as fs

D = [(0, 2), (-1, 0), (0, -2), (1, 0)]
L = [(0, 2), (-1, 0), (0, -2), (0, -4), (-4, -4), (-4, 4), (0, 4)]
R = [(0, 2), (0, 4), (4, 4), (4, -4), (0, -4), (0, -2), (1, 0)]
T = [(-4, 4), (-4, 7), (4, 7), (4, 4), (0, 4)]
B = [(-4, -4), (0, -4), (4, -4), (4, -7), (-4, -7)]
polys = [D, L, R, T, B]
# rotate by a generic angle and add one interior point per side so that no interface has two points only
th = 0.37
rot = lambda p: (p[0] * np.cos(th) - p[1] * np.sin(th), p[0] * np.sin(th) + p[1] * np.cos(th))
vid, vertices, edges, cells, ekey = {}, {}, {}, {}, {}
def vertex(p):
    p = (round(p[0], 9), round(p[1], 9))
    if p not in vid:
        vid[p] = len(vid)
        x, y = rot(p)
        vertices[vid[p]] = fs.vertex.Vertex(vid[p], x, y)
    return vid[p]
for ci, poly in enumerate(polys):
    cyc = []
    for i, a in enumerate(poly):
        b = poly[(i + 1) % len(poly)]
        cyc += [vertex(a), vertex(((a[0] + b[0]) / 2, (a[1] + b[1]) / 2))]
    for i, a in enumerate(cyc):
        b = cyc[(i + 1) % len(cyc)]
        if frozenset((a, b)) not in ekey:
            ekey[frozenset((a, b))] = len(edges)
            edges[len(edges)] = fs.edge.SmallEdge(len(edges), vertices[a], vertices[b])
    cells[ci] = fs.cell.Cell(ci, [vertices[v] for v in cyc], {})
with contextlib.redirect_stdout(io.StringIO()):
    frame = fs.frames.Frame(0, vertices, edges, cells, time=0)
    f = fs.ForSys({0: frame}, cm=False)
    f.build_force_matrix(when=0, angle_limit=np.inf)
fm = f.force_matrices[0]
top, bottom = vid[(0, 2)], vid[(0, -2)]
cols = [i for i, be in enumerate(fm.big_edges_to_use) if {be[0], be[-1]} == {top, bottom}]
print("internal interfaces:", len(fm.big_edges_to_use), "columns of the two lens sides:", cols)
empty = [c for c in cols if not np.any(fm.matrix[:, c])]
missing = [v for v in (top, bottom) if v not in fm.map_vid_to_row]
print("all-zero columns among them:", empty, "| lens junctions without equations:", missing)
sys.exit(1 if empty or missing or len(cols) != 2 else 0)

"""Finding C14/KF_BareEdgeLine: an edge record without any token after the two vertex ids
(`  2       2    3`: no `density`, no other attribute) makes SurfaceEvolver.get_edges evaluate
`lines[i].split()[3]` on a three-token line: the whole parse raises IndexError. The statement says the
reference tension of such an edge is 1. (An edge without density that carries another attribute, e.g.
`original 7`, is parsed correctly.)
Run: /venv/bin/python findings/c14_bare_edge_line.py   (exit 1 = finding present, 0 = absent)"""
import os
import sys
sys.path.insert(0, os.environ.get("VERIF_REPO", "/repo"))
import forsys as fs

DMP = """// one square face; edge 2 has no density field
vertices        /*  coordinates  */
  1                  0                  0
  2                 10                  0
  3                 10                 10
  4                  0                 10

edges
  1       1    2      density 1.25
  2       2    3
  3       3    4      original 7
  4       4    1      density 0.75

faces    /* edge loop */
  1   1 2 3 4 /*area 100*/

bodies  /* facets */
  1       1  volume 100  /*actual: 100*/ lagrange_multiplier 0.05  centerofmass

read
"""
# the section headers of the shipped files are followed by blanks ("edges  ", "bodies  /* facets */")
DMP = DMP.replace("\nedges\n", "\nedges  \n").replace("vertices        /*  coordinates  */", "vertices        /*  coordinates  */    ")
path = os.path.join(os.path.dirname(os.path.abspath(__file__)), "..", "run", "C14", "findings", "bare_edge_line.dmp")
os.makedirs(os.path.dirname(path), exist_ok=True)
open(path, "w").write(DMP)
try:
    se = fs.surface_evolver.SurfaceEvolver(path)
except IndexError as exc:
    print("parse raised IndexError:", exc)
    sys.exit(1)
gts = {eid: e.gt for eid, e in se.edges.items()}
print("parsed; reference tensions:", gts)
sys.exit(0 if gts == {1: 1.25, 2: 1, 3: 1, 4: 0.75} else 1)

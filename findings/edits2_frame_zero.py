#!/venv/bin/python
"""edits2 finding KF_FrameZero: ForSys.remove_cell(frame_number, cell_id) says `del self.frames[0].cells[cell_id]`
and ForSys.remove_outermost_edges reads the is_border flags of `self.frames[0]`.
Two-frame session of 3x3 squares (fresh objects per frame).
 (a) remove_cell(1, 5) (centre cell, no private vertex): returns normally, frame 1 still has 9 cells, frame 0 has 8.
 (b) remove_cell(1, 1) (corner cell): its private vertex and edges are deleted from frame 1, the cell is deleted from
     frame 0, the rebuild of frame 1 raises KeyError.
 (c) remove_outermost_edges(1, 1) with the outer cells flagged in frame 1 only: nothing is removed.
Exit 1 when any of these is observed, 0 when frame 1 loses exactly the named cells and frame 0 is untouched."""
import contextlib, io, sys
from _edits2_common import session, counts

bad = 0
S = session()
with contextlib.redirect_stdout(io.StringIO()):
    S.remove_cell(1, 5)
a0, a1 = counts(S.frames[0]), counts(S.frames[1])
ok = a0 == (16, 24, 9) and a1 == (16, 24, 8)
print(f"(a) remove_cell(1, 5): frame 0 (v, e, c) = {a0}, frame 1 = {a1}: {'ok' if ok else 'WRONG (expected frame 0 untouched, frame 1 with 8 cells)'}")
bad += not ok

S = session()
raised = ""
try:
    with contextlib.redirect_stdout(io.StringIO()):
        S.remove_cell(1, 1)
except Exception as exc:
    raised = type(exc).__name__
b0, b1 = counts(S.frames[0]), counts(S.frames[1])
ok = not raised and b0 == (16, 24, 9) and b1 == (15, 22, 8)
print(f"(b) remove_cell(1, 1): raised {raised or 'nothing'}, frame 0 = {b0}, frame 1 = {b1}: {'ok' if ok else 'WRONG (expected frame 0 untouched, frame 1 = (15, 22, 8))'}")
bad += not ok

S = session()
for cid in (1, 2, 3, 4, 6, 7, 8, 9):
    S.frames[1].cells[cid].is_border = True
raised = ""
try:
    with contextlib.redirect_stdout(io.StringIO()):
        S.remove_outermost_edges(1, 1)
except Exception as exc:
    raised = type(exc).__name__
c0, c1 = counts(S.frames[0]), counts(S.frames[1])
ok = not raised and c0 == (16, 24, 9) and c1 == (4, 4, 1)
print(f"(c) remove_outermost_edges(1, 1), flags in frame 1: raised {raised or 'nothing'}, frame 0 = {c0}, frame 1 = {c1}: {'ok' if ok else 'WRONG (expected frame 1 = (4, 4, 1))'}")
bad += not ok
sys.exit(1 if bad else 0)

#!/venv/bin/python
"""workflow finding KF_MappingNeverRebuilt: the TimeSeries keeps the vertex mapping it made at construction from the
generation-0 frames.  After two neighbouring border cells are removed from BOTH frames' partner (here frame 1 keeps all
cells, frame 0 loses two) the mapping still names vertices of frame 0 that no longer exist, and velocities of frame 1
(backward difference into frame 0) silently become those of a resting vertex; a fresh session on the edited frames does
not pretend: it refuses the pair (DifferentTissueException) or maps what is left.
Exit 1 when the mapping names vanished vertices and a velocity is silently zero, 0 otherwise."""
import sys
import numpy as np
from _wf_common import session, fresh_copy, quiet

S = session()
with quiet():
    S.remove_cell(0, 1)
    S.remove_cell(0, 2)
m = S.mesh.mapping[0]
gone = [k for k in m if k not in S.frames[0].vertices]
print(f"mapping[0] has {len(m)} entries; {len(gone)} of its keys are vertices that no longer exist in frame 0: {gone}")
zero = []
for k in gone:
    v1 = m[k]
    if v1 in S.frames[1].vertices:
        vel = S.mesh.calculate_velocity(v1, 1)          # backward difference into frame 0
        if np.allclose(vel, 0):
            zero.append((v1, vel.tolist()))
print(f"calculate_velocity of their partners in frame 1: {zero}  (the vertices moved between the frames)")
try:
    F = fresh_copy(S)
    fm = F.mesh.mapping[0]
    print("fresh session on the edited frames:", "pair refused (DifferentTissue)" if fm is None else f"{len(fm)} entries, all alive: "
          f"{all(k in F.frames[0].vertices for k in fm)}")
except Exception as exc:
    print("fresh session:", repr(exc))
sys.exit(1 if gone and zero else 0)

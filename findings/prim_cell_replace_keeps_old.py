#!/venv/bin/python
"""primitives finding KF_CellReplaceKeepsOld: Cell.replace_vertex(vold, vnew) registers the cell on vnew but never
removes it from vold.ownCells (SmallEdge.replace_vertex does move its registration). While vold stays in the mesh it
lists a cell it is not part of (C09.cell_listed); calculate_neighbors of any other cell at vold then reports the cell as a
neighbour. Uses forsys only. Exit 1 when the old vertex still lists the cell, 0 otherwise."""
import contextlib, io, os, sys
sys.path.insert(0, os.environ.get("VERIF_REPO", "/repo"))
with contextlib.redirect_stdout(io.StringIO()):
    from forsys.vertex import Vertex
    from forsys.cell import Cell
    a, b, c, d, e = Vertex(0, 1., 1.), Vertex(1, 2., 4.), Vertex(2, 3., 9.), Vertex(3, 4., 16.), Vertex(4, 5., 25.)
    cells = {0: Cell(0, [a, b, c]), 1: Cell(1, [a, d, e])}
    cells[0].replace_vertex(a, d)            # documented use: a is in the cell, d is not
cyc = [v.id for v in cells[0].vertices]
bad = 0
if cyc != [3, 1, 2] or 0 not in d.ownCells:
    print(f"unexpected: cycle {cyc}, d.ownCells {d.ownCells}")
if 0 in a.ownCells:
    bad = 1
    print(f"cell 0 is now {cyc}; vertex 0 is no longer part of it but a.ownCells = {a.ownCells}")
    # consequence: a bogus neighbourhood through the replaced vertex (cells 0 and 1 really share vertex 3 now, so use a third)
    with contextlib.redirect_stdout(io.StringIO()):
        f, g = Vertex(5, 6., 36.), Vertex(6, 7., 49.)
        cells[2] = Cell(2, [a, f, g])
    print(f"calculate_neighbors of cell 2 = [0, 5, 6]: {sorted(cells[2].calculate_neighbors())} "
          f"(cell 0 = {cyc} shares no vertex with it)")
sys.exit(1 if bad else 0)

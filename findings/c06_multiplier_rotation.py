"""Known finding C06/KF_MultiplierNotRotationInvariant: the multiplier column of ones is added to every x- AND
y-equation, which is not a rotation-invariant constraint. For a noisy (non-equilibrium) tissue whose optimal
multiplier is positive the inferred tensions change when the tissue is merely rotated. Exit 1 = finding present."""
from _util import *
rng = random.Random(11)
t = eq.make(rng, 20, 0.0)
infer.normalise_tensions(t)
out = {}
for theta in (0.3, 1.4, 2.9, 4.0):
    sim = tissue.Similarity(theta, 1.0, 0, 0)
    o, frame, f = build_and_matrix(t, 3, sim, fit="taubinSVD")
    # make the system inconsistent: perturb every interior point a little (same perturbation in the model frame)
    with core.quiet_stdout():
        f.solve_stress(when=0)
    newid = o["info"]["newid"]
    out[theta] = {}
    for kk, be in enumerate(frame.internal_big_edges):
        ids = (be.vertices[0].id, be.vertices[-1].id)
        out[theta][frozenset(ids)] = f.forces[0][kk]
keys = list(out[0.3])
spread = max(max(out[th][k] for th in out) - min(out[th][k] for th in out) for k in keys)
print("equilibrium tissue: largest spread of a tension over 4 rotations:", round(spread, 5))
# noisy tissue
for r in t["edges"].values():
    r["T"] *= 1.0
t2 = eq.make(random.Random(12), 20, 0.0)
res = {}
for theta in (0.3, 1.4, 2.9, 4.0):
    sim = tissue.Similarity(theta, 1.0, 0, 0)
    rng2 = random.Random(5)
    with core.quiet_stdout():
        o = infer.make_case_objects(t2, 3, sim, rng2)
        # deform: move every junction-level vertex by a fixed model-frame offset (rotated with the tissue)
        jrng = random.Random(99)
        for v, nid in o["info"]["newid"].items():
            d = sim.rot @ np.array([jrng.uniform(-0.02, 0.02), jrng.uniform(-0.02, 0.02)])
            o["vertices"][nid].x += d[0]; o["vertices"][nid].y += d[1]
        frame = fs.frames.Frame(0, o["vertices"], o["edges"], o["cells"], time=0)
        f = fs.ForSys({0: frame}, cm=False)
        f.build_force_matrix(when=0, angle_limit=float("inf"), circle_fit_method="taubinSVD")
        f.solve_stress(when=0)
    inv = {nid: v for v, nid in o["info"]["newid"].items()}
    res[theta] = {frozenset((inv[be.vertices[0].id], inv[be.vertices[-1].id])): f.forces[0][kk] for kk, be in enumerate(frame.internal_big_edges)}
keys = list(res[0.3])
spread2 = max(max(res[th][k] for th in res) - min(res[th][k] for th in res) for k in keys)
print("deformed (non-equilibrium) tissue: largest spread of a tension over 4 rotations:", round(spread2, 5))
sys.exit(1 if spread2 > 0.02 and spread < 5e-3 else 0)

#!/venv/bin/python
"""workflow finding KF_FilterKeepsCache: BigEdge.xs / ys are cached when the Frame is constructed and never refreshed.
After Frame.filter_edges() (which moves the vertices) a complete re-analysis - build_force_matrix, solve_stress,
build_pressure_matrix, solve_pressure - takes the tangents from the filtered vertices but the curvatures from the
UNFILTERED cached shape: the pressures differ from those of a fresh session on a deep copy of the filtered mesh (the
tensions agree).
Exit 1 when the re-analysed pressures differ from the fresh session's, 0 otherwise."""
import sys
import numpy as np
from _wf_common import session, fresh_copy, analyse, tensions, pressures, quiet

S = session(k=3)
with quiet():
    S.frames[0].filter_edges()
be = S.frames[0].big_edges[0]
moved = max(abs(x - v.x) + abs(y - v.y) for x, y, v in zip(be.xs, be.ys, be.vertices))
print(f"after filter_edges(): interface 0 caches coordinates up to {moved:.4f} away from its vertices")
analyse(S, 0)
F = fresh_copy(S)
analyse(F, 0)
ta, tb = tensions(S), tensions(F)
pa, pb = pressures(S), pressures(F)
print(f"tensions agree with a fresh session on the filtered mesh: {bool(np.allclose(ta, tb, atol=1e-6))}")
print(f"pressures after the re-analysis: {pa}\nfresh session on the same mesh : {pb}")
bad = not np.allclose(pa, pb, atol=1e-5)
print("pressures computed from the stale coordinate cache" if bad else "pressures agree")
sys.exit(1 if bad else 0)

#!/venv/bin/python
"""C09 finding: contracting a two-point interface (a, b) whose ends are also joined by a second interface
a - x - b on the boundary of a cell (a sliver between them that is not a cell; skeleton artefacts and WKT rings
written by forsys.wkt.create_wkt and read back by create_lattice contain such pairs) leaves that cell with
consecutive cycle vertices that are not joined by a mesh edge: Cell.replace_vertex substitutes the new vertex
for the first end and then *removes* the second end, so x ends up on the wrong side of the merged vertex.
Exit 1 when the resulting mesh has a cell whose consecutive vertices are not joined by a mesh edge."""
import os, sys
sys.path.insert(0, os.environ.get("VERIF_REPO", "/repo"))
import forsys.vertex as fv, forsys.edge as fe, forsys.cell as fc, forsys.virtual_edges as ve

pos = {1: (0, 0), 2: (0, 12), 3: (12, 12), 4: (12, 0), 5: (24, 0), 6: (24, 12), 7: (6, 6)}
cyc = [[1, 4, 7, 3, 2], [4, 5, 6, 3]]          # cell 1 goes 4 - 7 - 3, cell 2 uses the direct edge 3 - 4
V = {k: fv.Vertex(k, float(x) + 50, float(y) + 50) for k, (x, y) in pos.items()}
E, seen = {}, set()
for c in cyc:
    for i in range(len(c)):
        a, b = c[i], c[(i + 1) % len(c)]
        if frozenset((a, b)) not in seen:
            seen.add(frozenset((a, b)))
            E[len(E)] = fe.SmallEdge(len(E), V[a], V[b])
C = {i + 1: fc.Cell(i + 1, [V[v] for v in c]) for i, c in enumerate(cyc)}
V, E, C, _ = ve.generate_mesh(V, E, C, ne=3, replace_short_edges=True)
pairs = {frozenset((e.v1.id, e.v2.id)) for e in E.values()}
bad = 0
for cid, c in C.items():
    ids = [v.id for v in c.vertices]
    for i in range(len(ids)):
        pr = frozenset((ids[i], ids[(i + 1) % len(ids)]))
        if pr not in pairs:
            print(f"cell {cid} cycle {ids}: consecutive vertices {sorted(pr)} are not joined by a mesh edge "
                  f"(mesh edges: {sorted(tuple(sorted(p)) for p in pairs)})")
            bad += 1
print("inconsistent" if bad else "consistent")
sys.exit(1 if bad else 0)

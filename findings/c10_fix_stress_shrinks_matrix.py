"""Genuine defect C10 / KF_FixStress (also C05).

solve_stress(method="fix_stress"): ForceMatrix.fix_one_stress computes `b - value * self.matrix[:, max_index]`
with shapes (m,1) - (m,), which broadcasts to (m,m), and DELETES A COLUMN OF THE STORED MATRIX IN PLACE
(`self.matrix = np.delete(self.matrix, max_index, 1)`, forsys/fmatrix.py:446-457); the solve then raises
ValueError (nnls: incompatible dimensions). The call reports nothing, but the session is damaged: every later
solve_stress on that frame (any method) until the next build_force_matrix writes shifted values — the last one the
Lagrange multiplier — onto the mesh edges and then raises IndexError in get_solution_no_discarded, where a fresh
object solves normally.

Run: /venv/bin/python findings/c10_fix_stress_shrinks_matrix.py   (exit 1 = defect present, 0 = absent)"""
import sys
from _c10_common import session, quiet

s, frames = session()
quiet(s.build_force_matrix, when=0)
quiet(s.solve_stress, when=0)
before_shape = s.force_matrices[0].matrix.shape
before_edges = {k: e.tension for k, e in frames[0].edges.items()}
first = None
try:
    quiet(s.solve_stress, when=0, method="fix_stress")
except Exception as exc:
    first = type(exc).__name__
after_shape = s.force_matrices[0].matrix.shape
second = None
try:
    quiet(s.solve_stress, when=0)
except Exception as exc:
    second = type(exc).__name__
changed = sum(1 for k, e in frames[0].edges.items() if e.tension != before_edges[k])
print("solve_stress(method='fix_stress') raised:", first)
print("stored matrix shape before / after the failed call:", before_shape, after_shape)
print("next solve_stress() on the same matrix raised:", second, "- mesh edges whose tension changed meanwhile:", changed)
sys.exit(1 if (first or second or after_shape != before_shape) else 0)

#!/venv/bin/python
"""primitives finding KF_BigEdgeNeverDeregisters: BigEdge.__post_init__ registers its id in own_big_edges of every vertex
FIRST and has no destructor:
  (a) a construction that is refused (IndexError: two consecutive vertices without a common mesh edge) leaves the id
      registered on all its vertices although no such interface exists;
  (b) dropping / replacing an interface never removes its id (the root of edits2/KF_StaleOwnBigEdges).
Uses forsys only. Exit 1 when a vertex lists an interface that does not exist, 0 otherwise."""
import contextlib, io, os, sys
sys.path.insert(0, os.environ.get("VERIF_REPO", "/repo"))
with contextlib.redirect_stdout(io.StringIO()):
    from forsys.vertex import Vertex
    from forsys.edge import SmallEdge, BigEdge
    a, b, c = Vertex(0, 1., 1.), Vertex(1, 2., 4.), Vertex(2, 3., 9.)
    edges = {0: SmallEdge(0, a, b)}          # no mesh edge between b and c
    big = {}
    refused = ""
    try:
        big[7] = BigEdge(7, [a, b, c])
    except IndexError as exc:
        refused = "IndexError"
bad = 0
if refused and any(7 in v.own_big_edges for v in (a, b, c)):
    bad += 1
    print(f"(a) BigEdge(7, [a, b, c]) refused with {refused}, yet own_big_edges = {[v.own_big_edges for v in (a, b, c)]}")
with contextlib.redirect_stdout(io.StringIO()):
    big[3] = BigEdge(3, [a, b])
    del big[3]
if 3 in a.own_big_edges or 3 in b.own_big_edges:
    bad += 1
    print(f"(b) interface 3 = [a, b] was dropped, yet own_big_edges = {[v.own_big_edges for v in (a, b)]}")
print(f"{bad} of 2 scenarios leave the id of a non-existent interface on a vertex")
sys.exit(1 if bad else 0)

#!/venv/bin/python
"""C11 / C09 finding: join_two_vertices places the merged vertex at abs(x0 + x1) / 2, abs(y0 + y1) / 2,
i.e. mirrored into the positive quadrant for tissues at negative coordinates.
Two quadrilateral cells sharing the two-point interface (2, 3); generate_mesh(replace_short_edges=True)
contracts it. Exit 1 when the new vertex is not at the midpoint, 0 when it is."""
import os, sys
sys.path.insert(0, os.environ.get("VERIF_REPO", "/repo"))
import forsys.vertex as fv, forsys.edge as fe, forsys.cell as fc, forsys.virtual_edges as ve


def build(dx, dy):
    pos = {1: (0, 0), 2: (12, 0), 3: (12, 12), 4: (0, 12), 5: (24, 0), 6: (24, 12)}
    V = {k: fv.Vertex(k, float(x + dx), float(y + dy)) for k, (x, y) in pos.items()}
    cyc = [[1, 2, 3, 4], [2, 5, 6, 3]]
    E, seen = {}, set()
    for c in cyc:
        for i in range(len(c)):
            a, b = c[i], c[(i + 1) % len(c)]
            if frozenset((a, b)) not in seen:
                seen.add(frozenset((a, b)))
                E[len(E)] = fe.SmallEdge(len(E), V[a], V[b])
    C = {i + 1: fc.Cell(i + 1, [V[v] for v in c]) for i, c in enumerate(cyc)}
    return V, E, C


bad = 0
for dx, dy in ((100, 100), (-100, -50), (-100, 100)):
    V, E, C = build(dx, dy)
    a, b = (V[2].x, V[2].y), (V[3].x, V[3].y)
    V, E, C, _ = ve.generate_mesh(V, E, C, ne=4, replace_short_edges=True)
    new = [v for v in V.values() if v.id not in (1, 4, 5, 6)]
    assert len(new) == 1, [v.id for v in new]
    n = new[0]
    mid = ((a[0] + b[0]) / 2, (a[1] + b[1]) / 2)
    ok = abs(n.x - mid[0]) < 1e-9 and abs(n.y - mid[1]) < 1e-9
    print(f"offset ({dx},{dy}): interface {a}-{b} contracted to ({n.x}, {n.y}); midpoint is {mid}: {'ok' if ok else 'WRONG'}")
    bad += not ok
sys.exit(1 if bad else 0)

"""Known finding C02/KF_LineFitPerp: the least-squares circle fit of an exactly STRAIGHT interface occasionally
converges to a centre on the line itself, making the coefficient pair perpendicular to the interface. Found by the
C01 calibration sweep (seed 953 of that sweep). Exit 1 = finding present."""
from _util import *
rng = random.Random(953)
s = rng.choice([0.0, 0.0, 0.5, 1.0, 1.5]); k = rng.choice([1, 2, 3, 5, 8, 16]); n = rng.choice([8, 15, 25, 40])
t = eq.make(rng, n, s)
infer.normalise_tensions(t)
sc = 10 ** rng.uniform(-3, 3)
sim = tissue.Similarity(rng.uniform(0, 6.28), sc, rng.uniform(-3, 3) * sc, rng.uniform(-3, 3) * sc, reflect=rng.random() < 0.3)
o, frame, f = build_and_matrix(t, k, sim, fit="dlite")
errs = tangent_errors(t, o, f, sim)
print("straight tissue, k =", k, "largest coefficient errors:", [round(e[0], 4) for e in errs[:4]])
sys.exit(1 if errs[0][0] > 1.0 and errs[1][0] < 1e-2 else 0)

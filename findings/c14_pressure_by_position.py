"""Finding C14/KF_PressureByPosition: get_cells attaches `pressure_dict.values()` to the cells by
position (k-th face record <- k-th body line) instead of by body id. When the body lines are not listed
in the order of the face records, cells receive another body's Lagrange multiplier.
Run: /venv/bin/python findings/c14_pressure_by_position.py   (exit 1 = finding present, 0 = absent)"""
import os
import sys
sys.path.insert(0, os.environ.get("VERIF_REPO", "/repo"))
import forsys as fs

DMP = """// two squares sharing edge 2; body 2 is listed before body 1
vertices        /*  coordinates  */    
  1                  0                  0
  2                 10                  0
  3                 10                 10
  4                  0                 10
  5                 20                  0
  6                 20                 10

edges  
  1       1    2      density 1
  2       2    3      density 1
  3       3    4      density 1
  4       4    1      density 1
  5       2    5      density 1
  6       5    6      density 1
  7       6    3      density 1

faces    /* edge loop */      
  1   1 2 3 4 /*area 100*/
  2   5 6 7 -2 /*area 100*/

bodies  /* facets */
  2       2  volume 100  /*actual: 100*/ lagrange_multiplier 0.2222  centerofmass 
  1       1  volume 100  /*actual: 100*/ lagrange_multiplier 0.1111  centerofmass 

read
"""
path = os.path.join(os.path.dirname(os.path.abspath(__file__)), "..", "run", "C14", "findings", "pressure_by_position.dmp")
os.makedirs(os.path.dirname(path), exist_ok=True)
open(path, "w").write(DMP)
se = fs.surface_evolver.SurfaceEvolver(path)
got = {cid: c.gt_pressure for cid, c in se.cells.items()}
print("reference pressures by cell id:", got, "expected {1: 0.1111, 2: 0.2222}")
sys.exit(0 if got == {1: 0.1111, 2: 0.2222} else 1)

"""shared set-up of the C10 reproducers: the 3-frame series of the 9-cell hex33 tissue used by the C10 check"""
import os
import sys
import warnings
REPO = os.environ.get("VERIF_REPO", "/repo")
sys.path.insert(0, REPO)
sys.path.insert(0, "/verif")
sys.path.insert(0, "/verif/harness")
warnings.filterwarnings("ignore")
import numpy as np  # noqa
import forsys as fs  # noqa
from harness import core  # noqa
from harness.props import c10  # noqa


def session(gseed=0):
    """a fresh ForSys object over fresh frames"""
    with core.quiet_stdout():
        s, frames = c10.new_session(c10.series_desc(gseed))
    return s, frames


def quiet(fn, *a, **k):
    with core.quiet_stdout():
        return fn(*a, **k)

#!/venv/bin/python
"""edits2 finding KF_SharedEndsEdgeKept: ForSys.remove_cell deletes the mesh edges of the vertices that belong to the
removed cell only. A mesh edge of the removed cell whose two ends are both shared with other cells, but that lies on
no other cell, is never deleted.
3x3 squares, remove_cell(0, 4) (left middle cell): its border side joins a corner of cell 1 and a corner of cell 7.
Exit 1 when a mesh edge that lies on no cell is left (and its ends count as junctions), 0 otherwise."""
import contextlib, io, sys
from _edits2_common import session, counts, on_some_cell

S = session()
with contextlib.redirect_stdout(io.StringIO()):
    fr = S.remove_cell(0, 4)
dangling = [(e.v1.id, e.v2.id) for e in fr.edges.values() if not on_some_cell(fr, e)]
print(f"remove_cell(0, 4): (v, e, c) = {counts(fr)} (expected (16, 23, 8)); mesh edges on no cell: {dangling}")
for a, b in dangling:
    print(f"  ends {a}, {b} now have {len(fr.vertices[a].ownEdges)} / {len(fr.vertices[b].ownEdges)} mesh edges (junctions of the "
          f"interface decomposition) although only 2 lie on cells; interfaces listed: {len(fr.big_edges_list)}")
sys.exit(1 if dangling else 0)

#!/venv/bin/python
"""reporting finding KF_UseAllDict: Frame.get_big_edges(use_all=True) returns the DICTIONARY Frame.big_edges
(documented ':rtype: list'; use_all=False returns a list of BigEdge objects), and its caller
assign_gt_tensions_to_big_edges(gt, use_all=True) enumerates it - i.e. its integer keys - and raises AttributeError:
ground truth cannot be assigned to the border interfaces.
Exit 1 when the list is not a list or the assignment raises / does not reach every interface, 0 otherwise."""
import sys
from _rep_common import frame

fr = frame(2, 2, 1)
bad = 0
out = fr.get_big_edges(use_all=True)
if not isinstance(out, list):
    bad += 1
    print(f"get_big_edges(use_all=True) returns {type(out).__name__} (use_all=False returns "
          f"{type(fr.get_big_edges(use_all=False)).__name__}); iterating it yields {list(out)[:4]}..., not BigEdge objects")
n = len(fr.big_edges)
try:
    fr.assign_gt_tensions_to_big_edges([10.0 + i for i in range(n)], use_all=True)
    got = [b.gt for b in fr.big_edges.values()]
    if got != [10.0 + i for i in range(n)]:
        bad += 1
        print(f"assign_gt_tensions_to_big_edges(use_all=True): interfaces carry {got}")
except Exception as exc:
    bad += 1
    print(f"assign_gt_tensions_to_big_edges(gt, use_all=True) raises {type(exc).__name__}: {exc}")
sys.exit(1 if bad else 0)

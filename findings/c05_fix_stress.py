"""Known finding C05/KF_FixStress: solve_stress(method='fix_stress') raises ValueError on first use.
Exit 1 = finding present."""
from _util import *
t = cattissue.make("hex33", sagitta=0.1, rng=random.Random(1))
o, frame, f = build_and_matrix(t, 3, tissue.Similarity(0.4, 1.0, 0, 0))
try:
    with core.quiet_stdout():
        f.solve_stress(when=0, method="fix_stress")
    print("fix_stress solved:", len(f.forces[0]), "values")
    sys.exit(0)
except Exception as exc:
    print("fix_stress raised", type(exc).__name__, str(exc)[:100])
    sys.exit(1)

#!/venv/bin/python
"""primitives finding KF_SameIdAlive: registrations are kept per ID, the destructor deregisters per ID.
Whenever two SmallEdge (or Cell) objects with the same id are alive at the same moment, the death of one removes the
registration of the other:
  (a) replacing an edge in the dictionary, `edges[0] = SmallEdge(0, a, c)` over an existing edges[0] = (a, b): the new
      object is complete before the old one is released, the old one's __del__ then strips id 0 from a;
  (b) a refused construction, `SmallEdge(0, a, a)` (AssertionError) while edge 0 = (a, b) exists: the half-built object's
      __del__ strips id 0 from a;
  (c) the same for cells: `cells[0] = Cell(0, [a, c, d])` over cells[0] = [a, b, c].
Afterwards a live edge / cell in the dictionary is not listed by one of its own vertices (C09.edge_missing /
C09.cell_missing). Uses forsys only. Exit 1 when an end of a live object does not list it, 0 otherwise."""
import contextlib, io, os, sys
sys.path.insert(0, os.environ.get("VERIF_REPO", "/repo"))
with contextlib.redirect_stdout(io.StringIO()):
    from forsys.vertex import Vertex
    from forsys.edge import SmallEdge
    from forsys.cell import Cell

bad = 0
with contextlib.redirect_stdout(io.StringIO()):
    a, b, c, d = Vertex(0, 1., 1.), Vertex(1, 2., 4.), Vertex(2, 3., 9.), Vertex(3, 4., 16.)
    edges = {}
    edges[0] = SmallEdge(0, a, b)
    edges[0] = SmallEdge(0, a, c)
if 0 not in a.ownEdges:
    bad += 1
    print(f"(a) edges[0] = SmallEdge(0, a, c) over SmallEdge(0, a, b): edge 0 joins vertices {edges[0].get_vertices_id()} "
          f"but a.ownEdges = {a.ownEdges}, c.ownEdges = {c.ownEdges}")

with contextlib.redirect_stdout(io.StringIO()):
    a, b = Vertex(0, 1., 1.), Vertex(1, 2., 4.)
    edges = {0: SmallEdge(0, a, b)}
    try:
        SmallEdge(0, a, a)
    except AssertionError:
        pass
if 0 not in a.ownEdges:
    bad += 1
    print(f"(b) refused SmallEdge(0, a, a) while edge 0 = {edges[0].get_vertices_id()} is alive: a.ownEdges = {a.ownEdges}, "
          f"b.ownEdges = {b.ownEdges}")

with contextlib.redirect_stdout(io.StringIO()):
    a, b, c, d = Vertex(0, 1., 1.), Vertex(1, 2., 4.), Vertex(2, 3., 9.), Vertex(3, 4., 16.)
    cells = {}
    cells[0] = Cell(0, [a, b, c])
    cells[0] = Cell(0, [a, c, d])
missing = [v.id for v in cells[0].vertices if 0 not in v.ownCells]
if missing:
    bad += 1
    print(f"(c) cells[0] = Cell(0, [a, c, d]) over Cell(0, [a, b, c]): cell 0 = {[v.id for v in cells[0].vertices]} is not "
          f"listed by its vertices {missing}")
print(f"{bad} of 3 scenarios leave a live object unregistered at one of its own vertices")
sys.stdout.flush()
os._exit(1 if bad else 0)      # (the broken registrations make Cell.__del__ raise at interpreter exit)

"""shared builder of the workflow reproducers (real code only, no TLC, no harness): a flower of seven hexagons whose
sides are circular arcs with k interior points, as a two-frame ForSys session (frame 1 = frame 0 slightly displaced,
same ids); cells 0..6 (0 = centre), and a deep-rebuilt copy of a session's current meshes as a FRESH session."""
import contextlib, io, math, os, random, sys
sys.path.insert(0, os.environ.get("VERIF_REPO", "/repo"))
import numpy as np
import forsys as fs
import forsys.vertex as fv, forsys.edge as fe, forsys.cell as fc

quiet = lambda: contextlib.redirect_stdout(io.StringIO())


def _hexagon(cx, cy):
    return [(cx + 2, cy), (cx + 1, cy + 2), (cx - 1, cy + 2), (cx - 2, cy), (cx - 1, cy - 2), (cx + 1, cy - 2)]


def flower_desc(k=3, sag=0.12, theta=0.3, jitter=0.0, seed=1):
    polys = [_hexagon(x, y) for x, y in [(0, 0), (3, 2), (0, 4), (-3, 2), (-3, -2), (0, -4), (3, -2)]]
    ids, pos, cyc0 = {}, {}, []
    for poly in polys:
        cyc0.append([ids.setdefault(p, len(ids)) for p in poly])
    for p, i in ids.items():
        pos[i] = p
    nxt = len(ids)
    inner = {}
    for cyc in cyc0:
        for a, b in zip(cyc, cyc[1:] + cyc[:1]):
            lo, hi = min(a, b), max(a, b)
            if (lo, hi) in inner:
                continue
            pa, pb = np.array(pos[lo], float), np.array(pos[hi], float)
            s = sag if (lo * 7 + hi * 3) % 2 == 0 else -sag
            chord = pb - pa
            L = float(np.hypot(*chord))
            nrm = np.array([-chord[1], chord[0]]) / L
            pts = []
            h = s * L                                                      # circular arc with sagitta |s| * L
            R = (L * L / 4 + h * h) / (2 * abs(h))
            centre = (pa + pb) / 2 - math.copysign(1.0, h) * nrm * (R - abs(h))
            a0 = math.atan2(pa[1] - centre[1], pa[0] - centre[0])
            d = math.atan2(pb[1] - centre[1], pb[0] - centre[0]) - a0
            d = (d + math.pi) % (2 * math.pi) - math.pi
            for j in range(1, k + 1):
                u = j / (k + 1)
                p = centre + R * np.array([math.cos(a0 + u * d), math.sin(a0 + u * d)])
                pos[nxt] = (float(p[0]), float(p[1]))
                pts.append(nxt)
                nxt += 1
            inner[(lo, hi)] = pts
    cycles = []
    for cyc in cyc0:
        out = []
        for a, b in zip(cyc, cyc[1:] + cyc[:1]):
            out.append(a)
            out += inner[(a, b)] if a < b else inner[(b, a)][::-1]
        cycles.append(out)
    c, s_ = math.cos(theta), math.sin(theta)
    rng = random.Random(seed)
    V = []
    for i in sorted(pos):
        x, y = pos[i]
        V.append([i, c * x - s_ * y + rng.uniform(-jitter, jitter), s_ * x + c * y + rng.uniform(-jitter, jitter)])
    E, seen = [], set()
    for cyc in cycles:
        for a, b in zip(cyc, cyc[1:] + cyc[:1]):
            if frozenset((a, b)) not in seen:
                seen.add(frozenset((a, b)))
                E.append([len(E), a, b])
    return {"V": V, "E": E, "C": [[n, cyc] for n, cyc in enumerate(cycles)]}


def build(desc):
    V = {i: fv.Vertex(i, float(x), float(y)) for i, x, y in desc["V"]}
    E = {i: fe.SmallEdge(i, V[a], V[b]) for i, a, b in desc["E"]}
    C = {i: fc.Cell(i, [V[v] for v in cyc]) for i, cyc in desc["C"]}
    return V, E, C


def session_from(descs):
    frames = {}
    with quiet():
        for t, d in enumerate(descs):
            V, E, C = build(d)
            frames[t] = fs.frames.Frame(t, V, E, C, time=float(t))
            del V, E, C
        return fs.ForSys(frames)


def session(k=3):
    return session_from([flower_desc(k=k), flower_desc(k=k, jitter=0.05)])


def snapshot(frame):
    return {"V": [[i, v.x, v.y] for i, v in frame.vertices.items()],
            "E": [[i, e.v1.id, e.v2.id] for i, e in frame.edges.items()],
            "C": [[i, [v.id for v in c.vertices]] for i, c in frame.cells.items()]}


def fresh_copy(S):
    """a new session on a deep-rebuilt copy of the meshes as they are now"""
    return session_from([snapshot(S.frames[t]) for t in sorted(S.frames)])


def analyse(S, t=0, **solve_kw):
    with quiet():
        S.build_force_matrix(when=t)
        S.solve_stress(when=t, **solve_kw)
        S.build_pressure_matrix(when=t)
        S.solve_pressure(when=t, method="lagrange_pressure")


def tensions(S, t=0, with_border=True):
    return [round(float(x), 6) for x in S.frames[t].get_tensions(with_border=with_border)["stress"].tolist()]


def pressures(S, t=0):
    return [None if x is None else round(float(x), 6) for x in S.frames[t].get_pressures()["pressure"].tolist()]

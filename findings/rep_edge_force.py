#!/venv/bin/python
"""reporting finding KF_EdgeForceBroken: ForSys.get_edge_force(v0, v1, t0, tmax) ('Return the edge tension between two
timepoints for an edge, given two vertices') always raises: with the default times it passes t0 = -1 to
get_point_id_by_map (KeyError: -1), with explicit times it reads Frame.earr, an attribute Frame no longer has.
Two frames of 2x2 squares (second one shifted by 0.01), both solved; v0, v1 = the first two vertices of an internal
interface. Exit 1 when either form raises, 0 otherwise."""
import sys
from _rep_common import fs, frame, quiet

f0, f1 = frame(2, 2, 2, number=0), frame(2, 2, 2, shift=0.01, number=1)
S = quiet(fs.ForSys, {0: f0, 1: f1})
for t in (0, 1):
    quiet(S.build_force_matrix, when=t)
    quiet(S.solve_stress, when=t)
be = f0.internal_big_edges[0]
v0, v1 = be.vertices[0].id, be.vertices[1].id
bad = 0
for args in ((v0, v1), (v0, v1, 0, 1), (v0, v1, 0, 2)):
    try:
        out = quiet(S.get_edge_force, *args)
        print(f"get_edge_force{args} -> {out} (interface tension in frame 0: {be.tension})")
    except Exception as exc:
        bad += 1
        print(f"get_edge_force{args} raises {type(exc).__name__}: {exc}")
sys.exit(1 if bad else 0)

"""shared helper of the `reporting` reproducers (rep_*.py): a small square-grid tissue built with forsys objects only
(no harness, no TLC)."""
import contextlib
import io
import sys
import warnings

sys.path.insert(0, "/repo")
warnings.filterwarnings("ignore")
with contextlib.redirect_stdout(io.StringIO()):
    import forsys as fs


def grid(nx=2, ny=2, k=1, shift=0.0):
    """nx x ny unit squares (cells counter-clockwise, y up), k interior points per side; ids in construction order"""
    vertices, edges, cells = {}, {}, {}
    at = {}

    def vid(x, y):
        key = (round(x * 1000), round(y * 1000))
        if key not in at:
            at[key] = len(vertices)
            vertices[at[key]] = fs.vertex.Vertex(at[key], float(x) + shift, float(y) + shift)
        return at[key]

    def side(p, q):
        pts = [p] + [(p[0] + (q[0] - p[0]) * j / (k + 1), p[1] + (q[1] - p[1]) * j / (k + 1)) for j in range(1, k + 1)]
        return [vid(*pt) for pt in pts]

    have = {}
    for j in range(ny):
        for i in range(nx):
            corners = [(i, j), (i + 1, j), (i + 1, j + 1), (i, j + 1)]
            cyc = []
            for a, b in zip(corners, corners[1:] + corners[:1]):
                cyc += side(a, b)
            for a, b in zip(cyc, cyc[1:] + cyc[:1]):
                if (min(a, b), max(a, b)) not in have:
                    have[(min(a, b), max(a, b))] = len(edges)
                    edges[len(edges)] = fs.edge.SmallEdge(len(edges), vertices[a], vertices[b])
            cells[len(cells)] = fs.cell.Cell(len(cells), [vertices[v] for v in cyc])
    return vertices, edges, cells


def frame(nx=2, ny=2, k=1, gt=False, shift=0.0, number=0):
    v, e, c = grid(nx, ny, k, shift)
    with contextlib.redirect_stdout(io.StringIO()):
        return fs.frames.Frame(number, v, e, c, time=float(number), gt=gt)


def quiet(fn, *a, **kw):
    with contextlib.redirect_stdout(io.StringIO()):
        return fn(*a, **kw)

#!/venv/bin/python
"""tsqueries finding: TimeSeries.whole_tissue_velocity(t) ("Dictionary with the velocity per big edge" of frame t) fills
and returns the accumulating attribute self.velocities, keyed by the interface index of frame t. Asked for a frame with
fewer interfaces than a frame asked for earlier, the answer still carries the earlier frame's entries under the surplus
keys (the same holds for whole_tissue_acceleration / self.accelerations).

Stand-alone: three slowly drifting frames of a 19-hexagon flower; frame 0 has 19 cells, frames 1 and 2 have 18.
Exit 1 when the answer for frame 1 has keys that are no interface index of frame 1, 0 otherwise."""
import sys

from _accel_common import FLOWER19, frame, fs, restore_stdout

frames = {0: frame(0, 0.00, centres=FLOWER19), 1: frame(1, 0.03, centres=FLOWER19[:-1]), 2: frame(2, 0.08, centres=FLOWER19[:-1])}
s = fs.ForSys(frames, cm=False)
assert all(m is not None for m in s.mesh.mapping.values())
fresh = dict(fs.ForSys({0: frame(0, 0.00, centres=FLOWER19), 1: frame(1, 0.03, centres=FLOWER19[:-1]),
                        2: frame(2, 0.08, centres=FLOWER19[:-1])}, cm=False).mesh.whole_tissue_velocity(1))
n0 = len(s.mesh.whole_tissue_velocity(0))
res = dict(s.mesh.whole_tissue_velocity(1))
n1 = len(frames[1].big_edges_list)
extra = sorted(k for k in res if not 0 <= k < n1)
restore_stdout()
if extra or len(res) != len(fresh):
    print(f"DEFECT PRESENT: frame 1 has {n1} interfaces; whole_tissue_velocity(1) returns {len(fresh)} entries on a fresh object but "
          f"{len(res)} after whole_tissue_velocity(0) ({n0} interfaces): keys {extra[:4]}.. are left over from frame 0")
    sys.exit(1)
print("ok: whole_tissue_velocity(t) returns exactly the interfaces of frame t")
sys.exit(0)

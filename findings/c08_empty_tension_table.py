"""Reproducer (fixed by a `fix:` commit): a frame without any interface (e.g. a single cell, or
cells that share no junction) could not tabulate its tensions: Frame.get_tensions() raised
AttributeError: 'DataFrame' object has no attribute 'id' instead of returning an empty table.
Run: /venv/bin/python findings/c08_empty_tension_table.py   (exit 0 = defect absent)"""
import sys
sys.path.insert(0, "/repo")
import forsys as fs
import forsys.vertex as fv, forsys.edge as fe, forsys.cell as fc
pts = [(0, 0), (2, 0), (2, 2), (0, 2)]
V = {i: fv.Vertex(i, *p) for i, p in enumerate(pts)}
E = {i: fe.SmallEdge(i, V[i], V[(i + 1) % 4]) for i in range(4)}
C = {0: fc.Cell(0, [V[i] for i in range(4)])}
fr = fs.frames.Frame(0, V, E, C)
try:
    t = fr.get_tensions()
    g = fr.get_gt_tensions()
    assert len(t) == 0 and len(g) == 0 and list(t.columns) == ["id", "gt", "stress"]
    print("ok: empty tension table")
except AttributeError as exc:
    print("DEFECT:", exc)
    sys.exit(1)

#!/venv/bin/python
"""tsqueries finding: TimeSeries.times_to_use(last_frame) documents `last_frame: bool` ("Include up until the last
frame, defaults to False") but uses the argument as a NUMBER of frames: range(0, last_frame - 1). With the documented value
True (and with the count 1) the range is empty, the loop variable `t` is never bound and `final_times.append(t + 1)`
raises UnboundLocalError.

Stand-alone: three slowly drifting frames of the 7-hexagon flower. Exit 1 when times_to_use(True) raises, 0 otherwise."""
import sys

from _accel_common import frame, fs, restore_stdout

frames = {0: frame(0, 0.00), 1: frame(1, 0.04), 2: frame(2, 0.09)}
s = fs.ForSys(frames, cm=False)
default = s.mesh.times_to_use()
problems = []
for arg in (True, 1):
    try:
        r = s.mesh.times_to_use(arg)
        if not (isinstance(r, list) and r and r[0] == -1):
            problems.append(f"times_to_use({arg!r}) = {r!r}")
    except Exception as exc:
        problems.append(f"times_to_use({arg!r}): {type(exc).__name__}: {exc}")
restore_stdout()
if problems:
    print(f"DEFECT PRESENT (times_to_use() = {default}, times_to_use(3) = {s.mesh.times_to_use(3)}): " + "; ".join(problems))
    sys.exit(1)
print("ok: times_to_use accepts the documented bool")
sys.exit(0)

"""Known finding C08/KF_BorderTwoPoint (not repaired: the statement's vertex rule and its
"internal interfaces separate exactly two cells" clause conflict on this input).

Square grid 3x3 without cell 8 (top middle): the top mesh edge of the centre cell is a TWO-point
interface between junctions that touch 3 cells each, so by the vertex rule it is internal, but it
borders one cell only. forsys classifies it internal with own_cells of length 1; the pressure step
then raises ValueError('big edge has own_cells=1, expecting 2').
Run: /venv/bin/python findings/c08_border_two_point.py  (exit 1 = finding present)"""
import sys
sys.path.insert(0, "/repo")
sys.path.insert(0, "/verif")
import forsys as fs
from harness import build
pts = {(i, j): 4 * j + i for i in range(4) for j in range(4)}
V = [[pts[(i, j)], 2.0 * i, 2.0 * j] for (i, j) in pts]
cells = []
for j in range(3):
    for i in range(3):
        if (i, j) == (1, 2):
            continue
        cells.append([3 * j + i, [pts[(i, j)], pts[(i + 1, j)], pts[(i + 1, j + 1)], pts[(i, j + 1)]]])
desc = {"V": V, "E": build.edges_from_cells(cells), "C": cells}
v, e, c = build.build_mesh(desc)
fr = fs.frames.Frame(0, v, e, c)
bad = [(b.get_vertices_ids(), b.own_cells) for b in fr.internal_big_edges if len(b.own_cells) != 2]
print("internal interfaces that do not separate two cells:", bad)
sys.exit(1 if bad else 0)

"""Known finding C02/C16 KF_LoopInterface: build_force_matrix raises AssertionError ("More than one or no vertex with the same
ID") when a junction that ends an internal interface also carries a LOOP interface, i.e. a cell attached to the tissue
through that single junction only (its whole outline is one interface from the junction back to itself):
BigEdge.get_vertex_object_by_id finds the junction twice in the loop's vertex list when the angle-limit pass asks
every interface at the junction for its direction (whatever the limit). Exit 1 = finding present."""
import sys
sys.path.insert(0, "/repo")
sys.path.insert(0, "/verif")
from harness import core, infer
core.import_forsys()
spec = {'tissue': {'kind': 'catalogue', 'base': 'irregular', 'cells': [[2, 5, 3], [3, 7, 9, 8], [7, 6, 10, 9], [4, 8, 11, 12], [8, 9, 13], [9, 14, 13], [9, 10, 14], [11, 13, 15, 16], [14, 10, 18, 17], [1, 4, 12]], 'sagitta': None, 'tseed': 687210}, 'k': 0, 'seed': 163502631, 'want': ['C02'], 'sim': {'theta': -0.002, 'scale': 17.802412239917963, 'offset_sizes': 0, 'extent': 10.0, 'reflect': True}, 'build': {'limit': 'inf', 'fit': 'dlite', 'ignore_four': False, 'no_metadata': False}, 'ids': {'offset': 3, 'stride': 1}, 'nosolve': True}
with core.quiet_stdout():
    _, evs = infer.run_spec((1, spec))
fr = [e for e in evs if e["ev"] == "Frame"][0]["f"]
loops = [p for p in fr["ifaces"] if p[0] == p[-1]]
raised = [e["raised"] for e in evs if e["ev"] == "BuildForce"][0]
print("loop interfaces:", len(loops), " build_force_matrix raised:", raised.split(":")[0] or "nothing")
sys.exit(1 if "AssertionError" in raised else 0)

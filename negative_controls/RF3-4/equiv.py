#!/usr/bin/env python
"""Differential test for RF3-4 (tessellation.get_vertex_number / get_enum: single scan of the dictionary instead of in + list(...).index).

usage: equiv4.py <tree_a> <tree_b>     exit status 0 iff both trees behave the same
"""
import sys
import os
import json
import math
import subprocess
import tempfile

REL_TOL = 1e-12


# --------------------------------------------------------------------------
# driver side: run the worker once per tree, compare the two JSON documents
# --------------------------------------------------------------------------
def _is_tagged(node, tag):
    return isinstance(node, dict) and node.get("__t") == tag


def compare(a, b, path, problems):
    if len(problems) > 20:
        return
    if _is_tagged(a, "f") and _is_tagged(b, "f"):
        va, vb = a["v"], b["v"]
        if isinstance(va, str) or isinstance(vb, str):
            if va != vb:
                problems.append(f"{path}: {va} != {vb}")
            return
        if va == vb:
            return
        if abs(va - vb) <= REL_TOL * max(abs(va), abs(vb)):
            return
        problems.append(f"{path}: {va!r} != {vb!r}")
        return
    if type(a) is not type(b):
        problems.append(f"{path}: type {type(a).__name__} != {type(b).__name__}: {a!r} vs {b!r}")
        return
    if isinstance(a, dict):
        if list(a.keys()) != list(b.keys()):
            problems.append(f"{path}: keys {list(a.keys())} != {list(b.keys())}")
            return
        for key in a:
            compare(a[key], b[key], f"{path}/{key}", problems)
    elif isinstance(a, list):
        if len(a) != len(b):
            problems.append(f"{path}: length {len(a)} != {len(b)}")
            return
        for index, (ea, eb) in enumerate(zip(a, b)):
            compare(ea, eb, f"{path}[{index}]", problems)
    else:
        if a != b:
            problems.append(f"{path}: {a!r} != {b!r}")


def run_worker(tree):
    tree = os.path.abspath(tree)
    handle, out_path = tempfile.mkstemp(suffix=".json")
    os.close(handle)
    env = dict(os.environ)
    env["PYTHONPATH"] = tree
    env["MPLBACKEND"] = "Agg"
    env["PYTHONHASHSEED"] = "0"
    try:
        proc = subprocess.run([sys.executable, os.path.abspath(__file__), "--worker", tree, out_path],
                              env=env, cwd=tree, stdout=subprocess.PIPE, stderr=subprocess.PIPE, text=True)
        if proc.returncode != 0:
            sys.stderr.write(proc.stdout[-3000:] + "\n" + proc.stderr[-6000:] + "\n")
            raise SystemExit(f"worker failed on {tree}")
        with open(out_path) as handle:
            document = json.load(handle)
        document["stdout"] = proc.stdout.splitlines()
        return document
    finally:
        if os.path.exists(out_path):
            os.remove(out_path)


def driver(tree_a, tree_b):
    doc_a = run_worker(tree_a)
    doc_b = run_worker(tree_b)
    if not doc_a["forsys_file"].startswith(os.path.abspath(tree_a)) or \
            not doc_b["forsys_file"].startswith(os.path.abspath(tree_b)):
        print("forsys was not imported from the requested trees", doc_a["forsys_file"], doc_b["forsys_file"])
        return 2
    del doc_a["forsys_file"], doc_b["forsys_file"]
    problems = []
    compare(doc_a, doc_b, "", problems)
    n_scenarios = len(doc_a["results"])
    if problems:
        print(f"DIFFERENT ({n_scenarios} scenarios)")
        for problem in problems:
            print("  ", problem)
        return 1
    print(f"EQUIVALENT ({n_scenarios} scenarios compared)")
    return 0


# --------------------------------------------------------------------------
# worker side helpers (run with forsys imported from one tree)
# --------------------------------------------------------------------------
class Done:
    """An already canonical value (so that results of attempt() can be nested in other results)."""
    def __init__(self, value):
        self.value = value


def canon(obj):
    """Turn results into JSON keeping order, key types and int/float kinds."""
    import numpy as np
    if isinstance(obj, Done):
        return obj.value
    if obj is None or isinstance(obj, (bool, str)):
        return obj
    if isinstance(obj, np.bool_):
        return bool(obj)
    if isinstance(obj, (int, np.integer)):
        return {"__t": "i", "v": int(obj)}
    if isinstance(obj, (float, np.floating)):
        value = float(obj)
        if math.isnan(value):
            return {"__t": "f", "v": "nan"}
        if math.isinf(value):
            return {"__t": "f", "v": "inf" if value > 0 else "-inf"}
        return {"__t": "f", "v": value}
    if isinstance(obj, np.ndarray):
        return {"__t": "nd", "shape": list(obj.shape), "kind": obj.dtype.kind,
                "data": canon(obj.tolist())}
    if isinstance(obj, dict):
        return {"__t": "d", "items": [[canon(k), canon(v)] for k, v in obj.items()]}
    if isinstance(obj, tuple):
        return {"__t": "tu", "items": [canon(v) for v in obj]}
    if isinstance(obj, list):
        return [canon(v) for v in obj]
    if isinstance(obj, (set, frozenset)):
        return {"__t": "set", "items": sorted((canon(v) for v in obj), key=json.dumps)}
    if isinstance(obj, BaseException):
        return {"__t": "exc", "type": type(obj).__name__, "msg": str(obj)}
    try:
        import pandas as pd
        if isinstance(obj, pd.DataFrame):
            return {"__t": "df", "columns": [str(c) for c in obj.columns], "index": canon(list(obj.index)),
                    "data": {str(c): canon(list(obj[c])) for c in obj.columns}}
    except ImportError:
        pass
    raise TypeError(f"cannot canonicalise {type(obj)}")


def attempt(function):
    """Result of the call, or the exception it raised."""
    try:
        return Done(canon(function()))
    except Exception as error:  # noqa: the exception is part of the observable behaviour
        return Done(canon(error))


HEX_AXIAL_7 = [(0, 0), (1, 0), (0, 1), (-1, 1), (-1, 0), (0, -1), (1, -1)]
HEX_AXIAL_10 = HEX_AXIAL_7 + [(2, -1), (2, 0), (1, 1)]


def hex_tissue(fs, axial=HEX_AXIAL_7, scale=1.0, offset=(0.0, 0.0), inner=2, bulge=0.06,
               vid_of=lambda n: n, eid_of=lambda n: n, cid_of=lambda n: n,
               clockwise=(), deform=lambda x, y: (x, y), time=0, frame_id=0, make_frame=True):
    """Small synthetic tissue of hexagonal cells.

    Every hexagon side carries `inner` extra two-fold vertices on a slightly bulged arc,
    ids are produced by the *_of functions (gaps, zero, any order), cells listed in `clockwise`
    (by position in `axial`) get their vertices stored clockwise.
    """
    points = []          # coordinates by internal number
    corner_number = {}

    def corner(x, y):
        key = (round(x, 6), round(y, 6))
        if key not in corner_number:
            corner_number[key] = len(points)
            points.append((x, y))
        return corner_number[key]

    sides = {}
    cells_numbers = []
    for q, r in axial:
        cx = math.sqrt(3) * (q + r / 2)
        cy = 1.5 * r
        corners = [corner(cx + math.cos(math.radians(30 + 60 * k)), cy + math.sin(math.radians(30 + 60 * k)))
                   for k in range(6)]
        ring = []
        for k in range(6):
            a, b = corners[k], corners[(k + 1) % 6]
            key = (min(a, b), max(a, b))
            if key not in sides:
                (xa, ya), (xb, yb) = points[key[0]], points[key[1]]
                numbers = []
                for step in range(1, inner + 1):
                    t = step / (inner + 1)
                    shift = bulge * 4 * t * (1 - t) * (1 if (key[0] + key[1]) % 2 else -1)
                    nx, ny = -(yb - ya), (xb - xa)
                    numbers.append(len(points))
                    points.append((xa + t * (xb - xa) + shift * nx, ya + t * (yb - ya) + shift * ny))
                sides[key] = numbers
            middle = sides[key] if a == key[0] else sides[key][::-1]
            ring.extend([a] + middle)
        cells_numbers.append(ring)

    vertices = {}
    for number, (x, y) in enumerate(points):
        x, y = deform(x, y)
        vertices[vid_of(number)] = fs.vertex.Vertex(vid_of(number), x * scale + offset[0], y * scale + offset[1])
    edges = {}
    seen = {}
    for ring in cells_numbers:
        for a, b in zip(ring, ring[1:] + ring[:1]):
            key = (min(a, b), max(a, b))
            if key not in seen:
                seen[key] = eid_of(len(seen))
                edges[seen[key]] = fs.edge.SmallEdge(seen[key], vertices[vid_of(a)], vertices[vid_of(b)])
    cells = {}
    for position, ring in enumerate(cells_numbers):
        ordered = ring[::-1] if position in clockwise else ring
        cells[cid_of(position)] = fs.cell.Cell(cid_of(position), [vertices[vid_of(n)] for n in ordered])
    if not make_frame:
        return vertices, edges, cells
    return fs.frames.Frame(frame_id, vertices, edges, cells, time=time)


def surface_evolver_frames(fs, folder, names, gt=True):
    frames = {}
    for index, name in enumerate(names):
        evolver = fs.surface_evolver.SurfaceEvolver(os.path.join("tests", "data", folder, name))
        frames[index] = fs.frames.Frame(index, evolver.vertices, evolver.edges, evolver.cells, time=index, gt=gt)
    return frames


def vertex_table(frame):
    return [[vid, v.x, v.y] for vid, v in frame.vertices.items()]


def worker_main(scenarios):
    tree, out_path = sys.argv[2], sys.argv[3]
    sys.path.insert(0, tree)
    import warnings
    warnings.simplefilter("ignore")
    import forsys as fs
    results = {}
    for name, scenario in scenarios:
        results[name] = attempt(lambda: scenario(fs)).value
    with open(out_path, "w") as handle:
        json.dump({"forsys_file": os.path.abspath(fs.__file__), "results": results}, handle)


def main(scenarios):
    if len(sys.argv) >= 4 and sys.argv[1] == "--worker":
        worker_main(scenarios)
        return 0
    if len(sys.argv) == 3 and sys.argv[1] == "--show":
        # debugging aid: one line per scenario for a single tree
        document = run_worker(sys.argv[2])
        for name, result in document["results"].items():
            text = json.dumps(result)
            kind = "EXC " + text[:150] if _is_tagged(result, "exc") else f"ok   {len(text)} chars"
            print(f"{name:45s} {kind}")
        print("stdout lines:", len(document["stdout"]))
        return 0
    if len(sys.argv) != 3:
        print(f"usage: {os.path.basename(sys.argv[0])} <tree_a> <tree_b>")
        return 2
    return driver(sys.argv[1], sys.argv[2])

# ==========================================================================
# scenarios for RF3-4: forsys.tessellation.get_vertex_number, get_enum,
# create_lattice_elements (+ create_lattice on its output)
# ==========================================================================
import random


def sc_vertex_number_direct(fs):
    tess = fs.tessellation
    out = []
    # empty, growing, ids not increasing, duplicated positions, list vs tuple positions
    vertices = {}
    for position in [(0.0, 1.0), (2.5, -1.0), (0.0, 1.0), (2.5, -1.0), (3, 4), (3.0, 4.0), [3.0, 4.0], (-0.0, 1.0)]:
        out.append([tess.get_vertex_number(position, vertices), dict(vertices)])
    vertices = {7: (1.0, 1.0), 2: (5.0, 5.0), 9: (1.0, 1.0), 0: (2.0, 2.0), -4: (5.0, 5.0)}
    for position in [(5.0, 5.0), (1.0, 1.0), (2.0, 2.0), (9.0, 9.0), (9.0, 9.0), (1, 1), (8.0, 0.0)]:
        out.append([tess.get_vertex_number(position, vertices), dict(vertices)])
    # the very same object stored: found by identity
    nan_position = (float("nan"), 1.0)
    vertices = {3: (0.0, 0.0), 5: nan_position}
    out.append([tess.get_vertex_number(nan_position, vertices), len(vertices)])
    out.append([tess.get_vertex_number((float("nan"), 1.0), vertices), len(vertices)])
    # keys that cannot be ordered / added only matter when a new id is needed
    vertices = {"a": (0.0, 0.0), "b": (1.0, 1.0)}
    out.append(attempt(lambda: tess.get_vertex_number((1.0, 1.0), vertices)))
    out.append(attempt(lambda: tess.get_vertex_number((2.0, 1.0), vertices)))
    out.append(dict(vertices))
    return out


def sc_enum_direct(fs):
    tess = fs.tessellation
    out = []
    edges = {}
    for edge in [[1, 2], [2, 1], [2, 3], [1, 2], [3, 2], [3, 1], [1, 3], (1, 2), (2, 1), [4, 4], [4, 4]]:
        out.append([tess.get_enum(edge, edges), {key: list(value) for key, value in edges.items()}])
    # both orientations stored, in both orders; duplicated entries; ids not increasing; id zero
    for edges in ({5: [1, 2], 3: [2, 1], 8: [1, 2]},
                  {3: [2, 1], 5: [1, 2], 1: [2, 1]},
                  {0: [7, 9], 4: [9, 7]},
                  {4: [9, 7], 0: [7, 9]},
                  {0: [9, 7], -2: [5, 6]},
                  {10: [1, 2], 2: [3, 4], 6: [4, 3]}):
        for edge in ([1, 2], [2, 1], [7, 9], [9, 7], [3, 4], [4, 3], [6, 5], [11, 12], [12, 11]):
            out.append([tess.get_enum(edge, edges), {key: list(value) for key, value in edges.items()}])
    # not sliceable query: only matters when it is not stored as is
    edges = {1: [1, 2]}
    out.append(attempt(lambda: tess.get_enum({1, 2}, edges)))
    out.append(attempt(lambda: tess.get_enum([1], edges)))
    out.append(attempt(lambda: tess.get_enum([3, 4, 5], edges)))
    out.append({key: list(value) for key, value in edges.items()})
    return out


def point_sets():
    rng = random.Random(2024)
    yield "random_30", [(rng.uniform(0, 100), rng.uniform(0, 100)) for _ in range(30)], {}
    yield "random_60_negative", [(rng.uniform(-300, -200), rng.uniform(-50, 50)) for _ in range(60)], {"max_distance": 40}
    yield "jittered_grid", [(10 * i + rng.uniform(-2, 2), 10 * j + rng.uniform(-2, 2)) for i in range(7) for j in range(6)], {}
    yield "regular_hexagonal", [(10 * i + 5 * (j % 2), 8.660254 * j) for i in range(6) for j in range(6)], {}
    yield "square_grid_degenerate", [(4.0 * i, 4.0 * j) for i in range(5) for j in range(5)], {"max_distance": 20}
    yield "tiny", [(1e-3 * rng.random(), 1e-3 * rng.random()) for _ in range(25)], {"max_distance": 1e-3}
    yield "few", [(0.0, 0.0), (1.0, 0.1), (0.2, 1.0), (1.1, 1.2), (0.5, 0.5)], {"max_distance": 1000}
    yield "as_lists", [[rng.uniform(0, 30), rng.uniform(0, 30)] for _ in range(20)], {"max_distance": 25}


def sc_lattice_elements(fs):
    tess = fs.tessellation
    out = {}
    for name, centers, kwargs in point_sets():
        def build():
            vertices, edges, cells = tess.create_lattice_elements(centers, **kwargs)
            result = {"vertices": vertices, "edges": edges, "cells": cells}
            try:
                v_objects, e_objects, c_objects = tess.create_lattice(vertices, edges, cells)
                result["lattice"] = {
                    "vertices": [[vid, v.x, v.y, list(v.ownEdges), list(v.ownCells)] for vid, v in v_objects.items()],
                    "edges": [[eid, e.get_vertices_id()] for eid, e in e_objects.items()],
                    "cells": [[cid, [v.id for v in c.vertices], c.get_area()] for cid, c in c_objects.items()]}
            except Exception as error:
                result["lattice"] = error
            return result
        out[name] = attempt(build)
        # the same centres once more: no state is kept between calls
        out[name + "_again"] = attempt(lambda: tess.create_lattice_elements(centers, **kwargs))
    return out


def sc_voronoi_helpers(fs):
    tess = fs.tessellation
    rng = random.Random(7)
    centers = [(rng.uniform(0, 50), rng.uniform(0, 50)) for _ in range(15)]
    extended = centers + tess.add_voronoi_centers(centers)
    return {"added": tess.add_voronoi_centers(centers),
            "elements": attempt(lambda: tess.create_lattice_elements(extended, max_distance=30))}


SCENARIOS = [
    ("get_vertex_number_direct", sc_vertex_number_direct),
    ("get_enum_direct", sc_enum_direct),
    ("create_lattice_elements", sc_lattice_elements),
    ("with_added_centres", sc_voronoi_helpers),
]

if __name__ == "__main__":
    sys.exit(main(SCENARIOS))

#!/usr/bin/env python
"""Differential test for refactoring RF1-1.

usage:  python equiv1.py <tree_a> <tree_b>

Each tree is imported in its own subprocess (PYTHONPATH=<tree>, cwd=<tree>), the
same battery of inputs is pushed through the public API, every observable
(return values, attribute values, order of lists / dict keys, exceptions) is
dumped as JSON and the two dumps are compared: exact equality for structure,
order, ints, strings and bools; 1e-12 relative for floats.
Exit status 0 iff the two trees agree.

FOCUS: BigEdge.get_vector_from_vertex / get_versor_from_vertex / get_versor_sign / get_straight_edge_versor_from_vid (forsys/edge.py) and everything downstream (force matrix, tensions, pressures).
"""
import json
import math
import os
import subprocess
import sys
import tempfile

REL_TOL = 1e-12
# a float that is tiny compared with its siblings in the same list / array / dict
# (cancellation residue around zero) is compared relative to the largest sibling.


# --------------------------------------------------------------------------
# worker: runs inside one tree
# --------------------------------------------------------------------------
def worker(tree, out_path):
    import warnings
    warnings.simplefilter("ignore")
    import numpy as np
    import forsys as fs

    assert os.path.realpath(fs.__file__).startswith(os.path.realpath(tree) + os.sep), \
        (fs.__file__, tree)

    def enc(obj):
        """JSON-encodable, type-tagged image of an observable."""
        if isinstance(obj, (bool, np.bool_)):
            return {"t": "bool", "v": bool(obj)}
        if isinstance(obj, (int, np.integer)):
            return {"t": "int", "v": int(obj)}
        if isinstance(obj, (float, np.floating)):
            v = float(obj)
            if math.isnan(v):
                return {"t": "float", "v": "nan"}
            if math.isinf(v):
                return {"t": "float", "v": "inf" if v > 0 else "-inf"}
            return {"t": "float", "v": v}
        if obj is None or isinstance(obj, str):
            return {"t": "atom", "v": obj}
        if isinstance(obj, np.ndarray):
            return {"t": "ndarray", "shape": list(obj.shape), "kind": obj.dtype.kind,
                    "v": [enc(x) for x in obj.ravel().tolist()]}
        if isinstance(obj, (list, tuple)):
            return {"t": type(obj).__name__, "v": [enc(x) for x in obj]}
        if isinstance(obj, dict):
            return {"t": "dict", "v": [[enc(k), enc(v)] for k, v in obj.items()]}
        if isinstance(obj, (set, frozenset)):
            return {"t": "set", "v": [enc(x) for x in sorted(obj, key=repr)]}
        return {"t": "repr", "v": repr(obj)}

    results = {}

    def record(name, fn):
        try:
            results[name] = enc(fn())
        except BaseException as exc:  # same exception type + message expected
            results[name] = {"t": "raise", "v": type(exc).__name__ + ": " + str(exc)[:200]}

    # ---------------------------------------------------------------- inputs
    def synthetic(rows, cols, n_mid=2, id_map=lambda i: i, flip=(), scale=1.0,
                  shift=(0.0, 0.0), bulge=0.12, frame_id=0, time=0.0, wobble=0.0):
        """Honeycomb patch rows x cols; every lattice edge carries n_mid interior
        points pushed sideways (curved interfaces).  id_map renames all ids,
        cells whose running index is in `flip` are stored clockwise."""
        corners = {}
        lattice_cells = []
        for r in range(rows):
            for c in range(cols):
                cx = math.sqrt(3) * (c + 0.5 * (r % 2))
                cy = 1.5 * r
                ring = []
                for k in range(6):
                    ang = math.pi / 6 + k * math.pi / 3
                    px, py = cx + math.cos(ang), cy + math.sin(ang)
                    key = (round(px, 6), round(py, 6))
                    corners.setdefault(key, (px, py))
                    ring.append(key)
                lattice_cells.append(ring)
        key_ids = {key: n for n, key in enumerate(corners)}
        coords = {n: corners[key] for key, n in key_ids.items()}
        next_id = len(coords)
        mids = {}
        for ring in lattice_cells:
            for k in range(6):
                a, b = key_ids[ring[k]], key_ids[ring[(k + 1) % 6]]
                und = (min(a, b), max(a, b))
                if und in mids:
                    continue
                (xa, ya), (xb, yb) = coords[und[0]], coords[und[1]]
                nx, ny = -(yb - ya), (xb - xa)
                sgn = 1.0 if (und[0] + und[1]) % 2 else -1.0
                amp = bulge * (1 + ((und[0] * 7 + und[1] * 3) % 5) / 5.0) * sgn
                chain = []
                for m in range(1, n_mid + 1):
                    t = m / (n_mid + 1)
                    off = amp * math.sin(math.pi * t)
                    coords[next_id] = (xa + t * (xb - xa) + off * nx, ya + t * (yb - ya) + off * ny)
                    chain.append(next_id)
                    next_id += 1
                mids[und] = chain
        vertices, edges, cells = {}, {}, {}
        for n, (x, y) in coords.items():
            dx = wobble * math.sin(1.3 * n + 0.7 * frame_id)
            dy = wobble * math.cos(0.9 * n + 1.1 * frame_id)
            vertices[id_map(n)] = fs.vertex.Vertex(id_map(n), (x + dx) * scale + shift[0],
                                                   (y + dy) * scale + shift[1])
        eid = 0
        for und, chain in mids.items():
            path = [und[0]] + chain + [und[1]]
            for a, b in zip(path, path[1:]):
                edges[id_map(eid)] = fs.edge.SmallEdge(id_map(eid), vertices[id_map(a)], vertices[id_map(b)])
                eid += 1
        for cnum, ring in enumerate(lattice_cells):
            ids = []
            for k in range(6):
                a, b = key_ids[ring[k]], key_ids[ring[(k + 1) % 6]]
                und = (min(a, b), max(a, b))
                chain = mids[und] if a == und[0] else mids[und][::-1]
                ids.extend([a] + chain)
            if cnum in flip:
                ids = ids[::-1]
            cells[id_map(cnum)] = fs.cell.Cell(id_map(cnum), [vertices[id_map(i)] for i in ids])
        return fs.frames.Frame(frame_id, vertices, edges, cells, time=time)

    def furrow_frames(n):
        frames = {}
        for ii in range(n):
            se = fs.surface_evolver.SurfaceEvolver(
                os.path.join("tests", "data", "furrow_gauss_velocity", "stage%d.dmp" % ii))
            frames[ii] = fs.frames.Frame(ii, se.vertices, se.edges, se.cells, time=ii, gt=True)
        return frames

    def lattice_frames(steps):
        frames = {}
        for n, step in enumerate(steps):
            se = fs.surface_evolver.SurfaceEvolver(
                os.path.join("tests", "data", "12_12", "step_%d.dmp" % step))
            frames[n] = fs.frames.Frame(n, se.vertices, se.edges, se.cells, time=n, gt=True)
        return frames

    def tif_frames():
        sk = fs.skeleton.Skeleton(os.path.join("tests", "data", "test_nonzero.tif"))
        vertices, edges, cells = sk.create_lattice()
        vertices, edges, cells, _ = fs.virtual_edges.generate_mesh(vertices, edges, cells, ne=6)
        return {0: fs.frames.Frame(0, vertices, edges, cells, time=0)}

    # ------------------------------------------------------------ observers
    def frame_geometry(tag, frame):
        record(tag + "/big_edges_list", lambda: frame.big_edges_list)
        record(tag + "/internal_big_edges_vertices", lambda: frame.internal_big_edges_vertices)
        record(tag + "/external_edges_id", lambda: frame.external_edges_id)
        record(tag + "/border_vertices", lambda: [b.big_edge_id for b in frame.border_vertices])
        for beid, be in frame.big_edges.items():
            t = "%s/be%s" % (tag, beid)
            record(t + "/attrs", lambda: [be.big_edge_id, be.get_vertices_ids(), be.edges, be.own_cells,
                                           be.external, type(be.external).__name__, be.xs, be.ys,
                                           be.tension, be.gt])
            record(t + "/curvature", lambda: be.calculate_curvature())
            record(t + "/total_curvature", lambda: be.calculate_total_curvature())
            record(t + "/total_curvature_raw", lambda: be.calculate_total_curvature(normalized=False))
            ends = [be.vertices[0].id, be.vertices[-1].id]
            if len(be.vertices) > 2:
                ends.append(be.vertices[1].id)  # not a junction of this interface: error path
            ends.append(-12345)  # unknown id: error path
            for vid in ends:
                record("%s/straight/%s" % (t, vid), lambda: be.get_straight_edge_versor_from_vid(vid))
                record("%s/sign/%s" % (t, vid), lambda: be.get_versor_sign(vid))
                for fit in ("dlite", "taubinSVD", "mean"):
                    record("%s/vector/%s/%s" % (t, vid, fit),
                           lambda: be.get_vector_from_vertex(vid, fit_method=fit))
                    record("%s/versor/%s/%s" % (t, vid, fit),
                           lambda: be.get_versor_from_vertex(vid, fit_method=fit))
                if be.own_cells:
                    cell = frame.cells[be.own_cells[0]]
                    record("%s/versor_cell/%s" % (t, vid),
                           lambda: be.get_versor_from_vertex(vid, method="cell", cell=cell))
                record("%s/versor_badmethod/%s" % (t, vid),
                       lambda: be.get_versor_from_vertex(vid, method="nope"))
            record(t + "/vertex_object", lambda: be.get_vertex_object_by_id(be.vertices[0].id).id)

    def frame_state(tag, frame):
        record(tag + "/edge_tensions", lambda: {eid: [e.tension, type(e.tension).__name__]
                                                for eid, e in frame.edges.items()})
        record(tag + "/big_edge_tensions", lambda: {beid: be.tension for beid, be in frame.big_edges.items()})
        record(tag + "/cell_pressures", lambda: {cid: c.pressure for cid, c in frame.cells.items()})
        record(tag + "/forces", lambda: getattr(frame, "forces", "unset"))

    def force_matrix_state(tag, fm):
        record(tag + "/matrix", lambda: fm.matrix)
        record(tag + "/map_vid_to_row", lambda: fm.map_vid_to_row)
        record(tag + "/tj_vertices", lambda: fm.tj_vertices)
        record(tag + "/big_edges_to_use", lambda: fm.big_edges_to_use)
        record(tag + "/externals_to_use", lambda: fm.externals_to_use)
        record(tag + "/deletes", lambda: fm.deletes)
        record(tag + "/rhs", lambda: fm.rhs)
        record(tag + "/velocity_matrix", lambda: fm.velocity_matrix)
        record(tag + "/force_dictionary", lambda: getattr(fm, "force_dictionary", "unset"))

    def rows_of(tag, fm, frame):
        for vid in list(fm.tj_vertices)[:12]:
            record("%s/row/%s" % (tag, vid), lambda: fm.get_row(vid))
            record("%s/vertex_equation/%s" % (tag, vid), lambda: fm.get_vertex_equation(vid))
            record("%s/external_term/%s" % (tag, vid), lambda: fm.get_external_term(vid))
        two_fold = [vid for vid, v in frame.vertices.items() if len(v.ownEdges) == 2][:2]
        for vid in two_fold:
            record("%s/vertex_equation_nonjunction/%s" % (tag, vid), lambda: fm.get_vertex_equation(vid))
        record(tag + "/vertex_equation_unknown", lambda: fm.get_vertex_equation(-12345))

    def pressure_matrix_state(tag, pm):
        record(tag + "/lhs", lambda: pm.lhs_matrix)
        record(tag + "/rhs", lambda: pm.rhs_matrix)
        record(tag + "/mapping_order", lambda: pm.mapping_order)
        record(tag + "/removed_columns", lambda: [pm.removed_columns,
                                                  [type(c).__name__ for c in pm.removed_columns]])
        record(tag + "/solution", lambda: getattr(pm, "solution", "unset"))
        record(tag + "/big_edges_to_use", lambda: [b.big_edge_id for b in pm.big_edges_to_use])
        for be in pm.big_edges_to_use[:6]:
            record("%s/get_row/%s" % (tag, be.big_edge_id), lambda: pm.get_row(be))

    def run_inference(tag, make_frames, whens, stress_kwargs, pressure_kwargs, build_kwargs=None,
                      geometry=False, cm=False):
        """Fresh tissue, then build / solve stress / build / solve pressure for every
        frame in `whens` (in that order), recording all state after every step."""
        try:
            frames = make_frames()
            solver = fs.ForSys(frames, cm=cm)
        except BaseException as exc:
            results[tag + "/setup"] = {"t": "raise", "v": type(exc).__name__ + ": " + str(exc)[:200]}
            return None
        if geometry:
            for when in whens:
                frame_geometry("%s/f%s/geom" % (tag, when), solver.frames[when])
        for when in whens:
            t = "%s/f%s" % (tag, when)
            record(t + "/build_force", lambda: solver.build_force_matrix(when=when, **(build_kwargs or {})))
            if when in solver.force_matrices:
                force_matrix_state(t + "/fm_built", solver.force_matrices[when])
                rows_of(t + "/fm_built", solver.force_matrices[when], solver.frames[when])
            record(t + "/solve_stress", lambda: solver.solve_stress(when=when, **stress_kwargs))
            record(t + "/forces_entry", lambda: solver.forces[when])
            if when in solver.force_matrices:
                force_matrix_state(t + "/fm_solved", solver.force_matrices[when])
            frame_state(t + "/after_stress", solver.frames[when])
            record(t + "/log_force", lambda: solver.log_force(when).to_dict(orient="split"))
            record(t + "/build_pressure", lambda: solver.build_pressure_matrix(when=when))
            if when in solver.pressure_matrices:
                pressure_matrix_state(t + "/pm_built", solver.pressure_matrices[when])
            record(t + "/solve_pressure", lambda: solver.solve_pressure(when=when, **pressure_kwargs))
            record(t + "/pressures_entry", lambda: solver.pressures[when])
            if when in solver.pressure_matrices:
                pressure_matrix_state(t + "/pm_solved", solver.pressure_matrices[when])
            frame_state(t + "/after_pressure", solver.frames[when])
            record(t + "/get_tensions", lambda: solver.frames[when].get_tensions().to_dict(orient="split"))
            record(t + "/get_pressures", lambda: solver.frames[when].get_pressures().to_dict(orient="split"))
        return solver

    # ------------------------------------------------------------- scenarios
    gap_ids = lambda i: 3 * i + 5

    synthetic_cases = {
        "hex33": lambda: {0: synthetic(3, 3)},
        "hex34_gaps_cw": lambda: {0: synthetic(3, 4, n_mid=3, id_map=gap_ids, flip=(0, 4, 5, 7))},
        "hex43_negative_tiny": lambda: {0: synthetic(4, 3, n_mid=1, scale=1e-3, shift=(-7.25, -0.004),
                                                     flip=(1, 2))},
        "hex33_straight": lambda: {0: synthetic(3, 3, n_mid=0)},       # two-point interfaces
        "hex44_allcw": lambda: {0: synthetic(4, 4, n_mid=2, flip=tuple(range(16)), shift=(-100.0, 50.0))},
        "hex33_flat": lambda: {0: synthetic(3, 3, n_mid=2, bulge=0.0)},  # collinear interiors
        "hex22_zero_ids": lambda: {0: synthetic(2, 2, n_mid=2)},          # few junctions, ids from 0
        "hex12_no_junction": lambda: {0: synthetic(1, 2, n_mid=1, id_map=gap_ids)},  # no internal interface
        "hex11_single": lambda: {0: synthetic(1, 1, n_mid=1)},            # one cell
        "hex23_far_negative": lambda: {0: synthetic(2, 3, n_mid=4, scale=250.0, shift=(-1e4, -3e4),
                                                    id_map=lambda i: 1000 - 7 * i, flip=(2,))},
    }

    for name, make in synthetic_cases.items():
        run_inference("syn/" + name + "/default", make, [0], {}, {"method": "lagrange_pressure"},
                      geometry=True)
        run_inference("syn/" + name + "/fix", make, [0], {"method": "fix_stress"}, {"method": "fix_stress"})
        run_inference("syn/" + name + "/lsq_linear", make, [0], {"method": "lsq_linear"}, {})
        run_inference("syn/" + name + "/noneg", make, [0], {"allow_negatives": False},
                      {"method": "lagrange_pressure", "allow_negatives": False})
        run_inference("syn/" + name + "/angle", make, [0], {}, {"method": "lagrange_pressure"},
                      build_kwargs={"angle_limit": 2.5})
        run_inference("syn/" + name + "/angle_tight_taubin", make, [0], {}, {"method": "lagrange_pressure"},
                      build_kwargs={"angle_limit": 2.35, "circle_fit_method": "taubinSVD",
                                    "metadata": {"ignore_four": True}})

    # repeated calls on the same object
    def twice(tag, make):
        solver = run_inference(tag + "/first", make, [0], {}, {"method": "lagrange_pressure"})
        if solver is None:
            return
        for rep in (1, 2):
            t = "%s/rep%d" % (tag, rep)
            record(t + "/solve_stress", lambda: solver.solve_stress(when=0))
            record(t + "/solve_pressure", lambda: solver.solve_pressure(when=0, method="lagrange_pressure"))
            frame_state(t, solver.frames[0])
            record(t + "/rebuild", lambda: solver.build_force_matrix(when=0, angle_limit=2.3))
            record(t + "/resolve", lambda: solver.solve_stress(when=0, method="fix_stress"))
            force_matrix_state(t + "/fm", solver.force_matrices[0])
            record(t + "/rebuild_p", lambda: solver.build_pressure_matrix(when=0))
            record(t + "/resolve_p", lambda: solver.solve_pressure(when=0))
            pressure_matrix_state(t + "/pm", solver.pressure_matrices[0])
            frame_state(t + "/again", solver.frames[0])

    twice("twice/hex34", synthetic_cases["hex34_gaps_cw"])

    # time series of synthetic frames, solved out of order, with velocities
    def moving():
        return {k: synthetic(3, 3, n_mid=2, frame_id=k, time=float(k), wobble=0.02) for k in range(4)}

    run_inference("moving/static", moving, [2, 0, 3, 1], {}, {"method": "lagrange_pressure"})
    run_inference("moving/velocity", moving, [3, 1, 0, 2],
                  {"b_matrix": "velocity", "adimensional_velocity": True, "velocity_normalization": 0.1},
                  {"method": "lagrange_pressure"})
    run_inference("moving/acceleration", moving, [1, 2],
                  {"b_matrix": "acceleration", "method": "fix_stress"}, {})

    def velocity_per_frame():
        solver = fs.ForSys(moving())
        return solver.get_system_velocity_per_frame(), solver.get_system_velocity_per_frame([2, 1], angle_limit=2.5)
    record("moving/system_velocity", velocity_per_frame)

    # data shipped with the test-suite
    run_inference("furrow/default", lambda: furrow_frames(3), [2, 0], {}, {"method": "lagrange_pressure"},
                  geometry=True)
    run_inference("furrow/velocity", lambda: furrow_frames(4), [1, 3],
                  {"b_matrix": "velocity", "adimensional_velocity": True}, {"method": "lagrange_pressure"})
    run_inference("furrow/fix_angle", lambda: furrow_frames(2), [1], {"method": "fix_stress"},
                  {"method": "fix_stress"}, build_kwargs={"angle_limit": 2.6})
    run_inference("lattice/default", lambda: lattice_frames([20, 21]), [1, 0], {},
                  {"method": "lagrange_pressure"}, geometry=True)
    run_inference("lattice/lsq_linear_taubin", lambda: lattice_frames([24]), [0], {"method": "lsq_linear"}, {},
                  build_kwargs={"circle_fit_method": "taubinSVD"})
    run_inference("tif/default", tif_frames, [0], {}, {"method": "lagrange_pressure"}, geometry=True)

    # direct use of the lower-level public pieces
    def direct_force_matrix(term):
        frame = synthetic(3, 3, n_mid=2, id_map=gap_ids)
        fm = fs.fmatrix.ForceMatrix(frame, "ext", term, {}, {})
        return [fm.matrix, fm.map_vid_to_row, fm.externals_to_use, fm.big_edges_to_use,
                [fm.get_external_term(v) for v in fm.externals_to_use[:4]]]
    for term in ("ext", "none"):
        record("direct/ext_matrix/" + term, lambda: direct_force_matrix(term))

    def external_override():
        # the external flag is a public attribute (forsys.skeleton sets it too): flagged interfaces
        # keep their column but must not enter the junction equations
        frame = synthetic(3, 3, n_mid=2, id_map=gap_ids)
        frame.internal_big_edges[0].external = True
        frame.internal_big_edges[5].external = True
        solver = fs.ForSys({0: frame})
        solver.build_force_matrix(when=0)
        fm = solver.force_matrices[0]
        out = [fm.matrix, fm.map_vid_to_row, [fm.get_vertex_equation(v) for v in fm.tj_vertices]]
        solver.solve_stress(when=0)
        out += [solver.forces[0], {eid: e.tension for eid, e in frame.edges.items()}]
        return out
    record("direct/external_override", external_override)

    def direct_eid():
        ve = fs.virtual_edges
        earr = [[1, 2, 3], [3, 4, 5], [5, 9, 1], [1, 7, 3], [3, 2, 1], [8], []]
        queries = [[1, 2, 3], [3, 2, 1], [1, 3], [3, 1], [5, 4], [1, 7, 3], [3, 7], [9, 1, 5], [8],
                   [], [2, 3, 4], [4, 5, 9], [1, 5], (5, 1, 9)]
        out = []
        for q in queries:
            try:
                out.append(ve.eid_from_vertex(earr, q))
            except BaseException as exc:
                out.append(type(exc).__name__)
        for q in ([1, 2], [7]):
            try:
                out.append(ve.eid_from_vertex([], q))
            except BaseException as exc:
                out.append(type(exc).__name__)
        return out
    record("direct/eid_from_vertex", direct_eid)

    def direct_general_matrix():
        GM = fs.general_matrix.GeneralMatrix
        gm = GM(synthetic(2, 2), {})
        rng = np.random.RandomState(3)
        out = []
        for shape in ((4, 4), (1, 1), (3, 5), (5, 2), (0, 0)):
            lhs = rng.rand(*shape)
            rhs = rng.rand(shape[0])
            for c in (0., 2.5, 3):
                a, b = gm.add_lagrange_multiplier(lhs, rhs, c)
                out.append([a, b, a.dtype.name, b.dtype.name, bool(a.flags["C_CONTIGUOUS"])])
            a, b = gm.add_lagrange_multiplier(lhs, rhs)
            out.append([a, b])
        ints = np.arange(9).reshape(3, 3)
        a, b = gm.add_lagrange_multiplier(ints, np.arange(3), 1.)
        out.append([a, b, a.dtype.name, b.dtype.name])
        f32 = np.arange(4, dtype=np.float32).reshape(2, 2)
        a, b = gm.add_lagrange_multiplier(f32, np.arange(2, dtype=np.float32), 1.)
        out.append([a, b, a.dtype.name, b.dtype.name])
        out.append(list(GM.fix_one_stress(rng.rand(4, 4), rng.rand(4))))
        return out
    record("direct/general_matrix", direct_general_matrix)

    def direct_bigedge():
        V, E, C = fs.vertex.Vertex, fs.edge.SmallEdge, fs.cell.Cell
        out = []
        # hand-made interfaces: ints as coordinates, axis-aligned, reversed, tiny, negative
        shapes = [
            [(0, 0), (1, 0), (2, 0)],
            [(0, 0), (0, 1), (0, 3), (1, 4)],
            [(-1.5, -2.0), (-1.0, -2.5), (-0.25, -2.25), (0.5, -1.0)],
            [(1e-6, 2e-6), (2e-6, 2.5e-6), (3e-6, 2e-6)],
            [(5.0, 5.0), (4.0, 6.0)],
            [(3.0, 1.0), (2.0, 1.0), (1.0, 1.5), (0.0, 1.0), (-1.0, 1.0)],
        ]
        for n, pts in enumerate(shapes):
            vs = [V(10 * n + k + 1, x, y) for k, (x, y) in enumerate(pts)]
            es = [E(100 * n + k, a, b) for k, (a, b) in enumerate(zip(vs, vs[1:]))]
            cell_a = C(2 * n, list(vs))
            # every other shape: the second vertex belongs to one cell only (lies on the tissue border)
            lonely = vs[1] if (n % 2 and len(vs) > 2) else None
            cell_b = C(2 * n + 1, [v for v in vs[::-1] if v is not lonely])
            vs[0].ownCells.append(999)  # make one end a junction of three cells
            be = fs.edge.BigEdge(n, vs)
            item = [be.edges, be.own_cells, be.external, type(be.external).__name__, be.xs, be.ys]
            for fn in (lambda: be.calculate_curvature(), lambda: be.calculate_total_curvature(),
                       lambda: be.calculate_total_curvature(normalized=False),
                       lambda: be.get_versor_sign(vs[0].id), lambda: be.get_versor_sign(vs[-1].id),
                       lambda: be.get_straight_edge_versor_from_vid(vs[0].id),
                       lambda: be.get_straight_edge_versor_from_vid(vs[-1].id),
                       lambda: be.get_vector_from_vertex(vs[0].id, fit_method="mean"),
                       lambda: be.get_vector_from_vertex(vs[-1].id, fit_method="mean"),
                       lambda: be.get_vector_from_vertex(vs[0].id, method="cell", cell=cell_a),
                       lambda: be.get_versor_from_vertex(vs[-1].id, method="cell", cell=cell_b),
                       lambda: be.get_versor_from_vertex(vs[0].id),
                       lambda: be.get_versor_from_vertex(vs[-1].id)):
                try:
                    with np.errstate(all="ignore"):
                        item.append(fn())
                except BaseException as exc:
                    item.append(type(exc).__name__ + ": " + str(exc)[:120])
            out.append(item)
            del es
        return out
    record("direct/bigedge", direct_bigedge)

    with open(out_path, "w") as fh:
        json.dump(results, fh)


# --------------------------------------------------------------------------
# comparison
# --------------------------------------------------------------------------
def _scale(items):
    vals = [abs(i["v"]) for i in items if isinstance(i, dict) and i.get("t") == "float"
            and not isinstance(i["v"], str)]
    return max(vals) if vals else 0.0


def compare(a, b, path, scale, problems):
    if len(problems) > 40:
        return
    if not (isinstance(a, dict) and isinstance(b, dict)):
        if a != b:
            problems.append("%s: %r != %r" % (path, a, b))
        return
    if a.get("t") != b.get("t"):
        problems.append("%s: kind %r != %r (%r vs %r)" % (path, a.get("t"), b.get("t"),
                                                         str(a.get("v"))[:80], str(b.get("v"))[:80]))
        return
    kind = a["t"]
    if kind == "float":
        x, y = a["v"], b["v"]
        if isinstance(x, str) or isinstance(y, str):
            if x != y:
                problems.append("%s: %r != %r" % (path, x, y))
            return
        if x == y:
            return
        tol = REL_TOL * max(abs(x), abs(y))
        if abs(x - y) <= tol:
            return
        if abs(x - y) <= REL_TOL * scale:  # cancellation residue next to O(scale) siblings
            return
        problems.append("%s: %.17g != %.17g (rel %.3g)" % (path, x, y, abs(x - y) / max(abs(x), abs(y))))
        return
    if kind in ("bool", "int", "atom", "repr", "raise"):
        if a["v"] != b["v"]:
            problems.append("%s: %r != %r" % (path, a["v"], b["v"]))
        return
    if kind == "ndarray":
        if a["shape"] != b["shape"] or a["kind"] != b["kind"]:
            problems.append("%s: array shape/dtype %r/%r != %r/%r" % (path, a["shape"], a["kind"],
                                                                    b["shape"], b["kind"]))
            return
    if kind == "dict":
        if len(a["v"]) != len(b["v"]):
            problems.append("%s: dict sizes %d != %d" % (path, len(a["v"]), len(b["v"])))
            return
        s = max(_scale([v for _, v in a["v"]]), _scale([v for _, v in b["v"]]))
        for n, ((ka, va), (kb, vb)) in enumerate(zip(a["v"], b["v"])):
            compare(ka, kb, "%s{key %d}" % (path, n), 0.0, problems)
            compare(va, vb, "%s{%s}" % (path, ka.get("v")), s, problems)
        return
    # list / tuple / set / ndarray
    if len(a["v"]) != len(b["v"]):
        problems.append("%s: lengths %d != %d" % (path, len(a["v"]), len(b["v"])))
        return
    s = max(_scale(a["v"]), _scale(b["v"]))
    for n, (xa, xb) in enumerate(zip(a["v"], b["v"])):
        compare(xa, xb, "%s[%d]" % (path, n), s, problems)


def run_tree(tree, out_path):
    env = dict(os.environ)
    env["PYTHONPATH"] = tree
    env["PYTHONHASHSEED"] = "0"
    env["MPLBACKEND"] = "Agg"
    proc = subprocess.run([sys.executable, os.path.abspath(__file__), "--worker", tree, out_path],
                          cwd=tree, env=env, stdout=subprocess.PIPE, stderr=subprocess.STDOUT)
    if proc.returncode != 0:
        sys.stdout.write(proc.stdout.decode(errors="replace")[-4000:])
        raise SystemExit("worker failed in %s" % tree)
    with open(out_path) as fh:
        return json.load(fh)


def main():
    if len(sys.argv) == 4 and sys.argv[1] == "--worker":
        worker(os.path.abspath(sys.argv[2]), sys.argv[3])
        return 0
    if len(sys.argv) != 3:
        print(__doc__)
        return 2
    tree_a, tree_b = (os.path.abspath(p) for p in sys.argv[1:3])
    with tempfile.TemporaryDirectory() as tmp:
        res_a = run_tree(tree_a, os.path.join(tmp, "a.json"))
        res_b = run_tree(tree_b, os.path.join(tmp, "b.json"))
    problems = []
    if list(res_a) != list(res_b):
        problems.append("different set/order of recorded observables")
    n_raise = 0
    for key in res_a:
        if key in res_b:
            compare(res_a[key], res_b[key], key, 0.0, problems)
            n_raise += res_a[key].get("t") == "raise"
    print("compared %d observables (%d of them are recorded exceptions)" % (len(res_a), n_raise))
    if problems:
        print("DIFFERENCES (%d shown):" % len(problems))
        for p in problems:
            print("  " + p)
        return 1
    print("EQUIVALENT")
    return 0


if __name__ == "__main__":
    sys.exit(main())

#!/usr/bin/env python
"""Differential test for RF3-3 (stress_tensor.stress_tensor: pandas row iteration replaced by column operations).

usage: equiv3.py <tree_a> <tree_b>     exit status 0 iff both trees behave the same
"""
import sys
import os
import json
import math
import subprocess
import tempfile

REL_TOL = 1e-12


# --------------------------------------------------------------------------
# driver side: run the worker once per tree, compare the two JSON documents
# --------------------------------------------------------------------------
def _is_tagged(node, tag):
    return isinstance(node, dict) and node.get("__t") == tag


def compare(a, b, path, problems):
    if len(problems) > 20:
        return
    if _is_tagged(a, "f") and _is_tagged(b, "f"):
        va, vb = a["v"], b["v"]
        if isinstance(va, str) or isinstance(vb, str):
            if va != vb:
                problems.append(f"{path}: {va} != {vb}")
            return
        if va == vb:
            return
        if abs(va - vb) <= REL_TOL * max(abs(va), abs(vb)):
            return
        problems.append(f"{path}: {va!r} != {vb!r}")
        return
    if type(a) is not type(b):
        problems.append(f"{path}: type {type(a).__name__} != {type(b).__name__}: {a!r} vs {b!r}")
        return
    if isinstance(a, dict):
        if list(a.keys()) != list(b.keys()):
            problems.append(f"{path}: keys {list(a.keys())} != {list(b.keys())}")
            return
        for key in a:
            compare(a[key], b[key], f"{path}/{key}", problems)
    elif isinstance(a, list):
        if len(a) != len(b):
            problems.append(f"{path}: length {len(a)} != {len(b)}")
            return
        for index, (ea, eb) in enumerate(zip(a, b)):
            compare(ea, eb, f"{path}[{index}]", problems)
    else:
        if a != b:
            problems.append(f"{path}: {a!r} != {b!r}")


def run_worker(tree):
    tree = os.path.abspath(tree)
    handle, out_path = tempfile.mkstemp(suffix=".json")
    os.close(handle)
    env = dict(os.environ)
    env["PYTHONPATH"] = tree
    env["MPLBACKEND"] = "Agg"
    env["PYTHONHASHSEED"] = "0"
    try:
        proc = subprocess.run([sys.executable, os.path.abspath(__file__), "--worker", tree, out_path],
                              env=env, cwd=tree, stdout=subprocess.PIPE, stderr=subprocess.PIPE, text=True)
        if proc.returncode != 0:
            sys.stderr.write(proc.stdout[-3000:] + "\n" + proc.stderr[-6000:] + "\n")
            raise SystemExit(f"worker failed on {tree}")
        with open(out_path) as handle:
            document = json.load(handle)
        document["stdout"] = proc.stdout.splitlines()
        return document
    finally:
        if os.path.exists(out_path):
            os.remove(out_path)


def driver(tree_a, tree_b):
    doc_a = run_worker(tree_a)
    doc_b = run_worker(tree_b)
    if not doc_a["forsys_file"].startswith(os.path.abspath(tree_a)) or \
            not doc_b["forsys_file"].startswith(os.path.abspath(tree_b)):
        print("forsys was not imported from the requested trees", doc_a["forsys_file"], doc_b["forsys_file"])
        return 2
    del doc_a["forsys_file"], doc_b["forsys_file"]
    problems = []
    compare(doc_a, doc_b, "", problems)
    n_scenarios = len(doc_a["results"])
    if problems:
        print(f"DIFFERENT ({n_scenarios} scenarios)")
        for problem in problems:
            print("  ", problem)
        return 1
    print(f"EQUIVALENT ({n_scenarios} scenarios compared)")
    return 0


# --------------------------------------------------------------------------
# worker side helpers (run with forsys imported from one tree)
# --------------------------------------------------------------------------
class Done:
    """An already canonical value (so that results of attempt() can be nested in other results)."""
    def __init__(self, value):
        self.value = value


def canon(obj):
    """Turn results into JSON keeping order, key types and int/float kinds."""
    import numpy as np
    if isinstance(obj, Done):
        return obj.value
    if obj is None or isinstance(obj, (bool, str)):
        return obj
    if isinstance(obj, np.bool_):
        return bool(obj)
    if isinstance(obj, (int, np.integer)):
        return {"__t": "i", "v": int(obj)}
    if isinstance(obj, (float, np.floating)):
        value = float(obj)
        if math.isnan(value):
            return {"__t": "f", "v": "nan"}
        if math.isinf(value):
            return {"__t": "f", "v": "inf" if value > 0 else "-inf"}
        return {"__t": "f", "v": value}
    if isinstance(obj, np.ndarray):
        return {"__t": "nd", "shape": list(obj.shape), "kind": obj.dtype.kind,
                "data": canon(obj.tolist())}
    if isinstance(obj, dict):
        return {"__t": "d", "items": [[canon(k), canon(v)] for k, v in obj.items()]}
    if isinstance(obj, tuple):
        return {"__t": "tu", "items": [canon(v) for v in obj]}
    if isinstance(obj, list):
        return [canon(v) for v in obj]
    if isinstance(obj, (set, frozenset)):
        return {"__t": "set", "items": sorted((canon(v) for v in obj), key=json.dumps)}
    if isinstance(obj, BaseException):
        return {"__t": "exc", "type": type(obj).__name__, "msg": str(obj)}
    try:
        import pandas as pd
        if isinstance(obj, pd.DataFrame):
            return {"__t": "df", "columns": [str(c) for c in obj.columns], "index": canon(list(obj.index)),
                    "data": {str(c): canon(list(obj[c])) for c in obj.columns}}
    except ImportError:
        pass
    raise TypeError(f"cannot canonicalise {type(obj)}")


def attempt(function):
    """Result of the call, or the exception it raised."""
    try:
        return Done(canon(function()))
    except Exception as error:  # noqa: the exception is part of the observable behaviour
        return Done(canon(error))


HEX_AXIAL_7 = [(0, 0), (1, 0), (0, 1), (-1, 1), (-1, 0), (0, -1), (1, -1)]
HEX_AXIAL_10 = HEX_AXIAL_7 + [(2, -1), (2, 0), (1, 1)]


def hex_tissue(fs, axial=HEX_AXIAL_7, scale=1.0, offset=(0.0, 0.0), inner=2, bulge=0.06,
               vid_of=lambda n: n, eid_of=lambda n: n, cid_of=lambda n: n,
               clockwise=(), deform=lambda x, y: (x, y), time=0, frame_id=0, make_frame=True):
    """Small synthetic tissue of hexagonal cells.

    Every hexagon side carries `inner` extra two-fold vertices on a slightly bulged arc,
    ids are produced by the *_of functions (gaps, zero, any order), cells listed in `clockwise`
    (by position in `axial`) get their vertices stored clockwise.
    """
    points = []          # coordinates by internal number
    corner_number = {}

    def corner(x, y):
        key = (round(x, 6), round(y, 6))
        if key not in corner_number:
            corner_number[key] = len(points)
            points.append((x, y))
        return corner_number[key]

    sides = {}
    cells_numbers = []
    for q, r in axial:
        cx = math.sqrt(3) * (q + r / 2)
        cy = 1.5 * r
        corners = [corner(cx + math.cos(math.radians(30 + 60 * k)), cy + math.sin(math.radians(30 + 60 * k)))
                   for k in range(6)]
        ring = []
        for k in range(6):
            a, b = corners[k], corners[(k + 1) % 6]
            key = (min(a, b), max(a, b))
            if key not in sides:
                (xa, ya), (xb, yb) = points[key[0]], points[key[1]]
                numbers = []
                for step in range(1, inner + 1):
                    t = step / (inner + 1)
                    shift = bulge * 4 * t * (1 - t) * (1 if (key[0] + key[1]) % 2 else -1)
                    nx, ny = -(yb - ya), (xb - xa)
                    numbers.append(len(points))
                    points.append((xa + t * (xb - xa) + shift * nx, ya + t * (yb - ya) + shift * ny))
                sides[key] = numbers
            middle = sides[key] if a == key[0] else sides[key][::-1]
            ring.extend([a] + middle)
        cells_numbers.append(ring)

    vertices = {}
    for number, (x, y) in enumerate(points):
        x, y = deform(x, y)
        vertices[vid_of(number)] = fs.vertex.Vertex(vid_of(number), x * scale + offset[0], y * scale + offset[1])
    edges = {}
    seen = {}
    for ring in cells_numbers:
        for a, b in zip(ring, ring[1:] + ring[:1]):
            key = (min(a, b), max(a, b))
            if key not in seen:
                seen[key] = eid_of(len(seen))
                edges[seen[key]] = fs.edge.SmallEdge(seen[key], vertices[vid_of(a)], vertices[vid_of(b)])
    cells = {}
    for position, ring in enumerate(cells_numbers):
        ordered = ring[::-1] if position in clockwise else ring
        cells[cid_of(position)] = fs.cell.Cell(cid_of(position), [vertices[vid_of(n)] for n in ordered])
    if not make_frame:
        return vertices, edges, cells
    return fs.frames.Frame(frame_id, vertices, edges, cells, time=time)


def surface_evolver_frames(fs, folder, names, gt=True):
    frames = {}
    for index, name in enumerate(names):
        evolver = fs.surface_evolver.SurfaceEvolver(os.path.join("tests", "data", folder, name))
        frames[index] = fs.frames.Frame(index, evolver.vertices, evolver.edges, evolver.cells, time=index, gt=gt)
    return frames


def vertex_table(frame):
    return [[vid, v.x, v.y] for vid, v in frame.vertices.items()]


def worker_main(scenarios):
    tree, out_path = sys.argv[2], sys.argv[3]
    sys.path.insert(0, tree)
    import warnings
    warnings.simplefilter("ignore")
    import forsys as fs
    results = {}
    for name, scenario in scenarios:
        results[name] = attempt(lambda: scenario(fs)).value
    with open(out_path, "w") as handle:
        json.dump({"forsys_file": os.path.abspath(fs.__file__), "results": results}, handle)


def main(scenarios):
    if len(sys.argv) >= 4 and sys.argv[1] == "--worker":
        worker_main(scenarios)
        return 0
    if len(sys.argv) == 3 and sys.argv[1] == "--show":
        # debugging aid: one line per scenario for a single tree
        document = run_worker(sys.argv[2])
        for name, result in document["results"].items():
            text = json.dumps(result)
            kind = "EXC " + text[:150] if _is_tagged(result, "exc") else f"ok   {len(text)} chars"
            print(f"{name:45s} {kind}")
        print("stdout lines:", len(document["stdout"]))
        return 0
    if len(sys.argv) != 3:
        print(f"usage: {os.path.basename(sys.argv[0])} <tree_a> <tree_b>")
        return 2
    return driver(sys.argv[1], sys.argv[2])

# ==========================================================================
# scenarios for RF3-3: forsys.stress_tensor.stress_tensor / Frame.calculate_stress_tensor
# ==========================================================================
def tensor_output(fs, frame, **kwargs):
    def call():
        sigmas, centers, bins = fs.stress_tensor.stress_tensor(frame, **kwargs)
        return {"sigmas": sigmas, "centers": centers, "bins": bins}
    return attempt(call)


def frame_tables(fs, frame):
    return {"cells": attempt(lambda: fs.stress_tensor.get_cells_df(frame)),
            "edges": attempt(lambda: {key: list(column) for key, column in
                                      fs.stress_tensor.get_big_edges_df(frame).items()})}


def principal(frame, **kwargs):
    def call():
        frame.calculate_stress_tensor(**kwargs)
        return {"tensor": frame.stress_tensor,
                "principal": [[key, [np_part for np_part in value]] for key, value in frame.principal_stress.items()]}
    return attempt(call)


def paint(frame, tension=lambda n, edge: 1.0 + 0.37 * math.sin(1.7 * n), pressure=lambda n, cell: 0.2 * math.cos(2.3 * n) - 0.05):
    for number, big_edge in enumerate(frame.big_edges.values()):
        big_edge.tension = tension(number, big_edge)
    for number, cell in enumerate(frame.cells.values()):
        cell.pressure = pressure(number, cell)


def solved_furrow(fs, stages, when):
    frames = surface_evolver_frames(fs, "furrow_gauss_velocity", [f"stage{ii}.dmp" for ii in stages])
    system = fs.ForSys(frames, cm=False)
    for t in when:
        system.build_force_matrix(when=t)
        system.solve_stress(when=t)
        system.build_pressure_matrix(when=t)
        system.solve_pressure(when=t, method="lagrange_pressure")
    return system


def sc_furrow_solved(fs):
    # frames solved out of order
    system = solved_furrow(fs, [0, 1, 5], when=[2, 0])
    out = {}
    for t in (0, 2):
        frame = system.frames[t]
        out[f"default_{t}"] = tensor_output(fs, frame)
        out[f"fine_{t}"] = tensor_output(fs, frame, grid=9, radius=2.5)
        out[f"coarse_{t}"] = tensor_output(fs, frame, grid=1, radius=100)
        out[f"small_radius_{t}"] = tensor_output(fs, frame, grid=12, radius=0.4)
        out[f"principal_{t}"] = principal(frame, coarsing=4, radius=1.5)
        out[f"tables_{t}"] = frame_tables(fs, frame)
    # stresses known but pressures never solved in frame 1
    system.build_force_matrix(when=1)
    system.solve_stress(when=1)
    out["no_pressure_1"] = tensor_output(fs, system.frames[1], grid=3)
    out["again_0"] = tensor_output(fs, system.frames[0])
    return out


def sc_12_12_painted(fs):
    frames = surface_evolver_frames(fs, "12_12", ["step_22.dmp"])
    frame = frames[0]
    out = {"unsolved": tensor_output(fs, frame, grid=4, radius=2)}
    paint(frame)
    out["painted"] = tensor_output(fs, frame, grid=6, radius=2)
    out["painted_big_radius"] = tensor_output(fs, frame, grid=3, radius=40)
    out["principal"] = principal(frame)
    paint(frame, tension=lambda n, e: n % 3, pressure=lambda n, c: n % 4 - 1)
    out["integer_values"] = tensor_output(fs, frame, grid=5, radius=3)
    out["tables"] = frame_tables(fs, frame)
    return out


def hex_variants(fs):
    yield "plain", hex_tissue(fs)
    yield "gappy_clockwise_negative", hex_tissue(fs, axial=HEX_AXIAL_10, vid_of=lambda n: 3 * n, eid_of=lambda n: 2 * n + 1,
                                                  cid_of=lambda n: 10 * n, clockwise=(0, 3, 4), offset=(-812.5, -40.25), scale=6.5)
    yield "tiny", hex_tissue(fs, scale=1e-6, offset=(2e-5, -3e-5), inner=1, cid_of=lambda n: 50 - 7 * n)
    yield "two_point_interfaces", hex_tissue(fs, axial=HEX_AXIAL_10, inner=0, cid_of=lambda n: (n * 5) % 11)
    yield "long_interfaces", hex_tissue(fs, inner=5, bulge=0.1, offset=(100.0, 100.0))


def sc_hex(fs):
    out = {}
    for name, frame in hex_variants(fs):
        out[f"{name}_unsolved"] = tensor_output(fs, frame, grid=3, radius=2)
        paint(frame)
        for grid, radius in ((5, 1), (2, 3), (7, 0.5), (4, 1.6)):
            out[f"{name}_{grid}_{radius}"] = tensor_output(fs, frame, grid=grid, radius=radius)
        out[f"{name}_principal"] = principal(frame, coarsing=3, radius=2)
        # some pressures missing, negative and zero tensions
        paint(frame, tension=lambda n, e: [0.0, -0.5, 2.0, 1e-9][n % 4],
              pressure=lambda n, c: None if n == 2 else 0.1 * n)
        out[f"{name}_partial_pressures"] = tensor_output(fs, frame, grid=3, radius=2)
        paint(frame, pressure=lambda n, c: None)
        out[f"{name}_no_pressures"] = tensor_output(fs, frame, grid=4, radius=1)
        paint(frame, tension=lambda n, e: 1, pressure=lambda n, c: 0)
        out[f"{name}_all_int"] = tensor_output(fs, frame, grid=4, radius=1)
        out[f"{name}_tables"] = frame_tables(fs, frame)
    return out


SCENARIOS = [
    ("furrow_solved", sc_furrow_solved),
    ("12_12_painted", sc_12_12_painted),
    ("hex_tissues", sc_hex),
]

if __name__ == "__main__":
    sys.exit(main(SCENARIOS))

#!/usr/bin/env python
"""Differential test for RF3-1 (TimeSeries.create_mapping: centre-of-mass helper + set lookup).

usage: equiv1.py <tree_a> <tree_b>     exit status 0 iff both trees behave the same
"""
import sys
import os
import json
import math
import subprocess
import tempfile

REL_TOL = 1e-12


# --------------------------------------------------------------------------
# driver side: run the worker once per tree, compare the two JSON documents
# --------------------------------------------------------------------------
def _is_tagged(node, tag):
    return isinstance(node, dict) and node.get("__t") == tag


def compare(a, b, path, problems):
    if len(problems) > 20:
        return
    if _is_tagged(a, "f") and _is_tagged(b, "f"):
        va, vb = a["v"], b["v"]
        if isinstance(va, str) or isinstance(vb, str):
            if va != vb:
                problems.append(f"{path}: {va} != {vb}")
            return
        if va == vb:
            return
        if abs(va - vb) <= REL_TOL * max(abs(va), abs(vb)):
            return
        problems.append(f"{path}: {va!r} != {vb!r}")
        return
    if type(a) is not type(b):
        problems.append(f"{path}: type {type(a).__name__} != {type(b).__name__}: {a!r} vs {b!r}")
        return
    if isinstance(a, dict):
        if list(a.keys()) != list(b.keys()):
            problems.append(f"{path}: keys {list(a.keys())} != {list(b.keys())}")
            return
        for key in a:
            compare(a[key], b[key], f"{path}/{key}", problems)
    elif isinstance(a, list):
        if len(a) != len(b):
            problems.append(f"{path}: length {len(a)} != {len(b)}")
            return
        for index, (ea, eb) in enumerate(zip(a, b)):
            compare(ea, eb, f"{path}[{index}]", problems)
    else:
        if a != b:
            problems.append(f"{path}: {a!r} != {b!r}")


def run_worker(tree):
    tree = os.path.abspath(tree)
    handle, out_path = tempfile.mkstemp(suffix=".json")
    os.close(handle)
    env = dict(os.environ)
    env["PYTHONPATH"] = tree
    env["MPLBACKEND"] = "Agg"
    env["PYTHONHASHSEED"] = "0"
    try:
        proc = subprocess.run([sys.executable, os.path.abspath(__file__), "--worker", tree, out_path],
                              env=env, cwd=tree, stdout=subprocess.PIPE, stderr=subprocess.PIPE, text=True)
        if proc.returncode != 0:
            sys.stderr.write(proc.stdout[-3000:] + "\n" + proc.stderr[-6000:] + "\n")
            raise SystemExit(f"worker failed on {tree}")
        with open(out_path) as handle:
            document = json.load(handle)
        document["stdout"] = proc.stdout.splitlines()
        return document
    finally:
        if os.path.exists(out_path):
            os.remove(out_path)


def driver(tree_a, tree_b):
    doc_a = run_worker(tree_a)
    doc_b = run_worker(tree_b)
    if not doc_a["forsys_file"].startswith(os.path.abspath(tree_a)) or \
            not doc_b["forsys_file"].startswith(os.path.abspath(tree_b)):
        print("forsys was not imported from the requested trees", doc_a["forsys_file"], doc_b["forsys_file"])
        return 2
    del doc_a["forsys_file"], doc_b["forsys_file"]
    problems = []
    compare(doc_a, doc_b, "", problems)
    n_scenarios = len(doc_a["results"])
    if problems:
        print(f"DIFFERENT ({n_scenarios} scenarios)")
        for problem in problems:
            print("  ", problem)
        return 1
    print(f"EQUIVALENT ({n_scenarios} scenarios compared)")
    return 0


# --------------------------------------------------------------------------
# worker side helpers (run with forsys imported from one tree)
# --------------------------------------------------------------------------
class Done:
    """An already canonical value (so that results of attempt() can be nested in other results)."""
    def __init__(self, value):
        self.value = value


def canon(obj):
    """Turn results into JSON keeping order, key types and int/float kinds."""
    import numpy as np
    if isinstance(obj, Done):
        return obj.value
    if obj is None or isinstance(obj, (bool, str)):
        return obj
    if isinstance(obj, np.bool_):
        return bool(obj)
    if isinstance(obj, (int, np.integer)):
        return {"__t": "i", "v": int(obj)}
    if isinstance(obj, (float, np.floating)):
        value = float(obj)
        if math.isnan(value):
            return {"__t": "f", "v": "nan"}
        if math.isinf(value):
            return {"__t": "f", "v": "inf" if value > 0 else "-inf"}
        return {"__t": "f", "v": value}
    if isinstance(obj, np.ndarray):
        return {"__t": "nd", "shape": list(obj.shape), "kind": obj.dtype.kind,
                "data": canon(obj.tolist())}
    if isinstance(obj, dict):
        return {"__t": "d", "items": [[canon(k), canon(v)] for k, v in obj.items()]}
    if isinstance(obj, tuple):
        return {"__t": "tu", "items": [canon(v) for v in obj]}
    if isinstance(obj, list):
        return [canon(v) for v in obj]
    if isinstance(obj, (set, frozenset)):
        return {"__t": "set", "items": sorted((canon(v) for v in obj), key=json.dumps)}
    if isinstance(obj, BaseException):
        return {"__t": "exc", "type": type(obj).__name__, "msg": str(obj)}
    try:
        import pandas as pd
        if isinstance(obj, pd.DataFrame):
            return {"__t": "df", "columns": [str(c) for c in obj.columns], "index": canon(list(obj.index)),
                    "data": {str(c): canon(list(obj[c])) for c in obj.columns}}
    except ImportError:
        pass
    raise TypeError(f"cannot canonicalise {type(obj)}")


def attempt(function):
    """Result of the call, or the exception it raised."""
    try:
        return Done(canon(function()))
    except Exception as error:  # noqa: the exception is part of the observable behaviour
        return Done(canon(error))


HEX_AXIAL_7 = [(0, 0), (1, 0), (0, 1), (-1, 1), (-1, 0), (0, -1), (1, -1)]
HEX_AXIAL_10 = HEX_AXIAL_7 + [(2, -1), (2, 0), (1, 1)]


def hex_tissue(fs, axial=HEX_AXIAL_7, scale=1.0, offset=(0.0, 0.0), inner=2, bulge=0.06,
               vid_of=lambda n: n, eid_of=lambda n: n, cid_of=lambda n: n,
               clockwise=(), deform=lambda x, y: (x, y), time=0, frame_id=0, make_frame=True):
    """Small synthetic tissue of hexagonal cells.

    Every hexagon side carries `inner` extra two-fold vertices on a slightly bulged arc,
    ids are produced by the *_of functions (gaps, zero, any order), cells listed in `clockwise`
    (by position in `axial`) get their vertices stored clockwise.
    """
    points = []          # coordinates by internal number
    corner_number = {}

    def corner(x, y):
        key = (round(x, 6), round(y, 6))
        if key not in corner_number:
            corner_number[key] = len(points)
            points.append((x, y))
        return corner_number[key]

    sides = {}
    cells_numbers = []
    for q, r in axial:
        cx = math.sqrt(3) * (q + r / 2)
        cy = 1.5 * r
        corners = [corner(cx + math.cos(math.radians(30 + 60 * k)), cy + math.sin(math.radians(30 + 60 * k)))
                   for k in range(6)]
        ring = []
        for k in range(6):
            a, b = corners[k], corners[(k + 1) % 6]
            key = (min(a, b), max(a, b))
            if key not in sides:
                (xa, ya), (xb, yb) = points[key[0]], points[key[1]]
                numbers = []
                for step in range(1, inner + 1):
                    t = step / (inner + 1)
                    shift = bulge * 4 * t * (1 - t) * (1 if (key[0] + key[1]) % 2 else -1)
                    nx, ny = -(yb - ya), (xb - xa)
                    numbers.append(len(points))
                    points.append((xa + t * (xb - xa) + shift * nx, ya + t * (yb - ya) + shift * ny))
                sides[key] = numbers
            middle = sides[key] if a == key[0] else sides[key][::-1]
            ring.extend([a] + middle)
        cells_numbers.append(ring)

    vertices = {}
    for number, (x, y) in enumerate(points):
        x, y = deform(x, y)
        vertices[vid_of(number)] = fs.vertex.Vertex(vid_of(number), x * scale + offset[0], y * scale + offset[1])
    edges = {}
    seen = {}
    for ring in cells_numbers:
        for a, b in zip(ring, ring[1:] + ring[:1]):
            key = (min(a, b), max(a, b))
            if key not in seen:
                seen[key] = eid_of(len(seen))
                edges[seen[key]] = fs.edge.SmallEdge(seen[key], vertices[vid_of(a)], vertices[vid_of(b)])
    cells = {}
    for position, ring in enumerate(cells_numbers):
        ordered = ring[::-1] if position in clockwise else ring
        cells[cid_of(position)] = fs.cell.Cell(cid_of(position), [vertices[vid_of(n)] for n in ordered])
    if not make_frame:
        return vertices, edges, cells
    return fs.frames.Frame(frame_id, vertices, edges, cells, time=time)


def surface_evolver_frames(fs, folder, names, gt=True):
    frames = {}
    for index, name in enumerate(names):
        evolver = fs.surface_evolver.SurfaceEvolver(os.path.join("tests", "data", folder, name))
        frames[index] = fs.frames.Frame(index, evolver.vertices, evolver.edges, evolver.cells, time=index, gt=gt)
    return frames


def vertex_table(frame):
    return [[vid, v.x, v.y] for vid, v in frame.vertices.items()]


def worker_main(scenarios):
    tree, out_path = sys.argv[2], sys.argv[3]
    sys.path.insert(0, tree)
    import warnings
    warnings.simplefilter("ignore")
    import forsys as fs
    results = {}
    for name, scenario in scenarios:
        results[name] = attempt(lambda: scenario(fs)).value
    with open(out_path, "w") as handle:
        json.dump({"forsys_file": os.path.abspath(fs.__file__), "results": results}, handle)


def main(scenarios):
    if len(sys.argv) >= 4 and sys.argv[1] == "--worker":
        worker_main(scenarios)
        return 0
    if len(sys.argv) == 3 and sys.argv[1] == "--show":
        # debugging aid: one line per scenario for a single tree
        document = run_worker(sys.argv[2])
        for name, result in document["results"].items():
            text = json.dumps(result)
            kind = "EXC " + text[:150] if _is_tagged(result, "exc") else f"ok   {len(text)} chars"
            print(f"{name:45s} {kind}")
        print("stdout lines:", len(document["stdout"]))
        return 0
    if len(sys.argv) != 3:
        print(f"usage: {os.path.basename(sys.argv[0])} <tree_a> <tree_b>")
        return 2
    return driver(sys.argv[1], sys.argv[2])

# ==========================================================================
# scenarios for RF3-1: TimeSeries.__post_init__ / create_mapping
# ==========================================================================
def describe_series(series, frames):
    out = {"mapping": series.mapping,
           "cm_coords": getattr(series, "cm_coords", "unset"),
           "maxcoord": getattr(series, "maxcoord", "unset"),
           "initial_guess": series.initial_guess,
           "times_to_use": None,
           "vertices": {key: vertex_table(frame) for key, frame in frames.items()}}
    try:
        out["times_to_use"] = series.times_to_use()
    except Exception as error:
        out["times_to_use"] = error
    return out


class PerFrame(list):
    """Keyword value that differs from frame to frame."""


def moving_hex_frames(fs, count=3, **kwargs):
    frames = {}
    for t in range(count):
        def deform(x, y, t=t):
            return (x * (1 + 0.01 * t) + 0.004 * t * math.sin(1.3 * y), y * (1 + 0.006 * t) + 0.003 * t * math.cos(0.7 * x))
        per_frame = {key: (value[t] if isinstance(value, PerFrame) else value) for key, value in kwargs.items()}
        frames[t] = hex_tissue(fs, deform=deform, time=t, frame_id=t, **per_frame)
    return frames


def sc_furrow(cm):
    def scenario(fs):
        frames = surface_evolver_frames(fs, "furrow_gauss_velocity", [f"stage{ii}.dmp" for ii in range(4)])
        series = fs.time_series.TimeSeries(frames, cm=cm)
        return describe_series(series, frames)
    return scenario


def sc_12_12(fs):
    frames = surface_evolver_frames(fs, "12_12", [f"step_{ii}.dmp" for ii in range(20, 23)])
    system = fs.ForSys(frames, cm=True)
    return {"series": describe_series(system.mesh, frames), "times": system.times_to_use}


def sc_hex_plain(fs):
    frames = moving_hex_frames(fs)
    series = fs.time_series.TimeSeries(frames, cm=True)
    return describe_series(series, frames)


def sc_hex_gappy_ids(fs):
    # ids with gaps and zero, a different numbering in every frame, clockwise cells,
    # negative coordinates
    frames = moving_hex_frames(fs, axial=HEX_AXIAL_10,
                               vid_of=PerFrame([lambda n: 3 * n, lambda n: 500 - 2 * n, lambda n: (7 * n) % 211]),
                               eid_of=PerFrame([lambda n: 2 * n, lambda n: n + 40, lambda n: 5 * n]),
                               cid_of=PerFrame([lambda n: 10 * n, lambda n: n, lambda n: 99 - n]),
                               clockwise=PerFrame([(1, 4), (), (0, 2, 5)]), offset=(-57.25, -1031.5), scale=3.7)
    series = fs.time_series.TimeSeries(frames, cm=True)
    return describe_series(series, frames)


def sc_hex_tiny(cm):
    def scenario(fs):
        frames = moving_hex_frames(fs, scale=1e-5, offset=(-2e-4, 3e-4), inner=1)
        series = fs.time_series.TimeSeries(frames, cm=cm)
        return describe_series(series, frames)
    return scenario


def sc_hex_two_point_interfaces(fs):
    frames = moving_hex_frames(fs, inner=0, offset=(12.0, -3.0))
    series = fs.time_series.TimeSeries(frames, cm=True)
    return describe_series(series, frames)


def sc_hex_initial_guess(fs):
    frames = moving_hex_frames(fs, vid_of=PerFrame([lambda n: n, lambda n: n + 1, lambda n: n + 2]))
    first_ids = list(frames[0].vertices.keys())
    guess = {0: {first_ids[0]: first_ids[0] + 1, first_ids[5]: None}, 1: {}}
    series = fs.time_series.TimeSeries(frames, cm=True, initial_guess=guess)
    return describe_series(series, frames)


def sc_too_different(fs):
    frames = moving_hex_frames(fs, count=3, scale=PerFrame([1.0, 1.6, 1.62]))
    series = fs.time_series.TimeSeries(frames, cm=True)
    return describe_series(series, frames)


def sc_repeated_calls(fs):
    # create_mapping is public: call it again on already linked frames, in reverse order
    # and without the centre of mass shift
    frames = moving_hex_frames(fs, offset=(40.0, 25.0))
    series = fs.time_series.TimeSeries(frames, cm=True)
    out = {"first": describe_series(series, frames)}
    out["again"] = series.create_mapping(frames[0], frames[1], {})
    out["after_again"] = describe_series(series, frames)
    out["backwards"] = series.create_mapping(frames[2], frames[0], {})
    out["after_backwards"] = describe_series(series, frames)
    series.cm = False
    out["no_cm"] = series.create_mapping(frames[1], frames[2], {})
    out["after_no_cm"] = describe_series(series, frames)
    out["same_frame"] = series.create_mapping(frames[1], frames[1], {})
    out["after_same_frame"] = describe_series(series, frames)
    out["static_cm"] = fs.time_series.TimeSeries.get_cm_coords(frames[2].vertices)
    return out


def sc_two_cells_no_junction(fs):
    # frames whose big edge list may be empty / degenerate: whatever happens must be the same
    def build(t):
        vertices = {vid: fs.vertex.Vertex(vid, math.cos(vid) + 0.01 * t, math.sin(vid)) for vid in range(6)}
        edges = {eid: fs.edge.SmallEdge(eid, vertices[eid], vertices[(eid + 1) % 6]) for eid in range(6)}
        cells = {0: fs.cell.Cell(0, [vertices[vid] for vid in range(6)])}
        return fs.frames.Frame(t, vertices, edges, cells, time=t)
    frames = {0: build(0), 1: build(1)}
    series = fs.time_series.TimeSeries(frames, cm=True)
    return describe_series(series, frames)


SCENARIOS = [
    ("furrow_cm", sc_furrow(True)),
    ("furrow_nocm", sc_furrow(False)),
    ("12_12_forsys_cm", sc_12_12),
    ("hex_plain", sc_hex_plain),
    ("hex_gappy_ids_clockwise_negative", sc_hex_gappy_ids),
    ("hex_tiny_cm", sc_hex_tiny(True)),
    ("hex_tiny_nocm", sc_hex_tiny(False)),
    ("hex_two_point_interfaces", sc_hex_two_point_interfaces),
    ("hex_initial_guess", sc_hex_initial_guess),
    ("too_different", sc_too_different),
    ("repeated_calls", sc_repeated_calls),
    ("single_cell_no_junction", sc_two_cells_no_junction),
]

if __name__ == "__main__":
    sys.exit(main(SCENARIOS))

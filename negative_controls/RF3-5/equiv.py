#!/usr/bin/env python
"""Differential test for RF3-5 (myosin.get_intensities split into a per-edge helper, dead key filter removed; get_interpolation rounds every position once).

usage: equiv5.py <tree_a> <tree_b>     exit status 0 iff both trees behave the same
"""
import sys
import os
import json
import math
import subprocess
import tempfile

REL_TOL = 1e-12


# --------------------------------------------------------------------------
# driver side: run the worker once per tree, compare the two JSON documents
# --------------------------------------------------------------------------
def _is_tagged(node, tag):
    return isinstance(node, dict) and node.get("__t") == tag


def compare(a, b, path, problems):
    if len(problems) > 20:
        return
    if _is_tagged(a, "f") and _is_tagged(b, "f"):
        va, vb = a["v"], b["v"]
        if isinstance(va, str) or isinstance(vb, str):
            if va != vb:
                problems.append(f"{path}: {va} != {vb}")
            return
        if va == vb:
            return
        if abs(va - vb) <= REL_TOL * max(abs(va), abs(vb)):
            return
        problems.append(f"{path}: {va!r} != {vb!r}")
        return
    if type(a) is not type(b):
        problems.append(f"{path}: type {type(a).__name__} != {type(b).__name__}: {a!r} vs {b!r}")
        return
    if isinstance(a, dict):
        if list(a.keys()) != list(b.keys()):
            problems.append(f"{path}: keys {list(a.keys())} != {list(b.keys())}")
            return
        for key in a:
            compare(a[key], b[key], f"{path}/{key}", problems)
    elif isinstance(a, list):
        if len(a) != len(b):
            problems.append(f"{path}: length {len(a)} != {len(b)}")
            return
        for index, (ea, eb) in enumerate(zip(a, b)):
            compare(ea, eb, f"{path}[{index}]", problems)
    else:
        if a != b:
            problems.append(f"{path}: {a!r} != {b!r}")


def run_worker(tree):
    tree = os.path.abspath(tree)
    handle, out_path = tempfile.mkstemp(suffix=".json")
    os.close(handle)
    env = dict(os.environ)
    env["PYTHONPATH"] = tree
    env["MPLBACKEND"] = "Agg"
    env["PYTHONHASHSEED"] = "0"
    try:
        proc = subprocess.run([sys.executable, os.path.abspath(__file__), "--worker", tree, out_path],
                              env=env, cwd=tree, stdout=subprocess.PIPE, stderr=subprocess.PIPE, text=True)
        if proc.returncode != 0:
            sys.stderr.write(proc.stdout[-3000:] + "\n" + proc.stderr[-6000:] + "\n")
            raise SystemExit(f"worker failed on {tree}")
        with open(out_path) as handle:
            document = json.load(handle)
        document["stdout"] = proc.stdout.splitlines()
        return document
    finally:
        if os.path.exists(out_path):
            os.remove(out_path)


def driver(tree_a, tree_b):
    doc_a = run_worker(tree_a)
    doc_b = run_worker(tree_b)
    if not doc_a["forsys_file"].startswith(os.path.abspath(tree_a)) or \
            not doc_b["forsys_file"].startswith(os.path.abspath(tree_b)):
        print("forsys was not imported from the requested trees", doc_a["forsys_file"], doc_b["forsys_file"])
        return 2
    del doc_a["forsys_file"], doc_b["forsys_file"]
    problems = []
    compare(doc_a, doc_b, "", problems)
    n_scenarios = len(doc_a["results"])
    if problems:
        print(f"DIFFERENT ({n_scenarios} scenarios)")
        for problem in problems:
            print("  ", problem)
        return 1
    print(f"EQUIVALENT ({n_scenarios} scenarios compared)")
    return 0


# --------------------------------------------------------------------------
# worker side helpers (run with forsys imported from one tree)
# --------------------------------------------------------------------------
class Done:
    """An already canonical value (so that results of attempt() can be nested in other results)."""
    def __init__(self, value):
        self.value = value


def canon(obj):
    """Turn results into JSON keeping order, key types and int/float kinds."""
    import numpy as np
    if isinstance(obj, Done):
        return obj.value
    if obj is None or isinstance(obj, (bool, str)):
        return obj
    if isinstance(obj, np.bool_):
        return bool(obj)
    if isinstance(obj, (int, np.integer)):
        return {"__t": "i", "v": int(obj)}
    if isinstance(obj, (float, np.floating)):
        value = float(obj)
        if math.isnan(value):
            return {"__t": "f", "v": "nan"}
        if math.isinf(value):
            return {"__t": "f", "v": "inf" if value > 0 else "-inf"}
        return {"__t": "f", "v": value}
    if isinstance(obj, np.ndarray):
        return {"__t": "nd", "shape": list(obj.shape), "kind": obj.dtype.kind,
                "data": canon(obj.tolist())}
    if isinstance(obj, dict):
        return {"__t": "d", "items": [[canon(k), canon(v)] for k, v in obj.items()]}
    if isinstance(obj, tuple):
        return {"__t": "tu", "items": [canon(v) for v in obj]}
    if isinstance(obj, list):
        return [canon(v) for v in obj]
    if isinstance(obj, (set, frozenset)):
        return {"__t": "set", "items": sorted((canon(v) for v in obj), key=json.dumps)}
    if isinstance(obj, BaseException):
        return {"__t": "exc", "type": type(obj).__name__, "msg": str(obj)}
    try:
        import pandas as pd
        if isinstance(obj, pd.DataFrame):
            return {"__t": "df", "columns": [str(c) for c in obj.columns], "index": canon(list(obj.index)),
                    "data": {str(c): canon(list(obj[c])) for c in obj.columns}}
    except ImportError:
        pass
    raise TypeError(f"cannot canonicalise {type(obj)}")


def attempt(function):
    """Result of the call, or the exception it raised."""
    try:
        return Done(canon(function()))
    except Exception as error:  # noqa: the exception is part of the observable behaviour
        return Done(canon(error))


HEX_AXIAL_7 = [(0, 0), (1, 0), (0, 1), (-1, 1), (-1, 0), (0, -1), (1, -1)]
HEX_AXIAL_10 = HEX_AXIAL_7 + [(2, -1), (2, 0), (1, 1)]


def hex_tissue(fs, axial=HEX_AXIAL_7, scale=1.0, offset=(0.0, 0.0), inner=2, bulge=0.06,
               vid_of=lambda n: n, eid_of=lambda n: n, cid_of=lambda n: n,
               clockwise=(), deform=lambda x, y: (x, y), time=0, frame_id=0, make_frame=True):
    """Small synthetic tissue of hexagonal cells.

    Every hexagon side carries `inner` extra two-fold vertices on a slightly bulged arc,
    ids are produced by the *_of functions (gaps, zero, any order), cells listed in `clockwise`
    (by position in `axial`) get their vertices stored clockwise.
    """
    points = []          # coordinates by internal number
    corner_number = {}

    def corner(x, y):
        key = (round(x, 6), round(y, 6))
        if key not in corner_number:
            corner_number[key] = len(points)
            points.append((x, y))
        return corner_number[key]

    sides = {}
    cells_numbers = []
    for q, r in axial:
        cx = math.sqrt(3) * (q + r / 2)
        cy = 1.5 * r
        corners = [corner(cx + math.cos(math.radians(30 + 60 * k)), cy + math.sin(math.radians(30 + 60 * k)))
                   for k in range(6)]
        ring = []
        for k in range(6):
            a, b = corners[k], corners[(k + 1) % 6]
            key = (min(a, b), max(a, b))
            if key not in sides:
                (xa, ya), (xb, yb) = points[key[0]], points[key[1]]
                numbers = []
                for step in range(1, inner + 1):
                    t = step / (inner + 1)
                    shift = bulge * 4 * t * (1 - t) * (1 if (key[0] + key[1]) % 2 else -1)
                    nx, ny = -(yb - ya), (xb - xa)
                    numbers.append(len(points))
                    points.append((xa + t * (xb - xa) + shift * nx, ya + t * (yb - ya) + shift * ny))
                sides[key] = numbers
            middle = sides[key] if a == key[0] else sides[key][::-1]
            ring.extend([a] + middle)
        cells_numbers.append(ring)

    vertices = {}
    for number, (x, y) in enumerate(points):
        x, y = deform(x, y)
        vertices[vid_of(number)] = fs.vertex.Vertex(vid_of(number), x * scale + offset[0], y * scale + offset[1])
    edges = {}
    seen = {}
    for ring in cells_numbers:
        for a, b in zip(ring, ring[1:] + ring[:1]):
            key = (min(a, b), max(a, b))
            if key not in seen:
                seen[key] = eid_of(len(seen))
                edges[seen[key]] = fs.edge.SmallEdge(seen[key], vertices[vid_of(a)], vertices[vid_of(b)])
    cells = {}
    for position, ring in enumerate(cells_numbers):
        ordered = ring[::-1] if position in clockwise else ring
        cells[cid_of(position)] = fs.cell.Cell(cid_of(position), [vertices[vid_of(n)] for n in ordered])
    if not make_frame:
        return vertices, edges, cells
    return fs.frames.Frame(frame_id, vertices, edges, cells, time=time)


def surface_evolver_frames(fs, folder, names, gt=True):
    frames = {}
    for index, name in enumerate(names):
        evolver = fs.surface_evolver.SurfaceEvolver(os.path.join("tests", "data", folder, name))
        frames[index] = fs.frames.Frame(index, evolver.vertices, evolver.edges, evolver.cells, time=index, gt=gt)
    return frames


def vertex_table(frame):
    return [[vid, v.x, v.y] for vid, v in frame.vertices.items()]


def worker_main(scenarios):
    tree, out_path = sys.argv[2], sys.argv[3]
    sys.path.insert(0, tree)
    import warnings
    warnings.simplefilter("ignore")
    import forsys as fs
    results = {}
    for name, scenario in scenarios:
        results[name] = attempt(lambda: scenario(fs)).value
    with open(out_path, "w") as handle:
        json.dump({"forsys_file": os.path.abspath(fs.__file__), "results": results}, handle)


def main(scenarios):
    if len(sys.argv) >= 4 and sys.argv[1] == "--worker":
        worker_main(scenarios)
        return 0
    if len(sys.argv) == 3 and sys.argv[1] == "--show":
        # debugging aid: one line per scenario for a single tree
        document = run_worker(sys.argv[2])
        for name, result in document["results"].items():
            text = json.dumps(result)
            kind = "EXC " + text[:150] if _is_tagged(result, "exc") else f"ok   {len(text)} chars"
            print(f"{name:45s} {kind}")
        print("stdout lines:", len(document["stdout"]))
        return 0
    if len(sys.argv) != 3:
        print(f"usage: {os.path.basename(sys.argv[0])} <tree_a> <tree_b>")
        return 2
    return driver(sys.argv[1], sys.argv[2])

# ==========================================================================
# scenarios for RF3-5: forsys.myosin.get_intensities / read_myosin / get_interpolation
# ==========================================================================
def synthetic_image(mode, size=160, height=None):
    import numpy as np
    from PIL import Image
    yy, xx = np.mgrid[0:(height or size), 0:size]
    pattern = 90 + 60 * np.sin(xx / 7.0) * np.cos(yy / 11.0) + 0.3 * xx + 0.2 * yy + ((xx * 31 + yy * 17) % 13)
    if mode == "L":
        return Image.fromarray(pattern.astype(np.uint8), mode="L")
    if mode == "I;16":
        return Image.fromarray((pattern * 200).astype(np.uint16))
    if mode == "F":
        return Image.fromarray((pattern / 7.3).astype(np.float32))
    raise ValueError(mode)


def gts(frame):
    return [[key, big_edge.gt] for key, big_edge in frame.big_edges.items()]


def intensities(fs, frame, edges, image, **kwargs):
    def call():
        return fs.myosin.get_intensities(edges, image, **kwargs)
    result = attempt(call)
    return {"result": result, "gt_after": gts(frame)}


def hex_in_image(fs, **kwargs):
    defaults = dict(scale=18.0, offset=(80.0, 78.0))
    defaults.update(kwargs)
    return hex_tissue(fs, **defaults)


def sc_hex_images(fs):
    out = {}
    variants = {
        "plain": dict(),
        "gappy_clockwise": dict(vid_of=lambda n: 3 * n, eid_of=lambda n: 2 * n + 5, cid_of=lambda n: 10 * n, clockwise=(0, 2, 5)),
        "two_point_interfaces": dict(inner=0),
        "long_interfaces": dict(inner=6, bulge=0.12),
        "half_pixel_coordinates": dict(scale=17.5, offset=(80.5, 79.5), inner=1),
    }
    for mode in ("L", "I;16", "F"):
        image = synthetic_image(mode)
        for name, kwargs in variants.items():
            frame = hex_in_image(fs, **kwargs)
            for integrate in (False, True):
                for layers in (0, 1, 2):
                    for normalize in ("average", None):
                        key = f"{mode}_{name}_int{integrate}_l{layers}_{normalize}"
                        out[key] = intensities(fs, frame, frame.internal_big_edges, image, integrate=integrate,
                                               normalize=normalize, layers=layers)
            all_edges = list(frame.big_edges.values())
            out[f"{mode}_{name}_all_edges"] = intensities(fs, frame, all_edges, image, integrate=True, layers=1)
            out[f"{mode}_{name}_maximum"] = intensities(fs, frame, frame.internal_big_edges, image, normalize="maximum")
            out[f"{mode}_{name}_other_norm"] = intensities(fs, frame, frame.internal_big_edges, image, normalize="median",
                                                           integrate=True, corrected_by_tilt=False)
            out[f"{mode}_{name}_tuple_of_edges"] = intensities(fs, frame, tuple(frame.internal_big_edges[:3]), image, layers=0)
            out[f"{mode}_{name}_no_edges"] = intensities(fs, frame, [], image)
            out[f"{mode}_{name}_dict_quirk"] = intensities(fs, frame, frame.get_big_edges(use_all=True), image)
    return out


def sc_rescale_offset(fs):
    # tissue in its own small / negative coordinates, brought into the picture by rescale and offset
    out = {}
    image = synthetic_image("I;16")
    frame = hex_tissue(fs, scale=1e-3, offset=(-0.5, -0.25), inner=2)
    kwargs = dict(rescale=[18000.0, 17000.0], offset=[9080.0, 4330.0])
    for integrate in (False, True):
        for layers in (0, 1, 3):
            out[f"int{integrate}_l{layers}"] = intensities(fs, frame, frame.internal_big_edges, image, integrate=integrate,
                                                           layers=layers, **kwargs)
    out["outside_the_picture"] = intensities(fs, frame, frame.internal_big_edges, image, integrate=True)
    out["outside_the_picture_vertices"] = intensities(fs, frame, frame.internal_big_edges, image, integrate=False,
                                                      rescale=[1e6, 1e6])
    out["odd_keyword"] = intensities(fs, frame, frame.internal_big_edges, image, big_edge="x", vertices=3, **kwargs)
    edge = frame.internal_big_edges[0]
    for layers in (0, 1, 2):
        def call(layers=layers):
            points, length = fs.myosin.get_interpolation(edge, layers, **kwargs)
            return {"points": points, "length": length}
        out[f"interpolation_l{layers}"] = attempt(call)
    out["walk"] = [attempt(lambda a=a, b=b, l=l: fs.myosin.walk_two_vertices(a, b, l))
                   for a, b, l in (([3, 4], [9, 6], 1), ([9, 6], [3, 4], 0), ([3, 4], [3, 4], 1), ([3, 4], [4, 9], 2))]
    out["layer_elements"] = [fs.myosin.get_layer_elements(position, layers)
                             for position in ([0, 0], (2.5, -1.0)) for layers in (0, 1, 2)]
    return out


def sc_experimental(fs):
    tif = os.path.join("tests", "data", "experimental", "exp_1.tif")
    skeleton = fs.skeleton.Skeleton(tif, mirror_y=False)
    vertices, edges, cells = skeleton.create_lattice()
    vertices, edges, cells, _ = fs.virtual_edges.generate_mesh(vertices, edges, cells, ne=6)
    frame = fs.frames.Frame(0, vertices, edges, cells, time=0)
    out = {}
    for image_name in (tif, os.path.join("tests", "data", "test_nonzero.tif")):
        for integrate in (False, True):
            for layers in (0, 1):
                key = f"{os.path.basename(image_name)}_int{integrate}_l{layers}"
                result = attempt(lambda: fs.myosin.read_myosin(frame, image_name, integrate=integrate, layers=layers))
                out[key] = {"result": result, "gt_after": gts(frame)}
        result = attempt(lambda: fs.myosin.read_myosin(frame, image_name, normalize=None, use_all=True))
        out[f"{os.path.basename(image_name)}_use_all"] = {"result": result, "gt_after": gts(frame)}
    # grey pictures of the size of the segmentation, through a file (read_myosin) and directly
    folder = tempfile.mkdtemp()
    try:
        for mode in ("L", "I;16", "F"):
            image = synthetic_image(mode, size=696, height=952)
            path = os.path.join(folder, "grey.tif")
            image.save(path)
            for integrate in (False, True):
                for layers in (0, 1, 2):
                    result = attempt(lambda: fs.myosin.read_myosin(frame, path, integrate=integrate, layers=layers))
                    out[f"grey_{mode}_int{integrate}_l{layers}"] = {"result": result, "gt_after": gts(frame)}
            out[f"grey_{mode}_direct"] = intensities(fs, frame, frame.internal_big_edges, image, integrate=True,
                                                     normalize=None, layers=1)
            out[f"grey_{mode}_shifted"] = intensities(fs, frame, frame.internal_big_edges[::-1], image, integrate=True,
                                                      rescale=[0.5, 0.75], offset=[10, 20.5], layers=1)
        frame.filter_edges(method="SG")
        for integrate in (False, True):
            result = attempt(lambda: fs.myosin.read_myosin(frame, path, integrate=integrate, layers=1))
            out[f"filtered_int{integrate}"] = {"result": result, "gt_after": gts(frame)}
    finally:
        for name in os.listdir(folder):
            os.remove(os.path.join(folder, name))
        os.rmdir(folder)
    return out


SCENARIOS = [
    ("hex_tissues_in_synthetic_images", sc_hex_images),
    ("rescale_offset_and_helpers", sc_rescale_offset),
    ("experimental_tissue", sc_experimental),
]

if __name__ == "__main__":
    sys.exit(main(SCENARIOS))

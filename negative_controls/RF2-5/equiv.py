#!/usr/bin/env python
"""Differential test for RF2-5 (wkt.create_lattice: set of joined pairs, wrap-around index)

Usage:  python equiv5.py <tree_a> <tree_b>

Imports forsys from each tree in its own subprocess (PYTHONPATH=<tree>), runs the
same scenarios in both, and compares what a user can observe: exact equality for
structure, order, ids, types and messages; 1e-12 relative for floats.
Exit status 0 iff everything agrees.
"""
import json
import math
import os
import subprocess
import sys
import tempfile

REL_TOL = 1e-12

WORKER = r'''
import contextlib
import io
import json
import math
import os
import sys
import warnings

TREE, DATA_DIR, OUT_PATH = sys.argv[1:4]
warnings.simplefilter("ignore")

import numpy as np
import pandas as pd
import forsys as fs

assert os.path.abspath(fs.__file__).startswith(os.path.abspath(TREE) + os.sep), \
    "forsys imported from %s, expected it under %s" % (fs.__file__, TREE)

from forsys.vertex import Vertex
from forsys.edge import SmallEdge, BigEdge
from forsys.cell import Cell


# ---------------------------------------------------------------- encoding
def enc(x):
    if x is None or isinstance(x, str):
        return x
    if isinstance(x, (bool, np.bool_)):
        return bool(x)
    if isinstance(x, (int, np.integer)):
        return int(x)
    if isinstance(x, (float, np.floating)):
        return float(x)
    if isinstance(x, list):
        return [enc(i) for i in x]
    if isinstance(x, tuple):
        return {"tuple": [enc(i) for i in x]}
    if isinstance(x, np.ndarray):
        return {"ndarray": enc(x.tolist()), "dtype": str(x.dtype), "shape": list(x.shape)}
    if isinstance(x, (set, frozenset)):
        return {"set": sorted((enc(i) for i in x), key=repr)}
    if isinstance(x, dict):
        return {"dict": [[enc(k), enc(v)] for k, v in x.items()]}
    if isinstance(x, pd.DataFrame):
        return {"columns": [str(c) for c in x.columns],
                "index": enc(x.index.tolist()),
                "dtypes": [str(t) for t in x.dtypes],
                "rows": enc(x.values.tolist())}
    if isinstance(x, Vertex):
        return {"Vertex": enc(x.id)}
    if isinstance(x, SmallEdge):
        return {"SmallEdge": enc(x.id)}
    if isinstance(x, BigEdge):
        return {"BigEdge": enc(x.big_edge_id)}
    if isinstance(x, Cell):
        return {"Cell": enc(x.id)}
    return {"object": type(x).__name__, "repr": repr(x)}


def typed(x):
    return [type(x).__name__, enc(x)]


def attempt(fn, *args, **kwargs):
    """Run fn, record result or exception, and whatever it printed."""
    buf = io.StringIO()
    try:
        with contextlib.redirect_stdout(buf):
            result = fn(*args, **kwargs)
        return {"ok": enc(result), "stdout": buf.getvalue()}
    except BaseException as exc:  # noqa - we want every kind
        if isinstance(exc, (KeyboardInterrupt, SystemExit)):
            raise
        return {"exc": type(exc).__name__, "msg": str(exc), "stdout": buf.getvalue()}


# ---------------------------------------------------------------- snapshots
def snap_vertices(vertices):
    return [[enc(k), typed(v.id), typed(v.x), typed(v.y),
             enc(list(v.ownEdges)), enc(list(v.ownCells)), enc(list(v.own_big_edges))]
            for k, v in vertices.items()]


def snap_edges(edges):
    return [[enc(k), typed(e.id), enc(e.v1.id), enc(e.v2.id),
             [enc(w.id) for w in e.verticesArray], typed(e.tension), typed(e.gt),
             enc(getattr(e, "external", "<unset>"))]
            for k, e in edges.items()]


def snap_cells(cells):
    return [[enc(k), typed(c.id), [enc(v.id) for v in c.vertices], enc(c.is_border),
             typed(c.gt_pressure), typed(c.pressure), typed(c.center_x), typed(c.center_y),
             enc(c.neighbors), enc(c.center_method)]
            for k, c in cells.items()]


def snap_mesh(vertices, edges, cells):
    return {"vertices": snap_vertices(vertices), "edges": snap_edges(edges),
            "cells": snap_cells(cells)}


def identity_positions(items, pool):
    """for each item, the position in pool of the very same object (-1 if none)"""
    out = []
    for it in items:
        pos = -1
        for k, cand in enumerate(pool):
            if cand is it:
                pos = k
                break
        out.append(pos)
    return out


def snap_frame(frame, with_tables=True):
    res = {}
    res["attributes"] = list(vars(frame).keys())
    res["attribute_types"] = [type(v).__name__ for v in vars(frame).values()]
    res["big_edges_list"] = typed(frame.big_edges_list)
    res["big_edges_list_item_types"] = [[type(e).__name__] + sorted(set(type(i).__name__ for i in e))
                                        for e in frame.big_edges_list]
    res["big_edges"] = [[enc(k), enc(b.big_edge_id), [enc(v.id) for v in b.vertices],
                         enc(b.xs), enc(b.ys), enc(b.edges), enc(b.own_cells),
                         typed(b.external), typed(b.gt), typed(b.tension)]
                        for k, b in frame.big_edges.items()]
    res["external_edges_id"] = typed(frame.external_edges_id)
    res["internal_big_edges_vertices"] = typed(frame.internal_big_edges_vertices)
    res["internal_big_edges_vertices_same_objects"] = identity_positions(
        frame.internal_big_edges_vertices, frame.big_edges_list)
    res["internal_big_edges"] = typed(frame.internal_big_edges)
    res["internal_big_edges_same_objects"] = identity_positions(
        frame.internal_big_edges, list(frame.big_edges.values()))
    res["border_vertices"] = typed(frame.border_vertices)
    res["get_external_edges_ids"] = typed(frame.get_external_edges_ids())
    res["get_big_edges_False"] = typed(frame.get_big_edges(False))
    res["mesh"] = snap_mesh(frame.vertices, frame.edges, frame.cells)
    if with_tables:
        res["get_tensions"] = attempt(frame.get_tensions)
        res["get_tensions_border"] = attempt(frame.get_tensions, with_border=True)
        res["get_gt_tensions"] = attempt(frame.get_gt_tensions)
        res["get_pressures"] = attempt(frame.get_pressures)
        res["get_cell_properties_df"] = attempt(frame.get_cell_properties_df, "none")
        res["get_edges_props_df"] = attempt(frame.get_edges_props_df)
    return res


def solve_frames(frames, when=0, pressure=True, **build_kwargs):
    """Full inference on one time point; returns tables."""
    def go():
        fsys = fs.ForSys(frames, cm=False)
        fsys.build_force_matrix(when=when, **build_kwargs)
        fsys.solve_stress(when=when, allow_negatives=False)
        out = {"tensions": enc(fsys.frames[when].get_tensions(with_border=True)),
               "forces": enc(fsys.forces[when])}
        if pressure:
            fsys.build_pressure_matrix(when=when)
            fsys.solve_pressure(when=when, method="lagrange_pressure")
            out["pressures"] = enc(fsys.frames[when].get_pressures())
        return out
    buf = io.StringIO()
    try:
        with contextlib.redirect_stdout(buf):
            return {"ok": go()}
    except Exception as exc:
        return {"exc": type(exc).__name__, "msg": str(exc)}


# ---------------------------------------------------------------- synthetic tissues
def honeycomb_polygons(nx, ny, sub=2, bump=0.08):
    """
    Polygons (lists of point keys) of an nx x ny honeycomb whose sides carry `sub`
    intermediate points, bent by `bump` so that interfaces are curved.
    Returns (points, polygons): points maps key -> (x, y) in creation order and
    every polygon is a counter-clockwise list of keys starting at a corner.
    """
    points = {}
    polygons = []

    def key_of(x, y):
        return (round(x, 6), round(y, 6))

    for r in range(ny):
        for q in range(nx):
            cx = math.sqrt(3.0) * (q + 0.5 * (r % 2))
            cy = 1.5 * r
            corners = [(cx + math.cos(math.radians(60 * k + 30)),
                        cy + math.sin(math.radians(60 * k + 30))) for k in range(6)]
            poly = []
            for k in range(6):
                a = corners[k]
                b = corners[(k + 1) % 6]
                ka = key_of(*a)
                points.setdefault(ka, a)
                poly.append(ka)
                # canonical direction so both neighbours bend the side the same way
                lo, hi = (a, b) if key_of(*a) < key_of(*b) else (b, a)
                nxn, nyn = -(hi[1] - lo[1]), (hi[0] - lo[0])
                for s in range(1, sub + 1):
                    t = s / (sub + 1.0)
                    px = a[0] + (b[0] - a[0]) * t
                    py = a[1] + (b[1] - a[1]) * t
                    kp = key_of(px, py)
                    amp = bump * math.sin(math.pi * t)
                    points.setdefault(kp, (px + amp * nxn, py + amp * nyn))
                    poly.append(kp)
            polygons.append(poly)
    return points, polygons


def build_tissue(points, polygons, scale=1.0, ox=0.0, oy=0.0,
                 vid_of=lambda k: k, eid_of=lambda k: k, cid_of=lambda k: k,
                 clockwise=(), start_shift=None, center_method="dlite"):
    """
    Build forsys objects from keyed polygons.
    clockwise: positions of the cells stored clockwise; start_shift: {cell position: n}
    rotates the stored vertex list so that it starts n places later.
    """
    start_shift = start_shift or {}
    vertices = {}
    key_to_vid = {}
    for n, (k, (x, y)) in enumerate(points.items()):
        vid = vid_of(n)
        key_to_vid[k] = vid
        vertices[vid] = Vertex(vid, ox + scale * x, oy + scale * y)
    edges = {}
    seen = set()
    counter = 0
    for poly in polygons:
        for a, b in zip(poly, poly[1:] + poly[:1]):
            pair = frozenset((a, b))
            if pair in seen or a == b:
                continue
            seen.add(pair)
            eid = eid_of(counter)
            counter += 1
            edges[eid] = SmallEdge(eid, vertices[key_to_vid[a]], vertices[key_to_vid[b]])
    cells = {}
    for n, poly in enumerate(polygons):
        vids = [key_to_vid[k] for k in poly]
        shift = start_shift.get(n, 0)
        vids = vids[shift:] + vids[:shift]
        if n in clockwise:
            vids = vids[::-1]
        cid = cid_of(n)
        cells[cid] = Cell(cid, [vertices[v] for v in vids], center_method=center_method)
    return vertices, edges, cells


TISSUE_VARIANTS = [
    # name, honeycomb args, build args
    ("plain_3x3_sub2", dict(nx=3, ny=3, sub=2), dict()),
    ("gaps_in_ids", dict(nx=3, ny=3, sub=3),
     dict(vid_of=lambda k: 3 * k + 5, eid_of=lambda k: 2 * k + 1, cid_of=lambda k: 4 * k)),
    ("clockwise_cells", dict(nx=4, ny=3, sub=2), dict(clockwise=(0, 3, 4, 7, 10))),
    ("all_clockwise", dict(nx=3, ny=3, sub=1), dict(clockwise=tuple(range(9)))),
    ("start_off_junction", dict(nx=3, ny=3, sub=3),
     dict(start_shift={0: 1, 2: 2, 4: 3, 5: 7, 8: 13}, clockwise=(2, 5))),
    ("negative_coordinates", dict(nx=3, ny=4, sub=2), dict(ox=-250.5, oy=-1000.25, scale=7.5)),
    ("tiny_coordinates", dict(nx=3, ny=3, sub=2), dict(scale=1e-6, ox=-2e-6, oy=3e-6)),
    ("two_point_interfaces", dict(nx=4, ny=4, sub=0), dict()),
    ("long_interfaces", dict(nx=3, ny=3, sub=7), dict(cid_of=lambda k: 10 - k)),
    ("reversed_vertex_ids", dict(nx=3, ny=3, sub=2), dict(vid_of=lambda k: 500 - k)),
]


def make_tissue(name):
    for n, hargs, bargs in TISSUE_VARIANTS:
        if n == name:
            points, polygons = honeycomb_polygons(**hargs)
            return build_tissue(points, polygons, **bargs)
    raise KeyError(name)


def tissue_names():
    return [n for n, _, _ in TISSUE_VARIANTS]


def load_se(relpath):
    se = fs.surface_evolver.SurfaceEvolver(os.path.join(DATA_DIR, relpath))
    return se.vertices, se.edges, se.cells


def load_skeleton(relpath, **kwargs):
    sk = fs.skeleton.Skeleton(os.path.join(DATA_DIR, relpath), mirror_y=kwargs.pop("mirror_y", False))
    return sk.create_lattice(**kwargs)


RESULTS = {}


def finish():
    with open(OUT_PATH, "w") as f:
        json.dump(RESULTS, f)


# ---- scenarios for RF2-5: wkt.create_lattice (set of joined pairs, wrap-around index)
def rows_from(points, polygons, scale=1.0, ox=0.0, oy=0.0, clockwise=(), start_shift=None, fmt=repr):
    start_shift = start_shift or {}
    rows = []
    for n, poly in enumerate(polygons):
        shift = start_shift.get(n, 0)
        keys = poly[shift:] + poly[:shift]
        if n in clockwise:
            keys = keys[::-1]
        keys = keys + keys[:1]          # WKT rings repeat the first point at the end
        text = ", ".join("%s %s" % (fmt(ox + scale * points[k][0]), fmt(oy + scale * points[k][1])) for k in keys)
        rows.append("POLYGON ((" + text + "))")
    return rows


def lattice_report(rows):
    buf = io.StringIO()
    rep = {}
    try:
        with contextlib.redirect_stdout(buf):
            v, e, c = fs.wkt.create_lattice(rows)
        rep["mesh"] = snap_mesh(v, e, c)
        rep["container_types"] = [type(v).__name__, type(e).__name__, type(c).__name__]
        rep["create_wkt"] = attempt(fs.wkt.create_wkt, c)
        result = (v, e, c)
    except Exception as exc:
        rep["exc"] = type(exc).__name__
        rep["msg"] = str(exc)
        result = None
    rep["stdout"] = buf.getvalue()
    return rep, result


VARIANTS = [
    ("plain", dict(nx=3, ny=3, sub=2), dict(scale=20.0, ox=100.0, oy=100.0)),
    ("clockwise", dict(nx=4, ny=3, sub=2), dict(scale=15.0, ox=50.0, oy=60.0, clockwise=(0, 3, 4, 7, 10))),
    ("all_clockwise", dict(nx=3, ny=3, sub=1), dict(scale=10.0, ox=5.0, oy=5.0, clockwise=tuple(range(9)))),
    ("shifted_start", dict(nx=3, ny=3, sub=3), dict(scale=25.0, ox=30.0, oy=40.0,
                                                    start_shift={0: 1, 2: 2, 4: 3, 5: 7, 8: 13}, clockwise=(2, 5))),
    ("negative", dict(nx=3, ny=4, sub=2), dict(scale=7.5, ox=-250.5, oy=-1000.25)),
    ("tiny", dict(nx=3, ny=3, sub=2), dict(scale=1e-6, ox=-2e-6, oy=3e-6)),
    ("two_point_interfaces", dict(nx=4, ny=4, sub=0), dict(scale=30.0, ox=10.0, oy=10.0)),
    ("long_interfaces", dict(nx=2, ny=3, sub=7), dict(scale=40.0)),
    ("rounded_text", dict(nx=3, ny=3, sub=2), dict(scale=20.0, ox=100.0, oy=100.0, fmt=lambda x: "%.3f" % x)),
    ("integer_text", dict(nx=3, ny=2, sub=0), dict(scale=100.0, ox=200.0, oy=200.0, fmt=lambda x: "%d" % round(x))),
]

for name, hargs, rargs in VARIANTS:
    points, polygons = honeycomb_polygons(**hargs)
    rows = rows_from(points, polygons, **rargs)
    rep, result = lattice_report(rows)
    RESULTS["lattice/" + name] = rep
    RESULTS["lattice_from_tuple/" + name], _ = lattice_report(tuple(rows))
    if result is None:
        continue
    v, e, c = result
    RESULTS["frame/" + name] = attempt(lambda: snap_frame(fs.frames.Frame(0, v, e, c), with_tables=False))
    if name in ("plain", "clockwise", "shifted_start"):
        RESULTS["solve/" + name] = solve_frames({0: fs.frames.Frame(0, v, e, c)}, pressure=False)
    # round trip through create_wkt
    text = fs.wkt.create_wkt(c)
    RESULTS["round_trip/" + name], _ = lattice_report([r for r in text.split("\n") if r])
    # mesh built on the lattice
    def meshed():
        v2, e2, c2 = fs.wkt.create_lattice(rows)
        v2, e2, c2, arr = fs.virtual_edges.generate_mesh(v2, e2, c2, ne=4)
        return {"mesh": snap_mesh(v2, e2, c2), "arr": arr}
    RESULTS["meshed/" + name] = attempt(meshed)

# hand-written rows, including degenerate rings
HAND = {
    "single_triangle": ["POLYGON ((0 0, 4 0, 2 3, 0 0))"],
    "single_triangle_clockwise": ["POLYGON ((0 0, 2 3, 4 0, 0 0))"],
    "two_squares_sharing_a_side": ["POLYGON ((0 0, 10 0, 10 10, 0 10, 0 0))",
                                   "POLYGON ((10 0, 20 0, 20 10, 10 10, 10 0))"],
    "two_squares_same_direction_on_shared_side": ["POLYGON ((0 0, 10 0, 10 10, 0 10, 0 0))",
                                                  "POLYGON ((10 0, 10 10, 20 10, 20 0, 10 0))"],
    "same_polygon_twice": ["POLYGON ((0 0, 10 0, 10 10, 0 10, 0 0))",
                           "POLYGON ((0 0, 10 0, 10 10, 0 10, 0 0))"],
    "same_polygon_reversed": ["POLYGON ((0 0, 10 0, 10 10, 0 10, 0 0))",
                              "POLYGON ((0 0, 0 10, 10 10, 10 0, 0 0))"],
    "ring_of_two_points": ["POLYGON ((0 0, 5 7, 0 0))"],
    "ring_of_one_point": ["POLYGON ((5 5, 5 5))"],
    "ring_without_closing_point": ["POLYGON ((0 0, 4 0, 2 3))"],
    "figure_eight": ["POLYGON ((0 0, 4 4, 8 0, 8 8, 4 4, 0 8, 0 0))"],
    "point_repeated_in_a_row": ["POLYGON ((0 0, 4 0, 4 0, 2 3, 0 0))"],
    "negative_and_fractional": ["POLYGON ((-3.5 -2.25, 4.125 -2.25, 0.5 1030.75, -3.5 -2.25))",
                                "POLYGON ((4.125 -2.25, -3.5 -2.25, 0.25 -9.5, 4.125 -2.25))"],
    "no_rows": [],
    "not_a_polygon": ["LINESTRING (0 0, 1 1)"],
    "three_around_a_point": ["POLYGON ((0 0, 10 0, 10 10, 5 12, 0 10, 0 0))",
                             "POLYGON ((10 10, 20 14, 12 22, 5 12, 10 10))",
                             "POLYGON ((0 10, 5 12, 12 22, -4 20, 0 10))"],
}
for label, rows in HAND.items():
    RESULTS["hand/" + label], result = lattice_report(rows)
    if result is not None and label in ("two_squares_sharing_a_side", "three_around_a_point",
                                        "two_squares_same_direction_on_shared_side"):
        v, e, c = result
        RESULTS["hand_frame/" + label] = attempt(lambda: snap_frame(fs.frames.Frame(0, v, e, c), with_tables=False))

# a generator of rows instead of a list, and the same rows parsed twice
points, polygons = honeycomb_polygons(2, 2, sub=1)
rows = rows_from(points, polygons, scale=12.0, ox=3.0, oy=4.0)
RESULTS["generator"], _ = lattice_report(r for r in rows)
first, _ = lattice_report(rows)
second, _ = lattice_report(rows)
RESULTS["parsed_twice"] = [first, second]

finish()

'''


def run_tree(tree, data_dir, workdir, tag):
    tree = os.path.abspath(tree)
    script = os.path.join(workdir, "worker_%s.py" % tag)
    out = os.path.join(workdir, "out_%s.json" % tag)
    with open(script, "w") as f:
        f.write(WORKER)
    env = dict(os.environ)
    env["PYTHONPATH"] = tree
    env["PYTHONHASHSEED"] = "0"
    env["PYTHONDONTWRITEBYTECODE"] = "1"
    env["MPLBACKEND"] = "Agg"
    proc = subprocess.run([sys.executable, script, tree, data_dir, out],
                          env=env, cwd=workdir, stdout=subprocess.PIPE,
                          stderr=subprocess.STDOUT, text=True)
    if proc.returncode != 0:
        print("worker failed for tree %s (exit %d):" % (tree, proc.returncode))
        print(proc.stdout[-4000:])
        sys.exit(2)
    with open(out) as f:
        return json.load(f)


def is_number(x):
    return isinstance(x, (int, float)) and not isinstance(x, bool)


def compare(a, b, path, problems):
    if len(problems) > 25:
        return
    if is_number(a) and is_number(b):
        if isinstance(a, int) and isinstance(b, int):
            if a != b:
                problems.append("%s: %r != %r" % (path, a, b))
            return
        if isinstance(a, int) != isinstance(b, int):
            problems.append("%s: int/float kind differs: %r vs %r" % (path, a, b))
            return
        if math.isnan(a) or math.isnan(b):
            if not (math.isnan(a) and math.isnan(b)):
                problems.append("%s: %r != %r" % (path, a, b))
            return
        if a == b:
            return
        if math.isinf(a) or math.isinf(b) or abs(a - b) > REL_TOL * max(abs(a), abs(b)):
            problems.append("%s: %r != %r" % (path, a, b))
        return
    if type(a) != type(b):
        problems.append("%s: type %s vs %s (%r vs %r)" % (path, type(a).__name__, type(b).__name__, a, b))
        return
    if isinstance(a, list):
        if len(a) != len(b):
            problems.append("%s: length %d vs %d" % (path, len(a), len(b)))
            return
        for k, (x, y) in enumerate(zip(a, b)):
            compare(x, y, "%s[%d]" % (path, k), problems)
        return
    if isinstance(a, dict):
        if list(a.keys()) != list(b.keys()):
            only_a = [k for k in a if k not in b]
            only_b = [k for k in b if k not in a]
            if only_a or only_b:
                problems.append("%s: keys only in first %r, only in second %r" % (path, only_a[:10], only_b[:10]))
            else:
                problems.append("%s: same keys in a different order: %r vs %r"
                                % (path, list(a.keys())[:10], list(b.keys())[:10]))
            return
        for k in a:
            compare(a[k], b[k], "%s.%s" % (path, k), problems)
        return
    if a != b:
        problems.append("%s: %r != %r" % (path, a, b))


def count_leaves(x):
    if isinstance(x, list):
        return sum(count_leaves(i) for i in x)
    if isinstance(x, dict):
        return sum(count_leaves(i) for i in x.values())
    return 1


def main():
    if len(sys.argv) != 3:
        print(__doc__)
        sys.exit(2)
    tree_a, tree_b = sys.argv[1], sys.argv[2]
    data_dir = os.path.join(os.path.abspath(tree_a), "tests", "data")
    if not os.path.isdir(data_dir):
        data_dir = os.path.join(os.path.abspath(tree_b), "tests", "data")
    with tempfile.TemporaryDirectory() as workdir:
        res_a = run_tree(tree_a, data_dir, workdir, "a")
        res_b = run_tree(tree_b, data_dir, workdir, "b")
    problems = []
    compare(res_a, res_b, "result", problems)
    names = list(res_a.keys())
    print("scenarios: %d, compared values: %d" % (len(names), count_leaves(res_a)))
    if problems:
        print("DIFFERENT:")
        for p in problems:
            print("  " + p)
        sys.exit(1)
    print("EQUIVALENT")
    sys.exit(0)


if __name__ == "__main__":
    main()

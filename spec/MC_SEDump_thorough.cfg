SPECIFICATION Spec
CONSTANT TFull <- TFullEnv
CONSTANT TList <- TListEnv
INVARIANT PremiseHolds
INVARIANT LineMachineOK
INVARIANT SectionFinderOK
INVARIANT ImplSatisfiesD
INVARIANT KFExactlyWhenTriggered
INVARIANT ImplHasNoDrift
INVARIANT Emit
CHECK_DEADLOCK FALSE

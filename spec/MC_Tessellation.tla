--------------------------- MODULE MC_Tessellation ---------------------------
(***************************************************************************)
(* Bounded-exhaustive model check of the lattice construction (C19).       *)
(* TLC enumerates abstract Voronoi outputs:                                *)
(*   patches (square grids of 1x2 .. 3x3 regions, hexagon patches, an      *)
(*   irregular fan with a pentagon, regions touching in one corner only,   *)
(*   isolated regions), each axis-aligned, rotated (no vertical ridge) or  *)
(*   transposed, always together with an empty and two unbounded regions,  *)
(*   x the order in which SciPy lists the regions (all permutations, or a  *)
(*     fixed handful for the larger patches)                               *)
(*   x the corner each region's cycle starts at                            *)
(*   x the rotational sense of each region's cycle (SciPy's is arbitrary)  *)
(*   x the distance cut-off,                                               *)
(* runs the implementation-shaped walk I (ImplLattice) and checks I => D   *)
(* (C19Verdict), that I raises exactly on the known-finding instances, and *)
(* that I with a line_eq that does not raise satisfies D everywhere.       *)
(* Every leaf is printed (`EJ {json}`) and executed on the real code.      *)
(***************************************************************************)
EXTENDS Tessellation, TLC, Json

CONSTANT Scope          \* "quick" | "thorough"
VARIABLES job, perm, ust, cut, order, rest, env, lat, fix
vars == <<job, perm, ust, cut, order, rest, env, lat, fix>>

LOCAL Rn(s) == {s[i] : i \in DOMAIN s}
U == 1000   \* one length unit in milli-units

(* ------------------------------ geometry ------------------------------ *)
Sq(i, j)  == << <<i, j>>, <<i + 1, j>>, <<i + 1, j + 1>>, <<i, j + 1>> >>
\* pointy-top hexagon (two vertical sides) around (cx, cy); tiles with offsets (4, 0) and (2, 3)
Hx(cx, cy) == << <<cx + 2, cy - 1>>, <<cx + 2, cy + 1>>, <<cx, cy + 2>>, <<cx - 2, cy + 1>>, <<cx - 2, cy - 1>>, <<cx, cy - 2>> >>

RECURSIVE Cat(_, _)
Cat(ss, i) == IF i > Len(ss) THEN <<>> ELSE ss[i] \o Cat(ss, i + 1)

SqGrid(nx, ny) == Cat([j \in 1..ny |-> [i \in 1..nx |-> Sq(i - 1, j - 1)]], 1)

Polys(name) ==
  CASE name = "sq21"  -> SqGrid(2, 1)
    [] name = "sq22"  -> SqGrid(2, 2)
    [] name = "sq32"  -> SqGrid(3, 2)
    [] name = "sq33"  -> SqGrid(3, 3)
    [] name = "hex2"  -> <<Hx(0, 0), Hx(4, 0)>>
    [] name = "hex3"  -> <<Hx(0, 0), Hx(4, 0), Hx(2, 3)>>
    [] name = "hex7"  -> <<Hx(0, 0), Hx(4, 0), Hx(2, 3), Hx(-2, 3), Hx(-4, 0), Hx(-2, -3), Hx(2, -3)>>
    \* three triangles and a quadrilateral around (0,0) and a pentagon on the side (3,-1)-(2,2); all convex
    [] name = "irr5"  -> << << <<0, 0>>, <<3, -1>>, <<2, 2>> >>,
                            << <<0, 0>>, <<2, 2>>, <<-2, 3>> >>,
                            << <<0, 0>>, <<-2, 3>>, <<-3, -2>> >>,
                            << <<0, 0>>, <<-3, -2>>, <<1, -3>>, <<3, -1>> >>,
                            << <<3, -1>>, <<5, 0>>, <<6, 3>>, <<4, 4>>, <<2, 2>> >> >>
    [] name = "diag2" -> <<Sq(0, 0), Sq(1, 1)>>       \* touch in one corner, no common ridge
    [] name = "iso2"  -> <<Sq(0, 0), Sq(3, 0)>>       \* nothing in common

\* tf: "id" axis-aligned; "rot" = rotation by atan(1/2) and scaling by sqrt 5 (no vertical ridge in any patch);
\*     "swap" = transposition (hexagons become flat-topped; reverses the sense of every region)
\* every image is shifted by (0.137, -0.461): no coordinate is a multiple of 0.01, all three decimals matter
Tf(tf, p) == CASE tf = "id"   -> <<p[1] * U + 137, p[2] * U - 461>>
               [] tf = "rot"  -> <<(2 * p[1] - p[2]) * U + 137, (p[1] + 2 * p[2]) * U - 461>>
               [] tf = "swap" -> <<p[2] * U + 137, p[1] * U - 461>>

Patch(name, tf) ==
  LET polys == Polys(name)
      tp    == [r \in DOMAIN polys |-> [i \in DOMAIN polys[r] |-> Tf(tf, polys[r][i])]]
      P     == Dedup(Cat(tp, 1), <<>>)
      Idx(p) == CHOOSE i \in DOMAIN P : P[i] = p
  IN  [name |-> name, tf |-> tf, P |-> P,
       R |-> [r \in DOMAIN tp |-> [i \in DOMAIN tp[r] |-> Idx(tp[r][i])]]]

(* ------------------------------- scopes -------------------------------- *)
\* perms: "all" | "few" | "one";  starts: "all" (independent per region) | "uni" (same offset everywhere, every
\* offset) | "uni2" (offsets 0 and 1);  cuts: cut-offs in milli-units
J(name, tf, perms, starts, cuts) == [name |-> name, tf |-> tf, perms |-> perms, starts |-> starts, cuts |-> cuts]
Inf == {INF_CUT}

QuickJobs ==
  { J("sq21", "id", "all", "all", Inf),   J("sq21", "rot", "all", "all", Inf),
    J("sq22", "id", "few", "uni", Inf),   J("sq22", "rot", "all", "uni2", Inf),
    J("sq33", "rot", "one", "uni2", Inf), J("sq32", "id", "one", "uni2", {INF_CUT, 1200}),
    J("hex2", "swap", "all", "all", Inf), J("hex2", "id", "few", "uni", Inf),
    J("hex3", "swap", "all", "uni", Inf), J("hex7", "rot", "one", "uni2", Inf),
    J("irr5", "id", "few", "uni2", {INF_CUT, 5500, 4500}),
    J("diag2", "rot", "all", "all", Inf), J("iso2", "rot", "all", "all", Inf) }

ThoroughJobs ==
  { J("sq21", "id", "all", "all", Inf),   J("sq21", "rot", "all", "all", Inf), J("sq21", "swap", "all", "all", Inf),
    J("sq22", "id", "all", "uni", Inf),   J("sq22", "rot", "all", "all", Inf),
    J("sq32", "rot", "few", "uni", Inf),
    J("sq33", "rot", "few", "uni", Inf),  J("sq33", "id", "few", "uni2", {INF_CUT, 1200}),
    J("hex2", "swap", "all", "all", Inf), J("hex2", "id", "all", "all", Inf), J("hex2", "rot", "all", "all", Inf),
    J("hex3", "swap", "all", "all", Inf), J("hex3", "rot", "all", "uni", Inf),
    J("hex7", "rot", "few", "uni", Inf),  J("hex7", "swap", "one", "uni", Inf),
    J("irr5", "id", "all", "uni2", {INF_CUT, 5500, 4500}), J("irr5", "swap", "few", "uni", {INF_CUT, 5500, 4500}),
    J("diag2", "rot", "all", "all", Inf), J("diag2", "id", "all", "all", Inf),
    J("iso2", "rot", "all", "all", {INF_CUT, 1000}) }

Jobs == IF Scope = "quick" THEN QuickJobs ELSE ThoroughJobs

Ident(n)   == [i \in 1..n |-> i]
OddEven(n) == SeqOfSetSorted({i \in 1..n : i % 2 = 1}) \o RevSeq(SeqOfSetSorted({i \in 1..n : i % 2 = 0}))
Shift(n)   == [i \in 1..n |-> ((i - 1 + n \div 2) % n) + 1]
PermsOf(j, n) == CASE j.perms = "all" -> {<<>>}          \* <<>> = free choice at every placement
                   [] j.perms = "one" -> {OddEven(n)}
                   [] j.perms = "few" -> {Ident(n), RevSeq(Ident(n)), OddEven(n), Shift(n)}
MaxLen(p) == CHOOSE k \in {Len(p.R[r]) : r \in DOMAIN p.R} : \A r \in DOMAIN p.R : Len(p.R[r]) <= k
UStarts(j, p) == CASE j.starts = "all"  -> {-1}           \* -1 = free choice at every placement
                   [] j.starts = "uni"  -> 0..(MaxLen(p) - 1)
                   [] j.starts = "uni2" -> {0, 1}

(* ----------------------------- enumeration ----------------------------- *)
NoLat == [raised |-> "none"]

Init == /\ \E j \in Jobs : LET p == Patch(j.name, j.tf) IN
             /\ job = [name |-> j.name, tf |-> j.tf, P |-> p.P, R |-> p.R]
             /\ perm \in PermsOf(j, Len(p.R))
             /\ ust \in UStarts(j, p)
             /\ cut \in j.cuts
             /\ rest = DOMAIN p.R
        /\ order = <<>> /\ env = NoEnv /\ lat = NoLat /\ fix = NoLat

\* region cycle as SciPy might list it: rotated by s, reversed when o = 1
Orient(cyc, o, s) == LET n == Len(cyc)
                         rot == [i \in 1..n |-> cyc[((i - 1 + s) % n) + 1]]
                     IN  IF o = 1 THEN RevSeq(rot) ELSE rot

Place == /\ rest # {} /\ env = NoEnv
         /\ \E r \in (IF perm = <<>> THEN rest ELSE {perm[Len(order) + 1]}) :
            \E o \in {0, 1} :
            \E s \in (IF ust = -1 THEN 0..(Len(job.R[r]) - 1) ELSE {ust % Len(job.R[r])}) :
               /\ order' = Append(order, Orient(job.R[r], o, s))
               /\ rest' = rest \ {r}
         /\ UNCHANGED <<job, perm, ust, cut, env, lat, fix>>

\* squared diameter fits 32 bits for the patches above (coordinates below 15000 milli-units)
Diam(P, reg) == IF Len(reg) = 0 \/ 0 \in Rn(reg) THEN 0
                ELSE LET d2 == {(P[a][1] - P[b][1]) * (P[a][1] - P[b][1]) + (P[a][2] - P[b][2]) * (P[a][2] - P[b][2]) :
                                  a \in Rn(reg), b \in Rn(reg)}
                     IN  ISqrt(CHOOSE d \in d2 : \A x \in d2 : x <= d)

\* SciPy's list always holds an empty region and the unbounded regions of the hull; they are skipped by the walk
MkEnv == LET n  == Len(order)
             h  == n \div 2
             nP == Len(job.P)
             R  == << <<>> >> \o SubSeq(order, 1, h) \o << <<2, 0, 1>> >> \o SubSeq(order, h + 1, n) \o << <<nP, 0>> >>
         IN  [P |-> job.P, res |-> [v \in 1..nP |-> <<0, 0>>], R |-> R,
              diam |-> [r \in DOMAIN R |-> Diam(job.P, R[r])], cut |-> cut]

Run == /\ rest = {} /\ env = NoEnv
       /\ LET e == MkEnv
              w == ImplLattice(e)
          IN  /\ env' = e /\ lat' = w
              \* the same walk with a line_eq that does not raise (identical to w when w did not raise)
              /\ fix' = IF w.raised = "" THEN w ELSE ImplLatticeP(e, FALSE)
       /\ UNCHANGED <<job, perm, ust, cut, order, rest>>

Next == Place \/ Run
Spec == Init /\ [][Next]_vars

Leaf == env # NoEnv

(* ------------------------------ invariants ------------------------------ *)
\* the enumerated inputs satisfy the premise of the oracle (otherwise the scope would be hollow)
EnvInPremise == Leaf => ~EnvMalformed(env) /\ RejectReasons(env) = {}
\* I => D, except on the instances matched by the known finding
ImplSatisfiesD == Leaf => C19Verdict(env, lat) = {}
\* the known finding is exactly "some region to be kept has a vertical ridge"
\* with the repaired line_eq (LineEqRaises = FALSE) the walk never raises; with the historical one it raised exactly on vertical ridges
DefectIsVerticalRidge == Leaf => ((lat.raised # "") <=> (LineEqRaises /\ HasVerticalRidge(env)))
                                 /\ (lat.raised # "" => C19KF(env, lat) # {})
\* with a line_eq that does not raise, the same walk satisfies D on every instance (the proposed repair suffices)
RepairedImplSatisfiesD == Leaf => fix.raised = "" /\ C19Verdict(env, fix) = {}
\* incidental fact of I (not demanded by D): every cell is stored counter-clockwise
ImplStoresCCW == Leaf /\ lat.raised = "" => \A c \in Ce(lat.mesh) : Sense(CellPos(lat.mesh, c)) = 1

Emit == Leaf => PrintT("EJ " \o ToJson([name |-> job.name, tf |-> job.tf, P |-> env.P, R |-> env.R,
                                        diam |-> env.diam, cut |-> env.cut,
                                        nkept |-> Cardinality(Kept(env)), vertical |-> HasVerticalRidge(env)]))

\* the two exact routes of Sense agree, reversal flips the sense, no patch region is degenerate
SenseRoutesAgree == order = <<>> => \A r \in DOMAIN job.R :
                      LET pc == [i \in DOMAIN job.R[r] |-> job.P[job.R[r][i]]] IN
                      /\ Sense(pc) = SenseLimbs(pc) /\ Sense(pc) # 0
                      /\ Sense(RevSeq(pc)) = -Sense(pc) /\ SenseLimbs(RevSeq(pc)) = -Sense(pc)

KnownFindingReachable == Leaf => C19KF(env, lat) = {}   \* expected to be VIOLATED (vacuity guard, not in the cfg)
=============================================================================

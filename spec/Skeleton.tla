------------------------------ MODULE Skeleton ------------------------------
(***************************************************************************)
(* C15 -- outcome specification of parsing a skeleton image.               *)
(*                                                                         *)
(* TLC does not model OpenCV. The specification states WHAT the parsed     *)
(* mesh must be, as a predicate over                                       *)
(*   t : the truth about the image, raw numbers logged by an independent   *)
(*       image analysis (harness/imgtopo.py: 4-connected background        *)
(*       components, junction clusters, pixel chains) and                  *)
(*   m : the projected mesh (Mesh.tla record) after create_lattice or      *)
(*       after generate_mesh, with per cell                                *)
(*         cover[c]  = the region labels that lie within two pixels of     *)
(*                     EVERY vertex of cell c (sequence; the region a cell *)
(*                     encloses is adjacent to all of its contour pixels), *)
(*         border[c] = Cell.is_border.                                     *)
(*                                                                         *)
(* Truth record t:                                                         *)
(*   t.frame_white, t.ring2_black   outermost ring all skeleton, next ring *)
(*                                  all background                         *)
(*   t.ncomp      number of 8-connected skeleton components                *)
(*   t.hist       <<code, count>> : 8-neighbourhood codes of all skeleton  *)
(*                pixels (bit k = k-th neighbour, order E NE N NW W SW S SE)*)
(*   t.nreg, t.area[r], t.outside   4-connected background regions 1..nreg,*)
(*                their pixel counts, those touching the image border      *)
(*   t.csize[k]   junction clusters (8-connected groups of skeleton pixels *)
(*                with >= 3 skeleton neighbours): number of pixels         *)
(*   t.lines[i]   pixel chains between clusters: .regs (regions seen from  *)
(*                the chain), .ends (clusters it touches), .len (pixels)   *)
(*   t.first      walk used only by the known-finding matcher              *)
(***************************************************************************)
EXTENDS Interfaces

LOCAL Rg(s) == {s[i] : i \in DOMAIN s}

(***************************************************************************)
(* Pixel neighbourhoods. A code is an integer 0..255.                      *)
(***************************************************************************)
Pow2 == <<1, 2, 4, 8, 16, 32, 64, 128>>
Bit(code, k) == (code \div Pow2[(k % 8) + 1]) % 2
NBit(code, k) == 1 - Bit(code, k)
Pop(code) == Bit(code, 0) + Bit(code, 1) + Bit(code, 2) + Bit(code, 3)
           + Bit(code, 4) + Bit(code, 5) + Bit(code, 6) + Bit(code, 7)
\* Yokoi's 8-connectivity number: 1 <=> deleting the centre changes neither the 8-connectivity of
\* the skeleton nor the 4-connectivity of the background in the neighbourhood (8-simple point, or end point)
YTerm(code, k) == NBit(code, k) - NBit(code, k) * NBit(code, k + 1) * NBit(code, k + 2)
Yokoi(code) == YTerm(code, 0) + YTerm(code, 2) + YTerm(code, 4) + YTerm(code, 6)
\* the centre lies in a 2x2 block of skeleton pixels
Block(code) == \E k \in {0, 2, 4, 6} : Bit(code, k) = 1 /\ Bit(code, k + 1) = 1 /\ Bit(code, k + 2) = 1
\* the spec's notion of "minimal": no pixel can be deleted without changing the topology
Deletable(code) == Yokoi(code) = 1 \/ Pop(code) = 0
MinimalCode(code) == ~Deletable(code) /\ ~Block(code) /\ Pop(code) >= 2

(***************************************************************************)
(* Truth derived from t                                                    *)
(***************************************************************************)
Outside(t)  == Rg(t.outside)
Enclosed(t) == (1..t.nreg) \ Outside(t)
NClusters(t) == Len(t.csize)
LineRegs(t, i) == Rg(t.lines[i].regs)
LineEnds(t, i) == Rg(t.lines[i].ends)
ClusterLines(t, k) == {i \in DOMAIN t.lines : k \in LineEnds(t, i)}
ClusterRegs(t, k)  == UNION {LineRegs(t, i) : i \in ClusterLines(t, k)}
\* an interior junction: every region meeting there is enclosed
InteriorCluster(t, k) == ClusterRegs(t, k) \subseteq Enclosed(t)
\* regions that touch the outside: share a skeleton line with an outside region
BorderRegs(t) == {r \in Enclosed(t) : \E i \in DOMAIN t.lines :
                     r \in LineRegs(t, i) /\ LineRegs(t, i) \cap Outside(t) # {}}
\* pairs of enclosed regions with a common boundary line
AdjPairsT(t) == {LineRegs(t, i) : i \in {j \in DOMAIN t.lines : LineRegs(t, j) \subseteq Enclosed(t)}}
\* ... whose common boundary line ends in an interior junction
InternalPairsT(t) ==
  LET interior == {k \in 1..NClusters(t) : InteriorCluster(t, k)} IN
  {LineRegs(t, i) : i \in {j \in DOMAIN t.lines :
       LineRegs(t, j) \subseteq Enclosed(t) /\ LineEnds(t, j) \cap interior # {}}}

RECURSIVE SumSeq(_, _)
SumSeq(s, i) == IF i > Len(s) THEN 0 ELSE s[i] + SumSeq(s, i + 1)
EnclosedArea(t) == LET RECURSIVE F(_) F(S) == IF S = {} THEN 0 ELSE
                          LET r == CHOOSE x \in S : TRUE IN t.area[r] + F(S \ {r})
                   IN F(Enclosed(t))
MaxEnclosedArea(t) == IF Enclosed(t) = {} THEN 0 ELSE
                      LET r == CHOOSE x \in Enclosed(t) : \A y \in Enclosed(t) : t.area[y] <= t.area[x] IN t.area[r]

(***************************************************************************)
(* Premise of C15, as far as it can be read off the image. Returns the set *)
(* of premise parts that FAIL (empty = the image is inside the regime).    *)
(*  kind = "voronoi": the generated regime of the quantifier (4..60 cells, *)
(*         ridges > 8 px, 35..90 px per cell, junction angles > 25 deg,    *)
(*         three-way junctions);                                           *)
(*  kind = "junction" / "rooms": images emitted by the MC_* models;        *)
(*  kind = "shipped": the repository's own skeletons.                      *)
(* Readings committed to: "one-pixel-wide, 8-connected, minimal" = one     *)
(* component, no pixel is deletable, no 2x2 block, no end point, every     *)
(* pixel has 2 or 3 neighbours unless it is in a junction cluster, junction*)
(* clusters have <= 3 pixels and join exactly three lines and three        *)
(* regions (a cluster where four regions meet is two junctions fused into  *)
(* one: its pixels are not a minimal junction, and whether the two regions *)
(* that touch only through the cluster "share a boundary line" is not      *)
(* decidable from the image -- four of the seven shipped in-vivo frames    *)
(* contain one and are rejected input); "of a tissue" = every line         *)
(* separates two different regions and ends in junctions, the graph is     *)
(* planar-consistent (Euler), the tissue does not touch the frame, and no  *)
(* enclosed region is 4x larger than the mean of the others (such a region *)
(* is a gap, not a cell -- the parser drops regions above 5x by design).   *)
(***************************************************************************)
MaxCluster(kind) == 3
MinLine(kind)    == IF kind = "voronoi" THEN 9 ELSE IF kind = "shipped" THEN 1 ELSE 3

PremiseFails(t, kind, reg) ==
  LET n    == Cardinality(Enclosed(t))
      tot  == EnclosedArea(t)
      big  == MaxEnclosedArea(t)
      P == [c \in {"premise.frame", "premise.connected", "premise.minimal", "premise.width",
                   "premise.cluster", "premise.lines", "premise.euler", "premise.threeway",
                   "premise.ridge", "premise.cells", "premise.gap", "premise.regime"} |->
        CASE c = "premise.frame"     -> t.frame_white /\ t.ring2_black /\ Cardinality(Outside(t)) = 1
          [] c = "premise.connected" -> t.ncomp = 1
          [] c = "premise.minimal"   -> \A i \in DOMAIN t.hist : ~Deletable(t.hist[i][1]) /\ Pop(t.hist[i][1]) >= 2
          [] c = "premise.width"     -> \A i \in DOMAIN t.hist : ~Block(t.hist[i][1]) /\ Pop(t.hist[i][1]) <= 4
          [] c = "premise.cluster"   -> \A k \in DOMAIN t.csize : t.csize[k] <= MaxCluster(kind)
          [] c = "premise.lines"     -> \A i \in DOMAIN t.lines :
                                           /\ Len(t.lines[i].regs) = 2
                                           /\ Len(t.lines[i].ends) \in {1, 2}
          [] c = "premise.euler"     -> NClusters(t) - Len(t.lines) + t.nreg = 1 + t.ncomp
          [] c = "premise.threeway"  -> \A k \in DOMAIN t.csize : Cardinality(ClusterLines(t, k)) = 3
                                                                  /\ Cardinality(ClusterRegs(t, k)) = 3
          [] c = "premise.ridge"     -> \A i \in DOMAIN t.lines : t.lines[i].len >= MinLine(kind)
          [] c = "premise.cells"     -> n >= 1 /\ (kind = "voronoi" => n \in 4..60)
          [] c = "premise.gap"       -> n >= 2 => big * (n - 1) < 4 * (tot - big)
          [] c = "premise.regime"    -> kind = "voronoi" =>
                                           /\ tot >= 35 * 35 * n /\ tot <= 90 * 90 * n
                                           /\ reg.min_angle_mdeg > 25000]
  IN {c \in DOMAIN P : ~P[c]}

(***************************************************************************)
(* Cross-check of the image analysis against the model-side truth that     *)
(* MC_SkeletonRooms computes on the abstract layout (x = its Expect        *)
(* record; regions named by raster rank of their first room). A mismatch   *)
(* is a defect of the ORACLE (machinery failure), never a verdict about the *)
(* parser.                                                                 *)
(***************************************************************************)
\* rk[label] = rank of the region (0 = outside): looked up by the driver at the centre pixel of every room
RoomsOracleOK(t, x, rk) ==
  LET MapR(S) == {rk[r] : r \in S} IN
  /\ Len(rk) = t.nreg
  /\ x.ncells = Cardinality(Enclosed(t))
  /\ MapR(Enclosed(t)) = 1..x.ncells
  /\ Rg(x.border) = MapR(BorderRegs(t))
  /\ {Rg(x.adj[i]) : i \in DOMAIN x.adj} = {MapR(s) : s \in AdjPairsT(t)}
  /\ {Rg(x.internal[i]) : i \in DOMAIN x.internal} = {MapR(s) : s \in InternalPairsT(t)}
  /\ x.njunction = NClusters(t)

(***************************************************************************)
(* Outcome clauses                                                         *)
(***************************************************************************)
RegOf(cover, c) == IF Len(cover[c]) = 1 THEN cover[c][1] ELSE 0

CellCountOK(t, m) == m.nc = Cardinality(Enclosed(t))

\* cells <-> enclosed regions, one to one and onto
BijectionOK(t, m, cover) ==
  /\ \A c \in 1..m.nc : Len(cover[c]) = 1 /\ cover[c][1] \in Enclosed(t)
  /\ \A c, d \in 1..m.nc : c # d => RegOf(cover, c) # RegOf(cover, d)
  /\ {RegOf(cover, c) : c \in 1..m.nc} = Enclosed(t)

\* is_border <=> the cell's region touches the outside (judged on cells that have a region)
BorderOK(t, m, cover, border) ==
  LET br == BorderRegs(t) IN
  \A c \in 1..m.nc : RegOf(cover, c) \in Enclosed(t) => (border[c] <=> RegOf(cover, c) \in br)

\* region pairs separated by the interfaces ps of mesh m
PairsOf(m, cover, ps) == {{RegOf(cover, c) : c \in SepCells(m, p)} : p \in ps}
MeshInternalPairs(m, cover, paths) == PairsOf(m, cover, {p \in paths : InternalPath(m, p)})
MeshAdjPairs(m, cover, paths) == PairsOf(m, cover, {p \in paths : Cardinality(SepCells(m, p)) = 2})

InternalOK(t, m, cover, paths) == MeshInternalPairs(m, cover, paths) = InternalPairsT(t)

(***************************************************************************)
(* The tuple that must not depend on how the image is presented.           *)
(* perm[r] = label of region r in the base image (geometric correspondence *)
(* of the symmetry / translation, computed from the pixel map).            *)
(***************************************************************************)
MapPair(perm, s) == {IF r \in DOMAIN perm THEN perm[r] ELSE 0 : r \in s}
ReadingTuple(m, cover, paths, perm, consP, consR) ==
  [nc   |-> m.nc,
   adj  |-> {MapPair(perm, s) : s \in MeshAdjPairs(m, cover, paths)},
   nj   |-> Cardinality(Junctions(m)),
   consP |-> consP, consR |-> consR]

\* orientation of every cell, by base region (used for mirror_y: a reflection reverses all of them)
OrientSet(m, cover, perm, orient) ==
  {<<IF RegOf(cover, c) \in DOMAIN perm THEN perm[RegOf(cover, c)] ELSE 0, orient[c]>> : c \in 1..m.nc}
Negated(os) == {<<p[1], 0 - p[2]>> : p \in os}

(***************************************************************************)
(* Known finding (instance-level matcher).                                 *)
(*                                                                         *)
(* KF_StaleLastEdge: create_lattice keeps its last-created SmallEdge alive *)
(* in a local loop variable; when that edge is a side of an artefact       *)
(* triangle, the T3 transition deletes it from the edge table but its      *)
(* __del__ never runs, both end vertices keep the id, and the transition   *)
(* of the second end raises KeyError. Structure, from the image alone:     *)
(* the parser creates edges contour by contour; OpenCV lists holes in      *)
(* reverse raster order, so the LAST contour is the enclosed region R0     *)
(* that contains the first enclosed background pixel in raster order, its  *)
(* contour starts left of that pixel and runs clockwise. An edge of that   *)
(* contour is new iff it lies on the outer border or is R0's own side of a *)
(* three-pixel junction cluster. t.first.walk lists, from the start pixel  *)
(* BACKWARDS (counter-clockwise), the boundary elements of R0:             *)
(*   <<0, i>> for line i, <<1, k>> for cluster k.                          *)
(* The finding applies iff an interior three-pixel cluster is met before   *)
(* any border line.                                                        *)
(***************************************************************************)
StaleLastEdgeShape(t) ==
  /\ "first" \in DOMAIN t
  /\ LET w == t.first.walk
         BorderLine(j) == w[j][1] = 0 /\ LineRegs(t, w[j][2]) \cap Outside(t) # {}
     IN \E i \in DOMAIN w :
           /\ w[i][1] = 1 /\ t.csize[w[i][2]] = 3 /\ InteriorCluster(t, w[i][2])
           /\ \A j \in 1..(i - 1) : ~BorderLine(j)
KF_StaleLastEdge(t, exc) == exc = "KeyError" /\ StaleLastEdgeShape(t)
=============================================================================

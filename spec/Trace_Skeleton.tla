--------------------------- MODULE Trace_Skeleton ---------------------------
(***************************************************************************)
(* Trace validation for C15. One case = one image presented in several     *)
(* READINGS (the 8 symmetries of the square, padding / translation,        *)
(* mirror_y, ne = 3..9); the first reading of a case is the base.          *)
(* Events of one reading, in this order:                                   *)
(*   Env      kind, tf = [sym, pad, mirror], ne, truth (image analysis of  *)
(*            THIS presentation), perm (region label -> base label), reg   *)
(*   Parse    after Skeleton(...).create_lattice(): raised / exc, mesh,    *)
(*            cover, border, orient (sign of every cell's shoelace area)   *)
(*   Resample after generate_mesh(ne): raised, mesh, cover, border         *)
(*   Frame    after Frame(...): raised, f (project_frame)                  *)
(*   Sym      closes the reading: its tuple is compared with the base's    *)
(* A reading that raised stops after the raising event (then Sym).         *)
(***************************************************************************)
EXTENDS Skeleton, TraceKit

VARIABLES l, env, st, base
vars == <<l, env, st, base>>

NoEnv  == [kind |-> "none"]
NoSt   == [ok |-> FALSE, stage |-> "none", consP |-> {}, orient |-> {}, tuple |-> [nc |-> 0],
           ipairs |-> {}, cover |-> <<>>]
NoBase == [set |-> FALSE]

Init == l = 1 /\ env = NoEnv /\ st = NoSt /\ base = NoBase

Detail(prefix, S) == {prefix \o c : c \in S}

(* ------------------------------- Env ---------------------------------- *)
DoEnv(e) ==
  /\ e.ev = "Env"
  /\ \E prem \in {PremiseFails(e.truth, e.kind, e.reg)} :
     LET orac == IF "expect" \in DOMAIN e /\ ~RoomsOracleOK(e.truth, e.expect, e.rankmap) THEN {"oracle.rooms_mismatch"} ELSE {}
         hits == (IF prem = {} THEN {"C15.premise"} ELSE {}) \cup (IF "expect" \in DOMAIN e THEN {"oracle.rooms"} ELSE {})
     IN  /\ EmitV(e, {}, {}, hits, prem \cup orac, prem # {})
         /\ st' = [NoSt EXCEPT !.ok = (prem = {}), !.stage = "env"]
  /\ env' = e
  /\ base' = IF e.rd = 1 THEN NoBase ELSE base

(* ------------------------------ Parse --------------------------------- *)
StageFails(t, m, cover, border) ==
  {c \in {"C15.cell_count", "C15.cell_region_bijection", "C15.border_flags"} :
     \/ c = "C15.cell_count" /\ ~CellCountOK(t, m)
     \/ c = "C15.cell_region_bijection" /\ ~BijectionOK(t, m, cover)
     \/ c = "C15.border_flags" /\ ~BorderOK(t, m, cover, border)}

DoParse(e) ==
  /\ e.ev = "Parse"
  /\ IF ~st.ok \/ st.stage # "env"
     THEN /\ EmitV(e, {}, {}, {}, {}, FALSE)
          /\ st' = [st EXCEPT !.stage = "skip"]
     ELSE IF e.raised # ""
     THEN LET known == KF_StaleLastEdge(env.truth, e.exc) IN
          /\ EmitV(e, IF known THEN {} ELSE {"C15.raised"},
                      IF known THEN {"KF_StaleLastEdge:C15.raised"} ELSE {}, {"C15.raised"}, {}, FALSE)
          /\ st' = [st EXCEPT !.stage = "raised"]
     ELSE \* (bound by \E over a singleton: TLC evaluates each heavy operator exactly once)
          \E cons \in {Consistent(e.mesh)} :
          \E sf \in {StageFails(env.truth, e.mesh, e.cover, e.border)} :
          LET fails == (IF cons # {} THEN {"C15.consistent_parse"} ELSE {}) \cup sf
          IN  /\ EmitV(e, fails, {}, {"C15.consistent_parse", "C15.cell_count", "C15.cell_region_bijection",
                                      "C15.border_flags"}, Detail("detail.parse.", cons), FALSE)
              /\ st' = [st EXCEPT !.stage = "parsed", !.consP = cons,
                                  !.orient = OrientSet(e.mesh, e.cover, env.perm, e.orient)]
  /\ UNCHANGED <<env, base>>

(* ----------------------------- Resample ------------------------------- *)
DoResample(e) ==
  /\ e.ev = "Resample"
  /\ IF ~st.ok \/ st.stage # "parsed"
     THEN /\ EmitV(e, {}, {}, {}, {}, FALSE)
          /\ st' = [st EXCEPT !.stage = "skip"]
     ELSE IF e.raised # ""
     THEN /\ EmitV(e, {"C15.raised"}, {}, {"C15.raised"}, {}, FALSE)
          /\ st' = [st EXCEPT !.stage = "raised"]
     ELSE \E cons \in {Consistent(e.mesh)} :
          \E paths \in {IF cons = {} THEN Paths(e.mesh) ELSE {}} :
          \E ipairs \in {MeshInternalPairs(e.mesh, e.cover, paths)} :
          \E sf \in {StageFails(env.truth, e.mesh, e.cover, e.border)} :
          \E ipt \in {InternalPairsT(env.truth)} :
          LET intOK == cons # {} \/ ipairs = ipt
              fails == (IF cons # {} THEN {"C15.consistent_resampled"} ELSE {}) \cup sf
                       \cup (IF intOK THEN {} ELSE {"C15.internal_pairs"})
              hits  == {"C15.consistent_resampled", "C15.cell_count", "C15.cell_region_bijection",
                        "C15.border_flags"}
                       \cup (IF cons = {} THEN {"C15.internal_pairs"} ELSE {})
                       \cup (IF cons = {} /\ ipt # {} THEN {"C15.internal_pairs.nonempty"} ELSE {})
          IN  /\ EmitV(e, fails, {}, hits, Detail("detail.resample.", cons), FALSE)
              /\ st' = [st EXCEPT !.stage = "resampled",
                                  !.tuple = ReadingTuple(e.mesh, e.cover, paths, env.perm, st.consP, cons),
                                  !.ipairs = ipairs,
                                  !.cover = e.cover]
  /\ UNCHANGED <<env, base>>

(* ------------------------------- Frame -------------------------------- *)
\* drift only: the internal list Frame reports, as region pairs through own_cells
FramePairs(f, cover) == {{RegOf(cover, f.own_cells[f.internal[k]][j]) : j \in DOMAIN f.own_cells[f.internal[k]]}
                           : k \in DOMAIN f.internal}
DoFrame(e) ==
  /\ e.ev = "Frame"
  /\ IF ~st.ok \/ st.stage # "resampled"
     THEN /\ EmitV(e, {}, {}, {}, {}, FALSE)
          /\ st' = [st EXCEPT !.stage = "skip"]
     ELSE IF e.raised # ""
     THEN /\ EmitV(e, {"C15.frame_builds"}, {}, {"C15.frame_builds"}, {}, FALSE)
          /\ st' = [st EXCEPT !.stage = "raised"]
     ELSE LET drift == IF st.tuple.consR = {} /\ FramePairs(e.f, st.cover) # st.ipairs
                       THEN {"drift.frame_internal_pairs"} ELSE {}
          IN  /\ EmitV(e, {}, {}, {"C15.frame_builds"}, drift, FALSE)
              /\ st' = [st EXCEPT !.stage = "framed"]
  /\ UNCHANGED <<env, base>>

(* -------------------------------- Sym --------------------------------- *)
DoSym(e) ==
  /\ e.ev = "Sym"
  /\ IF ~st.ok \/ st.stage # "framed"
     THEN /\ EmitV(e, {}, {}, {}, {}, FALSE)
          /\ base' = base
     ELSE IF env.rd = 1
     THEN /\ EmitV(e, {}, {}, {}, {}, FALSE)
          /\ base' = [set |-> TRUE, tuple |-> st.tuple, orient |-> st.orient]
     ELSE IF ~base.set
     THEN /\ EmitV(e, {}, {}, {}, {}, FALSE)
          /\ base' = base
     ELSE LET mir   == env.tf.mirror /\ env.tf.sym = "id"
              fails == (IF st.tuple # base.tuple THEN {"C15.symmetry_invariant"} ELSE {})
                       \cup (IF mir /\ st.orient # Negated(base.orient) THEN {"C15.mirror_applied"} ELSE {})
              hits  == {"C15.symmetry_invariant"} \cup (IF mir THEN {"C15.mirror_applied"} ELSE {})
              drift == {d \in {"detail.sym.nc", "detail.sym.adj", "detail.sym.nj", "detail.sym.consP", "detail.sym.consR"} :
                          \/ d = "detail.sym.nc" /\ st.tuple.nc # base.tuple.nc
                          \/ d = "detail.sym.adj" /\ st.tuple.adj # base.tuple.adj
                          \/ d = "detail.sym.nj" /\ st.tuple.nj # base.tuple.nj
                          \/ d = "detail.sym.consP" /\ st.tuple.consP # base.tuple.consP
                          \/ d = "detail.sym.consR" /\ st.tuple.consR # base.tuple.consR}
          IN  /\ EmitV(e, fails, {}, hits, drift, FALSE)
              /\ base' = base
  /\ st' = NoSt
  /\ UNCHANGED env

Next == /\ l <= Len(TR)
        /\ LET e == TR[l] IN DoEnv(e) \/ DoParse(e) \/ DoResample(e) \/ DoFrame(e) \/ DoSym(e)
        /\ l' = l + 1

Spec == Init /\ [][Next]_vars
Done == TLCGet("stats").diameter - 1 = Len(TR)
=============================================================================

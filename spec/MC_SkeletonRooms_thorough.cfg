SPECIFICATION Spec
CONSTANT NX = 3
CONSTANT NY = 3
INVARIANT EulerOK
INVARIANT InternalSubAdj
INVARIANT AllBorderWhenNoInterior
INVARIANT Emit
CHECK_DEADLOCK FALSE

----------------------------- MODULE MC_Myosin -----------------------------
(***************************************************************************)
(* Bounded enumeration of myosin-quantification instances (C17):           *)
(*   interface-list configurations (distinct, repeated object, equal-valued *)
(*   objects, equal coordinates with other ids, ids unrelated to position)  *)
(*   x placement (rescale / offset, integer and half-integer)              *)
(*   x layers x integrate x image mode (quick tier: modes alternate); every *)
(*   leaf carries the image                                                 *)
(*   patterns PATS (value patterns on the leaf's image size).               *)
(* Model-level invariants: the spec's own operators are coherent (values    *)
(* normalised by their mean average to one, medians scale with the image,   *)
(* a uniform image gives equal values), the implementation-shaped operators *)
(* (I) satisfy the declarative ones (D) - or are explained by a known-       *)
(* finding matcher. Every leaf is printed (`EJ {json}`) with the complete   *)
(* input and replayed on the real code.                                     *)
(***************************************************************************)
EXTENDS Myosin, Json

CONSTANTS CONFS, TRS, LAYS, PATS, BOTHMODES
VARIABLES conf, tr, lay, integ, mode, E
vars == <<conf, tr, lay, integ, mode, E>>

(* local polylines, integer coordinates in [0,5] x [0,4] *)
PL == <<
  << <<0, 0>>, <<4, 0>> >>,                           \* 1 horizontal
  << <<1, 4>>, <<1, 1>>, <<3, 1>> >>,                 \* 2 vertical (downwards), horizontal
  << <<0, 1>>, <<3, 4>> >>,                           \* 3 diagonal
  << <<0, 0>>, <<4, 3>> >>,                           \* 4 3-4-5, x major
  << <<5, 0>>, <<2, 4>> >>,                           \* 5 3-4-5, y major, x decreasing
  << <<0, 4>>, <<2, 4>>, <<4, 2>>, <<4, 0>> >>,       \* 6 horizontal, anti-diagonal, vertical
  << <<5, 4>>, <<1, 1>>, <<1, 0>> >>,                 \* 7 4-3-5 backwards, vertical
  << <<0, 2>>, <<4, 2>>, <<4, 4>>, <<0, 4>>, <<0, 3>> >>,  \* 8 hook (band overlaps itself)
  << <<2, 0>>, <<5, 4>>, <<1, 4>> >>                  \* 9 3-4-5 then horizontal backwards
>>
\* configuration = [ifs |-> sequence of <<bid, polyline, first vertex id>>, list |-> positions]
CF == <<
  [ifs |-> << <<0, 4, 0>> >>,                              list |-> <<1>>],        \* single
  [ifs |-> << <<0, 1, 0>>, <<1, 3, 10>>, <<2, 6, 20>> >>,  list |-> <<1, 2, 3>>],  \* distinct
  [ifs |-> << <<0, 2, 0>>, <<1, 5, 10>> >>,                list |-> <<1, 2, 1>>],  \* the same object twice
  [ifs |-> << <<0, 4, 0>>, <<0, 4, 0>>, <<1, 1, 10>> >>,   list |-> <<1, 2, 3>>],  \* equal-valued objects
  [ifs |-> << <<0, 3, 0>>, <<1, 3, 10>>, <<2, 7, 20>> >>,  list |-> <<1, 2, 3>>],  \* equal coordinates, other ids
  [ifs |-> << <<3, 7, 5>>, <<5, 6, 30>> >>,                list |-> <<2, 1>>],     \* ids unrelated to position
  [ifs |-> << <<0, 8, 0>>, <<1, 9, 10>> >>,                list |-> <<1, 2>>],
  [ifs |-> << <<2, 9, 0>>, <<2, 9, 0>> >>,                 list |-> <<1, 2, 1>>],
  [ifs |-> << <<0, 5, 0>>, <<1, 2, 10>>, <<2, 8, 20>>, <<7, 1, 30>> >>, list |-> <<4, 3, 2, 1>>],
  [ifs |-> << <<0, 6, 0>>, <<1, 6, 10>> >>,                list |-> <<1, 2>>]
>>
\* placement: rescale numerators over 2, offset numerators over 2 (added to the margin layers + 2)
TR == <<
  [rs |-> <<2, 2>>, o |-> <<0, 0>>],      \* identity
  [rs |-> <<2, 2>>, o |-> <<1, 1>>],      \* half-pixel offset
  [rs |-> <<4, 2>>, o |-> <<0, 1>>],      \* anisotropic rescale (2, 1)
  [rs |-> <<1, 1>>, o |-> <<1, 0>>],      \* rescale 1/2: half-integer positions
  [rs |-> <<3, 3>>, o |-> <<0, 0>>],      \* rescale 3/2
  [rs |-> <<2, 4>>, o |-> <<1, 0>>],      \* (1, 2)
  [rs |-> <<1, 2>>, o |-> <<0, 1>>],      \* (1/2, 1)
  [rs |-> <<3, 2>>, o |-> <<1, 1>>]       \* (3/2, 1)
>>

Pat(p, x, y) ==
  CASE p = 1 -> 1 + ((x + 2 * y) % 7)
    [] p = 2 -> 1 + ((7 * x + 13 * y + x * y) % 8)
    [] p = 3 -> 1 + 6 * ((x + y) % 2) + ((x \div 2) % 2)
    [] p = 4 -> 4
    [] p = 5 -> 1 + 7 * (IF x % 3 = 0 THEN 1 ELSE 0)
    [] OTHER -> 1 + ((x * x + 3 * y * y) % 8)
PatName(p) == CASE p = 1 -> "grad" [] p = 2 -> "hash" [] p = 3 -> "checker" [] p = 4 -> "uniform"
                [] p = 5 -> "stripes" [] OTHER -> "quad"

MkEnv(c, t, L, ig, md) ==
  LET cf  == CF[c]
      ifs == [k \in 1..Len(cf.ifs) |->
                LET pl == PL[cf.ifs[k][2]] IN
                [bid |-> cf.ifs[k][1],
                 vid |-> [i \in 1..Len(pl) |-> cf.ifs[k][3] + i - 1],
                 x   |-> [i \in 1..Len(pl) |-> pl[i][1]],
                 y   |-> [i \in 1..Len(pl) |-> pl[i][2]]]]
      off == <<2 * (L + 2) + TR[t].o[1], 2 * (L + 2) + TR[t].o[2]>>
      E0  == [w |-> 1, h |-> 1, vden |-> 1, mode |-> md, layers |-> L, integrate |-> ig,
              dv |-> 1, dr |-> 2, dq |-> 2, rs |-> TR[t].rs, off |-> off, ifs |-> ifs, list |-> cf.list]
      MaxOf(S) == CHOOSE m \in S : \A q \in S : q <= m
      mx  == MaxOf(UNION {Range(PosX(E0, k)) : k \in DOMAIN ifs})
      my  == MaxOf(UNION {Range(PosY(E0, k)) : k \in DOMAIN ifs})
  IN  [E0 EXCEPT !.w = mx \div Den(E0) + L + 3, !.h = my \div Den(E0) + L + 3]

NoEnv == [w |-> 0]
Init == conf = 0 /\ tr = 0 /\ lay = -1 /\ integ = "?" /\ mode = "?" /\ E = NoEnv
ChooseConf == conf = 0 /\ conf' \in CONFS /\ UNCHANGED <<tr, lay, integ, mode, E>>
ChooseTr   == conf # 0 /\ tr = 0 /\ tr' \in TRS /\ UNCHANGED <<conf, lay, integ, mode, E>>
ChooseLay  == tr # 0 /\ lay = -1 /\ lay' \in LAYS /\ UNCHANGED <<conf, tr, integ, mode, E>>
ChooseInt  == lay # -1 /\ integ = "?" /\ integ' \in {"plain", "integrate"} /\ UNCHANGED <<conf, tr, lay, mode, E>>
\* quick tier: one image mode per leaf, alternating; thorough tier: both
ChooseMode == /\ integ # "?" /\ mode = "?"
              /\ mode' \in (IF BOTHMODES THEN {"F", "L"}
                            ELSE {IF (conf + tr + lay + (IF integ = "plain" THEN 0 ELSE 1)) % 2 = 0 THEN "F" ELSE "L"})
              /\ UNCHANGED <<conf, tr, lay, integ, E>>
Build      == mode # "?" /\ E = NoEnv /\ E' = MkEnv(conf, tr, lay, integ = "integrate", mode)
              /\ UNCHANGED <<conf, tr, lay, integ, mode>>
Next == ChooseConf \/ ChooseTr \/ ChooseLay \/ ChooseInt \/ ChooseMode \/ Build
Spec == Init /\ [][Next]_vars

Leaf == E.w > 0
Img(p)     == [y \in 1..E.h |-> [x \in 1..E.w |-> Pat(p, x - 1, y - 1)]]
Img3(p)    == [y \in 1..E.h |-> [x \in 1..E.w |-> 3 * Pat(p, x - 1, y - 1)]]
Used       == Range(E.list)
Pixels     == {<<x, y>> : x \in 0..(E.w - 1), y \in 0..(E.h - 1)}

(* ------------------------- model-level invariants ------------------------ *)
PremiseHolds == Leaf => Premise(E) /\ \A p \in PATS : ImageOK(E, Img(p)) /\ ImageOK(E, Img3(p))
\* medians scale with the image
Linear == Leaf /\ ~E.integrate => \A p \in PATS : \A k \in Used : RawSum(E, Img3(p), k) = 3 * RawSum(E, Img(p), k)
\* a uniform image gives every interface the same value (exact rationals, cross-multiplied)
UniformEqual == Leaf /\ ~E.integrate =>
   \A k1, k2 \in Used : RawSum(E, Img(4), k1) * NV(E, k2) = RawSum(E, Img(4), k2) * NV(E, k1)
\* values divided by their mean average to one (fixed point, within the tolerance the trace spec uses)
NormalisedMeanOne == Leaf /\ ~E.integrate => \A p \in PATS :
   LET n   == Len(E.list)
       val == [j \in 1..n |-> PlainValue(E, Img(p), E.list[j])]
       mu  == Sum(val) \div n
       nrm == [j \in 1..n |-> FDiv(val[j], mu)]
   IN  Abs(Sum(nrm) - n * Q) <= n * TolA
\* I (per-position truncation of get_layer_elements positions) = D (window centred on the floor pixel)
ImplWindowIsD == Leaf /\ ~E.integrate => \A p \in PATS : \A k \in Used : ImplRawSum(E, Img(p), k) = RawSum(E, Img(p), k)
\* I (keying by list.index) breaks "stored in the order given" exactly on the known-finding instances
ImplKeyIsD == Leaf => (ImplKeyRaises(E) <=> KF_EqualInterfaceKey(E, "KeyError"))
\* I (ceil / major-axis walk): its pixel support lies between the inner and the outer tube; a pixel that
\* receives more than one float position is explained by the known-finding matcher
WalkIsD == Leaf /\ E.integrate => \A k \in Used :
   LET wk  == Walk(E, k)
       X2  == [i \in 1..NV(E, k) |-> 2 * PosX(E, k)[i]]
       Y2  == [i \in 1..NV(E, k) |-> 2 * PosY(E, k)[i]]
       rho == IF IntegerGeometry(E, k) THEN 0 ELSE 1
   IN  \A p \in Pixels :
         LET all == IMultAll(wk, E.layers, p[1], p[2])  dis == IMultDistinct(wk, E.layers, p[1], p[2]) IN
         /\ all >= 1 => OuterTube(E, X2, Y2, p[1], p[2])
         /\ InnerTube(E, X2, Y2, rho, p[1], p[2]) => all >= 1
         /\ dis >= 2 => KF_FloatPositionsCounted(wk, E.layers, p[1], p[2], dis)
\* vacuity guards, expected to be VIOLATED when listed as invariants (not in the cfg)
FloatFindingUnreachable == Leaf /\ E.integrate => \A k \in Used : \A p \in Pixels :
                              IMultDistinct(Walk(E, k), E.layers, p[1], p[2]) <= 1
FloatFinding == E.integrate /\ \E k \in Used : \E p \in Pixels : IMultDistinct(Walk(E, k), E.layers, p[1], p[2]) >= 2

Emit == Leaf => PrintT("EJ " \o ToJson(
   [env |-> E, conf |-> conf, tr |-> tr,
    imgs |-> [p \in 1..Cardinality(PATS) |->
                LET q == CHOOSE q \in PATS : Cardinality({r \in PATS : r < q}) = p - 1
                IN  [name |-> PatName(q), rows |-> Img(q)]],
    expect |-> IF E.integrate THEN <<>> ELSE
               [p \in 1..Cardinality(PATS) |->
                LET q == CHOOSE q \in PATS : Cardinality({r \in PATS : r < q}) = p - 1
                IN  [k \in 1..Len(E.ifs) |-> <<RawSum(E, Img(q), k), NV(E, k)>>]],
    kf_key |-> KF_EqualInterfaceKey(E, "KeyError"),
    kf_float |-> FloatFinding]))
=============================================================================

SPECIFICATION Spec
CONSTANT KS = {0, 2}
CONSTANT NES = {1, 2, 3, 4, 5, 6, 7, 8, 9, 10, 11, 12}
CONSTANT MaxCells = 99
INVARIANT BeforeConsistent
INVARIANT ImplSatisfiesD
INVARIANT ResultConsistent
INVARIANT SecondSatisfiesD
INVARIANT Idempotent
INVARIANT NoSecondRaise
INVARIANT Emit
CHECK_DEADLOCK FALSE

SPECIFICATION ASpec
POSTCONDITION Done
CHECK_DEADLOCK FALSE

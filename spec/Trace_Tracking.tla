--------------------------- MODULE Trace_Tracking ---------------------------
(***************************************************************************)
(* Trace validation of vertex tracking (C12) and velocities (C13) against  *)
(* the declarative layer of Tracking.tla. One JSON event per line:         *)
(*                                                                         *)
(*  Env        nf, np, present[f][p], times[f] (fixed point), guess[f]     *)
(*             (pairs of physical vertices), exact (integer MC instance),  *)
(*             ids[f][p] (the renumbering bijections, informative), cm     *)
(*  NewSession raised, gpos[f][p] (integer grid 0..30000 — for exact       *)
(*             instances 100 x the model integers), fpos[f][p] (fixed      *)
(*             point), pool[f][p], junc[f][p], ord[f] (pool vertices in    *)
(*             dict order), pool_outside, maps[f] = [none, pairs]          *)
(*  PointByMap t0, t1, res[p], back[p]   (-9 not queried, 0 None,          *)
(*             -1 unresolvable id, -3 KeyError, -4 other exception)        *)
(*  Velocity   t, vel[p] = <<has, vx, vy>>, raised                         *)
(*  RHS        t, dyn, adim, norm, rowof[p] (-1 = not used), b, avg,       *)
(*             built_raised, raised                                        *)
(*  SysVel     vals[f], used[f], raised                                    *)
(*                                                                         *)
(* All vertices are PHYSICAL vertices 1..np (true identity, the same in    *)
(* every frame); the true successor of p is p, if present in the next      *)
(* frame. Frames are 1-based here (JSON arrays), 0-based in `t`, `t0`.     *)
(***************************************************************************)
EXTENDS Tracking, TraceKit

VARIABLES l, env, ses, prem, vel
vars == <<l, env, ses, prem, vel>>

NoEnv == [nf |-> 0]
NoSes == [raised |-> "none"]
Init == l = 1 /\ env = NoEnv /\ ses = NoSes /\ prem = <<>> /\ vel = <<>>

GridSlack(en) == IF en.exact THEN 0 ELSE 5

\* ---- one step of the series as the record `st` of Tracking.tla --------------------------------
StepOf(en, ns, f) ==
  [n0 |-> en.np, n1 |-> en.np, pos0 |-> ns.gpos[f], pos1 |-> ns.gpos[f + 1],
   pool0 |-> ns.pool[f], pool1 |-> ns.pool[f + 1], junc0 |-> ns.junc[f], junc1 |-> ns.junc[f + 1],
   succ |-> [p \in 1..en.np |-> IF en.present[f][p] /\ en.present[f + 1][p] THEN p ELSE 0],
   guess |-> en.guess[f]]

RECURSIVE PremSeq(_, _, _)
PremSeq(en, ns, f) == IF f >= en.nf THEN <<>>
                      ELSE <<ns.pool_outside = 0 /\ PremiseMargin(StepOf(en, ns, f), GridSlack(en))>>
                           \o PremSeq(en, ns, f + 1)

\* transcription I on exact integer instances (model integers = gpos / 100)
IStep(en, ns, f) == [pos0 |-> [p \in 1..en.np |-> <<ns.gpos[f][p][1] \div 100, ns.gpos[f][p][2] \div 100>>],
                     pos1 |-> [p \in 1..en.np |-> <<ns.gpos[f + 1][p][1] \div 100, ns.gpos[f + 1][p][2] \div 100>>],
                     ord0 |-> ns.ord[f], ord1 |-> ns.ord[f + 1], guess |-> en.guess[f]]
IDrift(en, ns, f) == LET im == AsPairs(IMapping(IStep(en, ns, f)))  mp == ns.maps[f] IN
                     im.none # mp.none \/ (~im.none /\ PairSet(im) # PairSet(mp))

DoEnv(e) ==
  /\ e.ev = "Env"
  /\ EmitV(e, {}, {}, {}, {}, FALSE)
  /\ env' = e /\ ses' = NoSes /\ prem' = <<>> /\ vel' = [f \in 1..e.nf |-> <<>>]

DoSession(e) ==
  /\ e.ev = "NewSession"
  /\ LET ok    == e.raised = "" /\ env.nf > 0
         ps    == IF ok THEN PremSeq(env, e, 1) ELSE <<>>
         Steps == IF ok THEN 1..(env.nf - 1) ELSE {}
         Live  == {f \in Steps : ~e.maps[f].none}
         bad(f) == LET st == StepOf(env, e, f)  mp == e.maps[f] IN
                   (IF f \in Live /\ ~RangeOK(st, mp) THEN {"C12.range"} ELSE {}) \cup
                   (IF f \in Live /\ GuessInjective(st) /\ ~(Injective(st, mp) /\ Functional(mp))
                       THEN {"C12.injective"} ELSE {}) \cup
                   (IF f \in Live /\ ~GuessHonoured(st, mp) THEN {"C12.guess"} ELSE {}) \cup
                   (IF ps[f] /\ ~Correct(st, mp) THEN {"C12.correct"} ELSE {})
         known == ~ok /\ env.nf > 0 /\ KF_GuessMissingFrame(env, e)
         fails == IF ~ok THEN (IF known THEN {} ELSE {"C12.raised"}) ELSE UNION {bad(f) : f \in Steps}
         hits  == (IF Live # {} THEN {"C12.range", "C12.injective"} ELSE {}) \cup
                  (IF \E f \in Live : Len(env.guess[f]) > 0 THEN {"C12.guess"} ELSE {}) \cup
                  (IF \E f \in Steps : ps[f] THEN {"C12.correct"} ELSE {}) \cup
                  (IF \E f \in Steps : e.maps[f].none THEN {"C12.skipped_step"} ELSE {})
         drift == IF ok /\ env.exact /\ (\E f \in Steps : IDrift(env, e, f)) THEN {"C12.I_mapping"} ELSE {}
     IN  /\ EmitV(e, fails, IF known THEN {"KF_GuessMissingFrame:C12.raised"} ELSE {}, hits, drift,
                   ok /\ ~(\E f \in Steps : ps[f]))
         /\ prem' = ps
  /\ ses' = e
  /\ UNCHANGED <<env, vel>>

SesOK == ses.raised = ""

\* ---- C12: forward then backward ------------------------------------------------------------------
DoPBM(e) ==
  /\ e.ev = "PointByMap"
  /\ LET F0 == e.t0 + 1  F1 == e.t1 + 1
         premAll == SesOK /\ \A f \in F0..(F1 - 1) : prem[f]
         J == IF SesOK THEN {p \in 1..env.np : ses.junc[F0][p]} ELSE {}
         fails == IF premAll /\ (\E p \in J : ~(e.res[p] > 0 /\ e.back[p] = p)) THEN {"C12.roundtrip"} ELSE {}
         \* composition reaches the true successor (follows from C12.correct for a dict lookup): drift only
         drift == IF premAll /\ (\E p \in J : e.res[p] # p) THEN {"C12.pbm_forward"} ELSE {}
     IN  EmitV(e, fails, {}, IF premAll THEN {"C12.roundtrip"} ELSE {}, drift, ~premAll)
  /\ UNCHANGED <<env, ses, prem, vel>>

\* ---- C13 ----------------------------------------------------------------------------------------
\* partner of p at (1-based) frame F: <<kind, q>>, kind in "one" | "none" | "ambiguous" | "skipped"
Partner(F, p) ==
  IF F < env.nf
  THEN LET mp == ses.maps[F] IN
       IF mp.none THEN <<"skipped", 0>>
       ELSE LET q == DFwd(mp, p) IN
            IF q \in 1..env.np THEN <<"one", q>> ELSE IF q = Unres THEN <<"ambiguous", 0>> ELSE <<"none", 0>>
  ELSE LET mp == ses.maps[F - 1] IN
       IF mp.none THEN <<"skipped", 0>>
       ELSE LET B == DBackSet(mp, p) IN
            IF B = {} THEN <<"none", 0>>
            ELSE IF Cardinality(B) = 1 /\ B \subseteq 1..env.np THEN <<"one", CHOOSE q \in B : TRUE>>
            ELSE <<"ambiguous", 0>>
Other(F) == IF F < env.nf THEN F + 1 ELSE F - 1
StepNone(F) == IF F < env.nf THEN ses.maps[F].none ELSE ses.maps[F - 1].none

FiniteDiffOK(F, p, v, q) ==
  LET G == Other(F)  dt == env.times[G] - env.times[F] IN
  /\ Close(Mul(v[2], dt), ses.fpos[G][q][1] - ses.fpos[F][p][1], FdTol(dt, v[2]))
  /\ Close(Mul(v[3], dt), ses.fpos[G][q][2] - ses.fpos[F][p][2], FdTol(dt, v[3]))

DoVelocity(e) ==
  /\ e.ev = "Velocity"
  /\ LET F == e.t + 1
         usable == SesOK /\ ~e.oor /\ ~StepNone(F)
         P == IF usable /\ e.raised = "" THEN {p \in 1..env.np : e.vel[p][1] = 1} ELSE {}
         With == {p \in P : Partner(F, p)[1] = "one"}
         Without == {p \in P : Partner(F, p)[1] = "none"}
         fails == IF ~usable THEN {}
                  ELSE IF e.raised # "" THEN {"C13.raised"}
                  ELSE (IF \E p \in With : ~FiniteDiffOK(F, p, e.vel[p], Partner(F, p)[2])
                           THEN {"C13.finite_difference"} ELSE {}) \cup
                       (IF \E p \in Without : e.vel[p][2] # 0 \/ e.vel[p][3] # 0
                           THEN {"C13.no_partner_zero"} ELSE {})
         hits == (IF With # {} THEN {"C13.finite_difference"} ELSE {}) \cup
                 (IF Without # {} THEN {"C13.no_partner_zero"} ELSE {}) \cup
                 (IF With # {} /\ F = env.nf THEN {"C13.backward_at_last"} ELSE {})
     IN  /\ EmitV(e, fails, {}, hits, {}, ~usable)
         /\ vel' = IF usable /\ e.raised = "" THEN [vel EXCEPT ![F] = e.vel] ELSE vel
  /\ UNCHANGED <<env, ses, prem>>

Speed(F, p) == NormHi(<<vel[F][p][2], vel[F][p][3]>>)
RECURSIVE SpeedSeq(_, _)
SpeedSeq(F, ps) == IF ps = <<>> THEN <<>> ELSE <<Speed(F, Head(ps))>> \o SpeedSeq(F, Tail(ps))
RECURSIVE SeqOfSet(_)
SeqOfSet(S) == IF S = {} THEN <<>> ELSE LET x == SMin(S) IN <<x>> \o SeqOfSet(S \ {x})
MeanSpeed(F, U) == MeanSeq(SpeedSeq(F, SeqOfSet(U)))
\* squares must stay below 2^31 / Q: speeds above 30 are outside the range of the fixed-point oracle
InRange(F, U) == \A p \in U : Abs(vel[F][p][2]) <= 30 * Q /\ Abs(vel[F][p][3]) <= 30 * Q
BTol(b, avg, nrm) == 20 + 2 * ((Abs(avg) + Abs(b) + Abs(nrm)) \div Q + 1)

DoRHS(e) ==
  /\ e.ev = "RHS"
  /\ LET F == e.t + 1
         known == SesOK /\ vel[F] # <<>>
         built == e.built_raised = "" /\ ~e.oor /\ e.rows_outside = 0
         U == IF built THEN {p \in 1..env.np : e.rowof[p] >= 0} ELSE {}
         allKnown == known /\ (\A p \in U : vel[F][p][1] = 1) /\ (e.dyn /\ (e.adim \/ e.norm # Q) => InRange(F, U))
         \* static mode: everything zero
         static == ~e.dyn
         dynOK == e.dyn /\ built /\ allKnown /\ e.raised = ""
         mean == IF e.dyn /\ built /\ allKnown /\ e.adim /\ U # {} THEN MeanSpeed(F, U) ELSE Q
         undefined == e.dyn /\ e.adim /\ built /\ allKnown /\ U # {} /\ mean < 1000   \* mean speed ~ 0: quotient undefined
         rowsOK == \A p \in U : /\ e.rowof[p] + 2 <= e.nrows
                                /\ \A q \in U : (q # p) => (e.rowof[q] # e.rowof[p] /\ e.rowof[q] # e.rowof[p] + 1)
         X(p) == e.b[e.rowof[p] + 1]
         Y(p) == e.b[e.rowof[p] + 2]
         vx(p) == vel[F][p][2]
         vy(p) == vel[F][p][3]
         plain == dynOK /\ ~e.adim /\ e.norm = Q
         fails ==
           IF ~built THEN {}
           ELSE IF static
                THEN (IF e.raised # "" THEN {"C13.raised"}
                      ELSE IF \E k \in DOMAIN e.b : e.b[k] # 0 THEN {"C13.static_zero"} ELSE {})
           ELSE IF ~known \/ ~allKnown THEN {}
           ELSE IF e.raised # "" THEN (IF undefined /\ e.raised = "FloatingPointError" THEN {} ELSE {"C13.raised"})
           ELSE IF undefined THEN {}
           ELSE IF ~rowsOK THEN {"C13.rhs_rows"}
           ELSE (IF plain /\ ((\E p \in U : ~Close(X(p), vx(p), 2) \/ ~Close(Y(p), vy(p), 2)) \/ e.avg # Q)
                    THEN {"C13.rhs_rows"} ELSE {}) \cup
                (IF dynOK /\ e.adim /\ U # {} /\ ~Close(e.avg, mean, 100 + mean \div 20000)
                    THEN {"C13.adimensional"} ELSE {}) \cup
                (IF dynOK /\ e.adim /\ U # {} /\
                      (\E p \in U : \/ ~Close(Mul(X(p), e.avg), Mul(vx(p), e.norm), BTol(X(p), e.avg, e.norm))
                                    \/ ~Close(Mul(Y(p), e.avg), Mul(vy(p), e.norm), BTol(Y(p), e.avg, e.norm)))
                    THEN {IF e.norm = Q THEN "C13.adimensional" ELSE "C13.normalization"} ELSE {}) \cup
                (IF dynOK /\ ~e.adim /\ e.norm # Q /\
                      (\E p \in U : \/ ~Close(X(p), Mul(vx(p), e.norm), BTol(X(p), Q, e.norm))
                                    \/ ~Close(Y(p), Mul(vy(p), e.norm), BTol(Y(p), Q, e.norm)))
                    THEN {"C13.normalization"} ELSE {})
         judged == built /\ ((static /\ e.raised = "" /\ e.nrows > 0) \/ (dynOK /\ ~undefined /\ U # {}))
         hits == IF ~judged THEN {}
                 ELSE IF static THEN {"C13.static_zero"}
                 ELSE (IF plain THEN {"C13.rhs_rows"} ELSE {}) \cup
                      (IF e.adim THEN {"C13.adimensional"} ELSE {}) \cup
                      (IF e.norm # Q THEN {"C13.normalization"} ELSE {})
     IN  EmitV(e, fails, {}, hits, {}, ~judged)
  /\ UNCHANGED <<env, ses, prem, vel>>

DoSysVel(e) ==
  /\ e.ev = "SysVel"
  /\ LET anyNone == SesOK /\ \E f \in 1..(env.nf - 1) : ses.maps[f].none
         usable == SesOK /\ ~anyNone /\ ~e.oor /\ e.built_raised = ""
         Known == IF usable /\ Len(e.used) = env.nf THEN
                 {F \in 1..env.nf : /\ vel[F] # <<>> /\ e.used[F] # <<>>
                                    /\ \A p \in Range(e.used[F]) : p \in 1..env.np /\ vel[F][p][1] = 1
                                    /\ InRange(F, Range(e.used[F]))}
                  ELSE {}
         Still == {F \in Known : MeanSpeed(F, Range(e.used[F])) < 1000}       \* mean speed ~ 0
         Fs == IF e.raised = "" THEN Known \ Still ELSE {}
         fails == IF ~usable THEN {}
                  ELSE IF e.raised # "" THEN (IF e.raised = "FloatingPointError" /\ Still # {} THEN {} ELSE {"C13.raised"})
                  ELSE IF Len(e.vals) # env.nf THEN {"C13.system_velocity"}
                  ELSE IF \E F \in Fs : LET m == MeanSpeed(F, Range(e.used[F])) IN ~Close(e.vals[F], m, 100 + m \div 20000)
                       THEN {"C13.system_velocity"} ELSE {}
     IN  EmitV(e, fails, {}, IF Fs # {} THEN {"C13.system_velocity"} ELSE {}, {}, Fs = {} /\ fails = {})
  /\ UNCHANGED <<env, ses, prem, vel>>

Next == /\ l <= Len(TR)
        /\ LET e == TR[l] IN DoEnv(e) \/ DoSession(e) \/ DoPBM(e) \/ DoVelocity(e) \/ DoRHS(e) \/ DoSysVel(e)
        /\ l' = l + 1

Spec == Init /\ [][Next]_vars
Done == TLCGet("stats").diameter - 1 = Len(TR)
=============================================================================

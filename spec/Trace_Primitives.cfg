SPECIFICATION Spec
POSTCONDITION Done
CHECK_DEADLOCK FALSE

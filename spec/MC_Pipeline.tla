---- MODULE MC_Pipeline ----
EXTENDS Pipeline
View == <<mesh, frame, session, fmat, solved, pmat, psolved, tensor>>
====

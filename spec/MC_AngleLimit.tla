--------------------------- MODULE MC_AngleLimit ---------------------------
(***************************************************************************)
(* Bounded-exhaustive model check of the angle-limit bookkeeping (C16):    *)
(* for EVERY subset of flagged junctions of a catalogue tissue, the        *)
(* implementation-shaped pipeline                                          *)
(*    get_angle_limited_edges   (drop an interface iff both ends flagged)  *)
(*    solve + write-back        (k-th solution value -> k-th used column)  *)
(*    get_solution_no_discarded (re-insert -1 walking the internal list)   *)
(* yields a result that is aligned with the list of internal interfaces:   *)
(* position i holds -1 iff interface i is excluded, and otherwise the      *)
(* solution value that belongs to interface i. Solution values are         *)
(* symbolic (<<"sol", interface>>), so any misalignment is visible.        *)
(***************************************************************************)
EXTENDS Interfaces, SubTissue

VARIABLES pos, flagged
vars == <<pos, flagged>>

M == SubMesh(1..Base.nc, 1)
Internal == SelectSeq(ImplInterfaces(M), LAMBDA p : InternalPath(M, p))
EndJ == SeqOfSetSorted(UNION {{p[1], p[Len(p)]} : p \in {Internal[i] : i \in DOMAIN Internal}})

Init == pos = 1 /\ flagged = {}
Next == /\ pos <= Len(EndJ)
        /\ \/ flagged' = flagged \cup {EndJ[pos]}
           \/ flagged' = flagged
        /\ pos' = pos + 1
Spec == Init /\ [][Next]_vars
Leaf == pos = Len(EndJ) + 1

Excluded(i) == Internal[i][1] \in flagged /\ Internal[i][Len(Internal[i])] \in flagged

(* ---- I: transcription of the code ---- *)
\* get_angle_limited_edges: copy of the internal list, remove every interface whose two ends are flagged
Used == SelectSeq([i \in DOMAIN Internal |-> i], LAMBDA i : ~Excluded(i))
\* the solver returns one value per used column, in column order; value k belongs to interface Used[k]
Solution == [k \in DOMAIN Used |-> <<"sol", Used[k]>>]
\* write-back: the k-th value is written onto the mesh edges of the k-th used interface
EdgeTension == [i \in DOMAIN Internal |-> IF \E k \in DOMAIN Used : Used[k] = i
                                           THEN Solution[CHOOSE k \in DOMAIN Used : Used[k] = i] ELSE <<"stale">>]
\* get_solution_no_discarded
RECURSIVE Reinsert(_, _, _)
Reinsert(i, ptr, acc) ==
  IF i > Len(Internal) THEN acc
  ELSE IF Excluded(i) THEN Reinsert(i + 1, ptr, Append(acc, <<"minus_one">>))
       ELSE Reinsert(i + 1, ptr + 1, Append(acc, Solution[ptr]))
Result == IF Len(Internal) = Len(Solution) THEN Solution ELSE Reinsert(1, 1, <<>>)

(* ---- D ---- *)
Aligned == Leaf => /\ Len(Result) = Len(Internal)
                   /\ \A i \in DOMAIN Internal : Result[i] = IF Excluded(i) THEN <<"minus_one">> ELSE <<"sol", i>>
WriteBackAligned == Leaf => \A i \in DOMAIN Internal : ~Excluded(i) => EdgeTension[i] = <<"sol", i>>
ExcludedIffBothEnds == Leaf => \A i \in DOMAIN Internal : (i \notin {Used[k] : k \in DOMAIN Used}) = Excluded(i)
NothingFlaggedNothingExcluded == (Leaf /\ flagged = {}) => Len(Used) = Len(Internal)
\* vacuity guard (expected to be violated): some leaf excludes some but not all interfaces
NoPartialExclusion == Leaf => (Len(Used) = 0 \/ Len(Used) = Len(Internal))
=============================================================================

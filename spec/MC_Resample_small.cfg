SPECIFICATION Spec
CONSTANT KS = {0}
CONSTANT NES = {1, 2, 3}
CONSTANT MaxCells = 99
INVARIANT BeforeConsistent
INVARIANT ImplSatisfiesD
INVARIANT ResultConsistent
INVARIANT SecondSatisfiesD
INVARIANT Idempotent
INVARIANT NoSecondRaise
INVARIANT Emit
CHECK_DEADLOCK FALSE

SPECIFICATION Spec
CONSTANT NFRAMES = 4
CONSTANT Pats = {"a", "b", "c"}
CONSTANT MaxDepth = 30
CONSTANT EMITMOD = 997
CONSTANT EMITKF = 251
INVARIANT Conform
INVARIANT QueriesPure
INVARIANT GTMean
INVARIANT SolveTable
INVARIANT AssignGTTable
INVARIANT PressureTable
INVARIANT RoundTrip
INVARIANT TablesAgree
INVARIANT Symmetric
INVARIANT Emit
PROPERTY PureQueries
CONSTRAINT DepthOK
VIEW View
CHECK_DEADLOCK FALSE

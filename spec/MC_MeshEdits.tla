---------------------------- MODULE MC_MeshEdits ----------------------------
(***************************************************************************)
(* All bounded sequences of the PUBLIC editing operations of the data      *)
(* model (MeshEdits.tla) on small seed meshes, built the way the parsers   *)
(* build them (vertices, then mesh edges in order of first occurrence,     *)
(* then cells):                                                            *)
(*   G    generate_mesh(ne, replace_short_edges)                           *)
(*   J    join_two_vertices on a contractible two-point interface          *)
(*   T3   Skeleton.do_t3_transition on a group of artefact vertices        *)
(*   TRI  the skeleton parser's removal of "triangles in the middle"       *)
(*   ISO  the skeleton parser's isolated-cell removal                      *)
(*   ORPH the Surface Evolver parser's removal of vertices without cells   *)
(* C09 demands Consistent after every public operation.  The model does    *)
(* not stop at the first broken state: every reached state is emitted with *)
(* the model's verdict (`EJ {json}`), replayed on the real functions and   *)
(* judged by TLC again (Trace_Edits); a state that failed or is            *)
(* inconsistent is not extended.                                           *)
(***************************************************************************)
EXTENDS MeshEdits, TLC, Json

CONSTANTS MaxDepth, NES
VARIABLES seed, s, hist, hf, cons
vars == <<seed, s, hist, hf, cons>>

LOCAL Rn(q) == {q[j] : j \in DOMAIN q}

\* coordinates are multiples of 6: midpoints and centroids of three points stay integers
Seeds ==
  [pair   |-> [pos |-> <<<<0, 0>>, <<12, 0>>, <<12, 12>>, <<0, 12>>, <<24, 0>>, <<24, 12>>>>,
               cells |-> <<<<1, 2, 3, 4>>, <<2, 5, 6, 3>>>>, extra |-> <<>>],
   fan    |-> [pos |-> <<<<12, 12>>, <<0, 0>>, <<24, 0>>, <<12, 30>>>>,
               cells |-> <<<<1, 2, 3>>, <<1, 3, 4>>, <<1, 4, 2>>>>, extra |-> <<>>],
   lens   |-> [pos |-> <<<<0, 0>>, <<0, 12>>, <<12, 12>>, <<12, 0>>, <<24, 0>>, <<24, 12>>, <<6, 6>>>>,
               cells |-> <<<<1, 4, 7, 3, 2>>, <<4, 5, 6, 3>>>>, extra |-> <<>>],
   iso    |-> [pos |-> <<<<0, 0>>, <<12, 0>>, <<12, 12>>, <<0, 12>>, <<24, 0>>, <<24, 12>>, <<36, 0>>, <<48, 0>>, <<42, 12>>>>,
               cells |-> <<<<1, 2, 3, 4>>, <<2, 5, 6, 3>>, <<7, 8, 9>>>>, extra |-> <<>>],
   orphan |-> [pos |-> <<<<0, 0>>, <<12, 0>>, <<12, 12>>, <<0, 12>>, <<24, 0>>, <<24, 12>>, <<36, 0>>, <<48, 0>>>>,
               cells |-> <<<<1, 2, 3, 4>>, <<2, 5, 6, 3>>>>, extra |-> <<<<7, 8>>, <<5, 7>>>>],
   tri    |-> [pos |-> <<<<18, 12>>, <<30, 12>>, <<24, 24>>, <<24, -24>>, <<60, 36>>, <<-12, 36>>>>,
               cells |-> <<<<1, 2, 5, 4>>, <<2, 3, 6, 5>>, <<3, 1, 4, 6>>>>, extra |-> <<>>],
   strip  |-> [pos |-> <<<<0, 0>>, <<12, 0>>, <<24, 0>>, <<36, 0>>, <<36, 12>>, <<24, 12>>, <<12, 12>>, <<0, 12>>, <<6, 0>>>>,
               cells |-> <<<<1, 9, 2, 7, 8>>, <<2, 3, 6, 7>>, <<3, 4, 5, 6>>>>, extra |-> <<>>]]
SeedNames == DOMAIN Seeds

RECURSIVE AddVertices(_, _, _)
AddVertices(st, pos, i) == IF i > Len(pos) THEN st ELSE AddVertices(AddVertex(st, i, i, pos[i]), pos, i + 1)
RECURSIVE AddEdges(_, _, _)
AddEdges(st, prs, i) == IF i > Len(prs) THEN st ELSE AddEdges(AddEdge(st, i - 1, prs[i][1], prs[i][2]), prs, i + 1)
RECURSIVE AddCells(_, _, _)
AddCells(st, cs, i) == IF i > Len(cs) THEN st ELSE AddCells(AddCell(st, i, cs[i]), cs, i + 1)
OrderedPairs(cycles) == \* mesh edges in order of first occurrence along the cells, as <<a, b>> in traversal order
  LET RECURSIVE Cyc(_, _)  Cyc(c, i) == IF i > Len(c) THEN <<>> ELSE <<<<c[i], c[Nxt(i, Len(c))]>>>> \o Cyc(c, i + 1)
      RECURSIVE All(_)     All(k) == IF k > Len(cycles) THEN <<>> ELSE Cyc(cycles[k], 1) \o All(k + 1)
      RECURSIVE Ded(_, _)  Ded(q, acc) == IF Len(q) = 0 THEN acc
                                           ELSE IF \E j \in DOMAIN acc : {acc[j][1], acc[j][2]} = {Head(q)[1], Head(q)[2]}
                                                THEN Ded(Tail(q), acc) ELSE Ded(Tail(q), Append(acc, Head(q)))
  IN  Ded(All(1), <<>>)
Build(sd) == AddCells(AddEdges(AddVertices(EmptyState, sd.pos, 1), OrderedPairs(sd.cells) \o sd.extra, 1), sd.cells, 1)

\* ---- enabling sets ----
Contractible(st) ==            \* two-point interfaces with both ends in < 3 cells, as id pairs
  LET m  == AbstractOf(st)
      ps == Paths(m)
  IN  {<<m.vid[p[1]], m.vid[p[2]]>> : p \in {q \in ps : Len(q) = 2 /\ NCells(m, q[1]) < 3 /\ NCells(m, q[2]) < 3}}
\* get_artifacts: vertices with 3 mesh edges and 2 cells that lie on no external mesh edge (an end in exactly
\* one cell), grouped into connected components
ArtifactGroups(st) ==
  LET ext  == UNION {{st.E[e][1], st.E[e][2]} : e \in {x \in DOMAIN st.E :
                        Len(st.V[st.E[x][1]].oc) = 1 \/ Len(st.V[st.E[x][2]].oc) = 1}}
      cand == {h \in st.vd : Len(st.V[h].oe) = 3 /\ Len(st.V[h].oc) = 2} \ ext
      adj(a, b) == \E e \in DOMAIN st.E : {st.E[e][1], st.E[e][2]} = {a, b}
      RECURSIVE Grow(_)
      Grow(S) == LET T == S \cup {h \in cand : \E x \in S : adj(x, h)} IN IF T = S THEN S ELSE Grow(T)
  IN  {Grow({h}) : h \in cand}

Op(o, n, r, ids) == [op |-> o, ne |-> n, rse |-> r, ids |-> ids]

Init == /\ seed \in SeedNames /\ s = EmptyState /\ hist = <<>> /\ hf = 0 /\ cons = {"unbuilt"}
Start == /\ cons = {"unbuilt"}
         /\ LET st == Build(Seeds[seed]) IN s' = st /\ cons' = Consistent(AbstractOf(st)) /\ hf' = MaxOf(st.vd) + 1
         /\ UNCHANGED <<seed, hist>>

\* operations are applied to proper cell complexes only (Trace_Edits.tla Proper): every cell has at least 3
\* vertices, no doubled mesh edge
ProperState(st) == /\ \A c \in DOMAIN st.C : Len(st.C[c]) >= 3
                   /\ \A e, f \in DOMAIN st.E : e # f => {st.E[e][1], st.E[e][2]} # {st.E[f][1], st.E[f][2]}
Live == cons = {} /\ OK(s) /\ Len(hist) < MaxDepth /\ ProperState(s)
Do(o, st, nf) == /\ s' = st /\ hist' = Append(hist, o) /\ hf' = nf
                 /\ cons' = IF OK(st) THEN Consistent(AbstractOf(st)) ELSE {}
                 /\ UNCHANGED seed
DoG   == Live /\ \E n \in NES, r \in BOOLEAN : Do(Op("G", n, r, <<>>), GenerateMesh(s, n, r, hf).s, hf + 8)
DoJ   == Live /\ \E pr \in Contractible(s) : Do(Op("J", 0, FALSE, pr), Join(s, pr, <<>>, hf).s, hf + 1)
DoT3  == Live /\ \E g \in ArtifactGroups(s) : LET art == SeqOfSetSorted(g) IN
            Do(Op("T3", 0, FALSE, [j \in DOMAIN art |-> s.V[art[j]].id]), T3Transition(s, art, hf), hf + 1)
DoTRI == Live /\ Do(Op("TRI", 0, FALSE, <<>>), TriangleRemoval(s), hf)
DoISO == Live /\ Do(Op("ISO", 0, FALSE, <<>>), IsolatedCellRemoval(s), hf)
DoORPH == Live /\ Do(Op("ORPH", 0, FALSE, <<>>), OrphanRemoval(s), hf)
Next == Start \/ DoG \/ DoJ \/ DoT3 \/ DoTRI \/ DoISO \/ DoORPH
Spec == Init /\ [][Next]_vars

SeedsConsistent == (Len(hist) = 0 /\ cons # {"unbuilt"}) => cons = {}
Emit == Len(hist) >= 1 =>
          PrintT("EJ " \o ToJson([seed |-> seed, pos |-> Seeds[seed].pos, cells |-> Seeds[seed].cells,
                                  extra |-> Seeds[seed].extra, hist |-> hist, merr |-> s.err, mfails |-> cons]))
\* vacuity guards, expected to be VIOLATED when checked alone
AlwaysConsistent == cons \in {{}, {"unbuilt"}}
=============================================================================

SPECIFICATION Spec
CONSTANT N = 3
CONSTANT SITES <- Sites5
CONSTANT STENCIL <- Stencil5
CONSTANT GUESSMODES <- GuessNW
CONSTANT STAMPS <- Stamps3
CONSTANT WITHVEL = TRUE
CONSTANT EMITMOD = 499
INVARIANT InvInjective
INVARIANT InvVelocity
INVARIANT InvRhs
INVARIANT Emit
CHECK_DEADLOCK FALSE

SPECIFICATION Spec
CONSTANT N = 4
CONSTANT SITES <- Sites5
CONSTANT STENCIL <- Stencil5
CONSTANT GUESSMODES <- GuessNW
CONSTANT STAMPS <- Stamps1
CONSTANT WITHVEL = FALSE
CONSTANT EMITMOD = 1499
INVARIANT InvRange
INVARIANT InvInjective
INVARIANT InvGuess
INVARIANT InvCorrect
INVARIANT InvRoundTrip
INVARIANT InvRoundTripWeak
INVARIANT Emit
CHECK_DEADLOCK FALSE

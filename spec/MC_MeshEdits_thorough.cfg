SPECIFICATION Spec
CONSTANT MaxDepth = 4
CONSTANT NES = {2, 3, 5}
INVARIANT SeedsConsistent
INVARIANT Emit
CHECK_DEADLOCK FALSE

SPECIFICATION Spec
CONSTANT NV0 = 3
CONSTANT NV = 3
CONSTANT EIDS = {0}
CONSTANT CIDS = {0}
CONSTANT BIDS = {0}
CONSTANT MAXE = 3
CONSTANT MAXC = 2
CONSTANT CYCLEN = 2
CONSTANT OPS <- OpsBig
CONSTANT MAXDEPTH = 3
CONSTANT EMITMOD = 40
CONSTANT WALKS = FALSE
VIEW View
INVARIANT TypeOK
INVARIANT InvState
INVARIANT InvDictView
INVARIANT InvLaws
INVARIANT InvNav
INVARIANT InvNavFlat
INVARIANT Emit
PROPERTY StepOK
CHECK_DEADLOCK FALSE

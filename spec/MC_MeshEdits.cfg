SPECIFICATION Spec
CONSTANT MaxDepth = 2
CONSTANT NES = {2, 3}
INVARIANT SeedsConsistent
INVARIANT Emit
CHECK_DEADLOCK FALSE

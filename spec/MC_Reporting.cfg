SPECIFICATION Spec
CONSTANT MaxDepth = 4
CONSTANT EMITMOD = 199
INVARIANT Conform
INVARIANT QueriesPure
INVARIANT GTMean
INVARIANT SolveTable
INVARIANT AssignGTTable
INVARIANT PressureTable
INVARIANT RoundTrip
INVARIANT TablesAgree
INVARIANT Symmetric
INVARIANT Emit
PROPERTY PureQueries
CONSTRAINT DepthOK
VIEW View
CHECK_DEADLOCK FALSE

SPECIFICATION Spec
CONSTANT N = 3
CONSTANT SITES <- Sites7
CONSTANT STENCIL <- Stencil9
CONSTANT GUESSMODES <- GuessAll
CONSTANT STAMPS <- Stamps1
CONSTANT WITHVEL = FALSE
CONSTANT EMITMOD = 997
INVARIANT InvRange
INVARIANT InvInjective
INVARIANT InvGuess
INVARIANT InvCorrect
INVARIANT InvRoundTrip
INVARIANT InvRoundTripWeak
INVARIANT Emit
CHECK_DEADLOCK FALSE

SPECIFICATION Spec
CONSTANT N = 3
CONSTANT SITES <- Sites3
CONSTANT STENCIL1 <- StJ1
CONSTANT STENCIL2 <- StJ2
CONSTANT VANISH <- NoVanish
CONSTANT ALLORDERS = FALSE
CONSTANT EMITMOD = 5
INVARIANT InvAccel
INVARIANT InvTotal
INVARIANT InvSame
INVARIANT InvRhs
INVARIANT InvEdges
INVARIANT Emit
CHECK_DEADLOCK FALSE

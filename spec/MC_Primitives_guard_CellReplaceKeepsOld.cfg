SPECIFICATION Spec
CONSTANT NV0 = 3
CONSTANT NV = 3
CONSTANT EIDS = {0, 1}
CONSTANT CIDS = {0, 1}
CONSTANT BIDS = {0}
CONSTANT MAXE = 3
CONSTANT MAXC = 2
CONSTANT CYCLEN = 3
CONSTANT OPS <- OpsCells
CONSTANT MAXDEPTH = 4
CONSTANT EMITMOD = 1
CONSTANT WALKS = FALSE
VIEW View
INVARIANT G_CellReplaceKeepsOld
CHECK_DEADLOCK FALSE

SPECIFICATION Spec
CONSTANT NF = 2
CONSTANT KS <- KS234
CONSTANT SHAPES <- ShapesA
CONSTANT FAR = TRUE
CONSTANT CANON = 2
CONSTANT ONESET = TRUE
CONSTANT GUESSMAX = 99
CONSTANT ALLORDERS = FALSE
CONSTANT EMITMOD = 5
CONSTANT HIST = FALSE
INVARIANT InvPbm
INVARIANT InvAlgebra
INVARIANT InvVPos
INVARIANT InvVel
INVARIANT InvTtu
INVARIANT InvWhole
INVARIANT InvExport
INVARIANT InvCm
INVARIANT InvForced
INVARIANT InvMachine
INVARIANT Emit
PROPERTY QueriesArePure
CHECK_DEADLOCK FALSE

---------------------------- MODULE Certificates ----------------------------
(***************************************************************************)
(* Certificates evaluated by TLC on values logged from the implementation. *)
(*                                                                         *)
(* Augmented force system of the specification (C05):                      *)
(*      | A  1 | |x     |   |b|        A: two rows per junction, sparse    *)
(*      | 1' 0 | |lambda| = |n|        b: right-hand side, 3 decimals      *)
(* z = (x, lambda) is the non-negative least-squares optimum iff the KKT   *)
(* conditions hold: z >= 0, g = M'(Mz - r) >= 0, z_i g_i = 0.              *)
(* The multiplier is existentially quantified; for given x the best        *)
(* lambda >= 0 is max(0, mean(b - A x)) in closed form.                    *)
(***************************************************************************)
EXTENDS FixedPoint

\* rows[k] = [v, r, e |-> <<<<col, ex, ey>>, ...>>];  b[k] = <<bx, by>>; x = sequence over columns
RECURSIVE RowDotX(_, _, _)
RowDotX(es, x, j) == IF j > Len(es) THEN 0 ELSE Mul(es[j][2], x[es[j][1]]) + RowDotX(es, x, j + 1)
RECURSIVE RowDotY(_, _, _)
RowDotY(es, x, j) == IF j > Len(es) THEN 0 ELSE Mul(es[j][3], x[es[j][1]]) + RowDotY(es, x, j + 1)

AxX(rows, x, k) == RowDotX(rows[k].e, x, 1)
AxY(rows, x, k) == RowDotY(rows[k].e, x, 1)

RECURSIVE SumRes(_, _, _, _)      \* sum over rows of (b - A x), both components
SumRes(rows, b, x, k) == IF k > Len(rows) THEN 0
                         ELSE (b[k][1] - AxX(rows, x, k)) + (b[k][2] - AxY(rows, x, k)) + SumRes(rows, b, x, k + 1)

BestLambda(rows, b, x) == IF Len(rows) = 0 THEN 0
                          ELSE Max(0, TDiv(SumRes(rows, b, x, 1), 2 * Len(rows)))

ResX(rows, b, x, lam, k) == AxX(rows, x, k) + lam - b[k][1]
ResY(rows, b, x, lam, k) == AxY(rows, x, k) + lam - b[k][2]
ResSum(x, n) == SumSeq(x) - n * Q

\* entry of column c in row k (0 if absent)
EntX(row, c) == IF \E j \in DOMAIN row.e : row.e[j][1] = c THEN row.e[CHOOSE j \in DOMAIN row.e : row.e[j][1] = c][2] ELSE 0
EntY(row, c) == IF \E j \in DOMAIN row.e : row.e[j][1] = c THEN row.e[CHOOSE j \in DOMAIN row.e : row.e[j][1] = c][3] ELSE 0

RECURSIVE GradColAcc(_, _, _, _, _, _)
GradColAcc(rows, b, x, lam, c, k) ==
  IF k > Len(rows) THEN 0
  ELSE (IF \E j \in DOMAIN rows[k].e : rows[k].e[j][1] = c
        THEN Mul(EntX(rows[k], c), ResX(rows, b, x, lam, k)) + Mul(EntY(rows[k], c), ResY(rows, b, x, lam, k))
        ELSE 0) + GradColAcc(rows, b, x, lam, c, k + 1)
GradCol(rows, b, x, lam, n, c) == GradColAcc(rows, b, x, lam, c, 1) + ResSum(x, n)

RECURSIVE GradLamAcc(_, _, _, _, _)
GradLamAcc(rows, b, x, lam, k) == IF k > Len(rows) THEN 0
   ELSE ResX(rows, b, x, lam, k) + ResY(rows, b, x, lam, k) + GradLamAcc(rows, b, x, lam, k + 1)

\* tolerances (fixed point): solver 1e-6 relative, quantisation 0.5e-6 per logged value, Mul 2e-6 per product
TolZ     == 50          \* 5e-5 on non-negativity
TolGrad(rows)    == 2000 + 40 * Len(rows)     \* 2e-3 + 4e-5 per junction (dense multiplier column)
TolComp(rows)    == 4000 + 80 * Len(rows)

KKTPrimalOK(x, lam)  == lam >= -TolZ /\ \A c \in DOMAIN x : x[c] >= -TolZ
KKTGradBad(rows, b, x, lam, n) == {c \in DOMAIN x : GradCol(rows, b, x, lam, n, c) < -TolGrad(rows)}
KKTCompBad(rows, b, x, lam, n) == {c \in DOMAIN x : Abs(Mul(x[c], GradCol(rows, b, x, lam, n, c))) > TolComp(rows)}
KKTLamOK(rows, b, x, lam) == LET g == GradLamAcc(rows, b, x, lam, 1) IN
                               g >= -TolGrad(rows) /\ Abs(Mul(lam, g)) <= TolComp(rows)

\* residual small in every equation (consistent system solved exactly)
ResidualSmall(rows, b, x, lam, n, tol) ==
  /\ \A k \in DOMAIN rows : Abs(ResX(rows, b, x, lam, k)) <= tol /\ Abs(ResY(rows, b, x, lam, k)) <= tol
  /\ Abs(ResSum(x, n)) <= tol + Len(x)

IsNNLSOptimum(rows, b, x, n) ==
  LET lam == BestLambda(rows, b, x) IN
  /\ KKTPrimalOK(x, lam)
  /\ KKTGradBad(rows, b, x, lam, n) = {}
  /\ KKTCompBad(rows, b, x, lam, n) = {}
  /\ KKTLamOK(rows, b, x, lam)

(***************************************************************************)
(* Zero-sum least squares on a graph (C04): rows q: p[hi] - p[lo] = rhs.   *)
(* Normal equations L'L p = L'r  (the constant multiplier vanishes because *)
(* the columns of L sum to zero) and sum(p) = 0.                           *)
(* prow[q] = [hi, lo, rhs]; p = sequence over cells                        *)
(***************************************************************************)
PRes(prow, p, q) == p[prow[q].hi] - p[prow[q].lo] - prow[q].rhs
RECURSIVE NormalEqAcc(_, _, _, _)
NormalEqAcc(prow, p, c, q) == IF q > Len(prow) THEN 0
   ELSE (IF prow[q].hi = c THEN PRes(prow, p, q) ELSE IF prow[q].lo = c THEN -PRes(prow, p, q) ELSE 0)
        + NormalEqAcc(prow, p, c, q + 1)
NormalEq(prow, p, c) == NormalEqAcc(prow, p, c, 1)
=============================================================================

--------------------------- MODULE Trace_Workflow ---------------------------
(***************************************************************************)
(* Trace validation of Workflow.tla on recorded ForSys sessions             *)
(* (harness/props/workflow.py).  Events:                                    *)
(*   Begin {nf, ne, refs, obs, dangling}          a fresh two-frame session *)
(*   Call  {op, t, a, raised, pre, res, refs, obs, dangling}  one public    *)
(*         call, refused ones included                                      *)
(* obs[t+1] = what the real objects show for frame t after the call:        *)
(*   fgen / tsgen   generation stamp of frames[t] / mesh.time_series[t]     *)
(*   ver, cachever  mesh version, version of the coordinates cached in the  *)
(*                  interfaces of the current Frame                         *)
(*   regclean       Vertex.own_big_edges lists exactly the current          *)
(*                  interfaces                                              *)
(*   fm, pm         matrix objects: generation of the Frame they reference, *)
(*                  option, `new` (another object than before the call),    *)
(*                  fm.meq = mesh versions whose freshly built matrix       *)
(*                  equals the stored one, pm.rhs                           *)
(*   forces, fattr, et, bt, ext, bedges, cp, pstore, tensor   the tables    *)
(* refs = what a FRESH session on a deep-rebuilt copy of mesh version v of  *)
(*   frame t (partner version pv) shows for build option opt / solve option *)
(*   sopt: x (forces), ew (mesh-edge layer: [written, value]), bt, prhs,    *)
(*   cp, sig.  They are a projection; every comparison is made here.        *)
(*                                                                         *)
(* The model state `st` is threaded through the events with Workflow!Step;  *)
(* clauses WF.<name> compare the observation with the model's successor,    *)
(* clauses WF.D.<name> evaluate the declarative properties on the recorded  *)
(* numbers against the fresh references of the CURRENT mesh versions.       *)
(* Verdicts are total: every index is guarded.                              *)
(***************************************************************************)
EXTENDS TraceKit

CONSTANTS NF, MaxGen
INSTANCE Workflow

VARIABLES l, st, refs, poisoned
TOL == 3

Init == l = 1 /\ st = InitState /\ refs = <<>> /\ poisoned = FALSE

Abs(x) == IF x < 0 THEN -x ELSE x
CloseV(a, b) == a[1] = b[1] /\ (a[1] # 1 \/ Abs(a[2] - b[2]) <= TOL)          \* [flag, value] pairs
CloseSeq(a, b) == Len(a) = Len(b) /\ \A i \in DOMAIN a : CloseV(a[i], b[i])
AllZero(a) == \A i \in DOMAIN a : a[i][1] = 1 /\ Abs(a[i][2]) <= TOL
AllNone(a) == \A i \in DOMAIN a : a[i][1] = 0
Idx(q, i) == IF i \in DOMAIN q THEN q[i] ELSE <<2, 0>>
\* values keyed by cell id: every current cell shows the reference value of the cell with the same id
CloseById(vals, ids, rvals, rids) ==
  /\ Len(vals) = Len(ids) /\ Len(rvals) = Len(rids)
  /\ \A i \in DOMAIN vals : \E j \in DOMAIN rids : rids[j] = ids[i] /\ CloseV(vals[i], rvals[j])

(* ---- references ------------------------------------------------------------------------------ *)
\* a fresh session can reproduce a solution only if its matrix and its velocity right-hand side saw the same version of the
\* frame's own mesh (an old matrix solved after filter_edges mixes two versions: nothing to compare with)
Verifiable(r) == r.sopt # "vel" \/ r.rv = r.ver
RefIdx(rs, t, r) == {i \in DOMAIN rs : Verifiable(r) /\ rs[i].t = t /\ rs[i].v = r.ver /\ rs[i].opt = r.opt /\ rs[i].sopt = r.sopt /\ rs[i].pv = r.pv}
HasRef(rs, t, r) == RefIdx(rs, t, r) # {}
Ref(rs, t, r) == rs[CHOOSE i \in RefIdx(rs, t, r) : TRUE]
\* the references of the mesh as it is now
CurRefs(rs, S, t) == {i \in DOMAIN rs : rs[i].t = t /\ rs[i].v = S.ver[t] /\ rs[i].pv \in {-1, S.ver[Partner(t)]} /\ rs[i].raised = ""}

(* ---- expected mesh-edge layer: the latest write that covers the edge --------------------------- *)
RECURSIVE EdgeFrom(_, _, _, _, _)
EdgeFrom(rs, S, t, e, g) ==
  IF g < 0 THEN <<1, 0>>
  ELSE LET w == S.ew[t][g] IN
       IF w.has /\ HasRef(rs, t, w) /\ Idx(Ref(rs, t, w).ew, e)[1] = 1 THEN Idx(Ref(rs, t, w).ew, e)
       ELSE EdgeFrom(rs, S, t, e, g - 1)
LayerRefsKnown(rs, S, t) == \A g \in Gens : S.ew[t][g].has => (HasRef(rs, t, S.ew[t][g]) /\ Ref(rs, t, S.ew[t][g]).raised = "")
LayerVerifiable(S, t) == \A g \in Gens : S.ew[t][g].has => Verifiable(S.ew[t][g])

RECURSIVE SumOver(_, _, _)
SumOver(et, es, i) == IF i > Len(es) THEN 0 ELSE Idx(et, es[i])[2] + SumOver(et, es, i + 1)
MeanOK(bt, et, es) == /\ bt[1] = 1 /\ \A j \in DOMAIN es : Idx(et, es[j])[1] = 1
                      /\ Abs(Len(es) * bt[2] - SumOver(et, es, 1)) <= (TOL + 1) * Len(es)

(* ---- conformance of one frame's observation with the model state ------------------------------- *)
FrameFails(rs, S, o, t, fbuilt, pbuilt) ==
  LET f == S.forces[t]
      p == S.cp[t]
      pchain == p.has /\ ~p.tz /\ p.tclean /\ p.cver = p.ver /\ p.top.ver = p.ver /\ p.top.gen = p.gen
                /\ HasRef(rs, t, p.top) /\ Ref(rs, t, p.top).raised = "" /\ Ref(rs, t, p.top).praised = ""
      m == S.pm[t]
      mchain == m.has /\ ~m.tz /\ m.tclean /\ m.cver = m.ver /\ m.top.ver = m.ver /\ m.top.gen = m.gen
                /\ HasRef(rs, t, m.top) /\ Ref(rs, t, m.top).raised = "" /\ Ref(rs, t, m.top).prhs # <<>>
  IN
  (IF o.fgen # S.gen[t] \/ o.tsgen # S.gen[t] THEN {"WF.frame_gen"} ELSE {})
  \cup (IF o.ver # S.ver[t] \/ o.cachever # S.fver[t] THEN {"WF.mesh_version"} ELSE {})
  \cup (IF o.regclean # (S.reg[t] = "clean") THEN {"WF.registry"} ELSE {})
  \cup (IF \/ o.fm.has # S.fm[t].has
           \/ o.fm.has /\ (o.fm.fgen # S.fm[t].gen \/ o.fm.opt # S.fm[t].opt)
           \/ o.fm.new # (t \in fbuilt)
        THEN {"WF.fm"} ELSE {})
  \cup (IF o.fm.has /\ S.fm[t].has /\ ~(\E i \in DOMAIN o.fm.meq : o.fm.meq[i] = S.fm[t].ver)
        THEN {"WF.fm_numbers"} ELSE {})
  \cup (IF \/ o.pm.has # S.pm[t].has
           \/ (o.pm.has /\ o.pm.fgen # S.pm[t].gen)
           \/ o.pm.new # (t \in pbuilt)
           \/ o.pm.has /\ m.tz /\ ~AllZero(o.pm.rhs)
           \/ o.pm.has /\ mchain /\ ~CloseSeq(o.pm.rhs, Ref(rs, t, m.top).prhs)
        THEN {"WF.pm"} ELSE {})
  \cup (IF \/ o.forces.has # f.has
           \/ f.has /\ HasRef(rs, t, f) /\ Ref(rs, t, f).raised = "" /\ ~CloseSeq(o.forces.x, Ref(rs, t, f).x)
        THEN {"WF.forces_store"} ELSE {})
  \cup (IF f.has /\ Verifiable(f) /\ ~HasRef(rs, t, f) THEN {"WF.noref"} ELSE {})
  \cup (IF \E g \in Gens : S.ew[t][g].has /\ Verifiable(S.ew[t][g]) /\ ~HasRef(rs, t, S.ew[t][g]) THEN {"WF.noref"} ELSE {})
  \cup (IF ((o.fattr = "none") # (~S.fattr[t].has)) \/ (S.fattr[t].has /\ (o.fattr # "store" \/ S.fattr[t] # f)) THEN {"WF.fattr"} ELSE {})
  \cup (IF ~S.junk[t] /\ LayerRefsKnown(rs, S, t)
           /\ \E e \in DOMAIN o.et : o.et[e][1] # 0 /\ ~CloseV(o.et[e], EdgeFrom(rs, S, t, e, MaxGen))
        THEN {"WF.edge_layer"} ELSE {})
  \cup (IF \/ Len(o.bt) # Len(o.bedges)
           \/ S.tabz[t] /\ ~AllZero(o.bt)
           \/ ~S.tabz[t] /\ \E i \in DOMAIN o.bt : i \in DOMAIN o.bedges /\ ~MeanOK(o.bt[i], o.et, o.bedges[i])
        THEN {"WF.table"} ELSE {})
  \cup (IF \/ ~p.has /\ ~AllNone(o.cp)
           \/ p.has /\ (\E i \in DOMAIN o.cp : o.cp[i][1] = 0)
           \/ p.has /\ p.tz /\ ~AllZero(o.cp)
           \/ pchain /\ ~CloseById(o.cp, o.cids, Ref(rs, t, p.top).cp, Ref(rs, t, p.top).cids)
        THEN {"WF.cell_pressures"} ELSE {})
  \cup (IF \/ o.pstore.has # S.pstore[t].has
           \/ S.pstore[t].has /\ S.pstore[t] = p /\ p.gen = S.gen[t] /\ ~CloseSeq(o.pstore.x, o.cp)
        THEN {"WF.pstore"} ELSE {})
  \cup (IF \/ o.tensor.has # S.tensor[t].has
           \/ S.tensor[t].has /\ S.tensor[t].ok /\ CurTensor(S, t) /\ pchain /\ CurP(S, t, p) /\ ~CloseSeq(o.tensor.sig, Ref(rs, t, p.top).sig)
        THEN {"WF.tensor"} ELSE {})

(* ---- declarative properties on the recorded numbers --------------------------------------------- *)
\* P1: every reported table is zero / empty or equals what a fresh session on the current mesh shows (for some option)
TableFresh(rs, S, o, t) == AllZero(o.bt) \/ \E i \in CurRefs(rs, S, t) : CloseSeq(o.bt, rs[i].bt)
ForcesFresh(rs, S, o, t) == ~o.forces.has \/ \E i \in CurRefs(rs, S, t) : CloseSeq(o.forces.x, rs[i].x)
PressuresFresh(rs, S, o, t) == AllNone(o.cp) \/ AllZero(o.cp) \/ \E i \in CurRefs(rs, S, t) : rs[i].praised = "" /\ CloseSeq(o.cp, rs[i].cp)
StaleFails(rs, S, o, t) ==
  (IF ~TableFresh(rs, S, o, t) THEN {"WF.D.table_fresh"} ELSE {})
  \cup (IF ~ForcesFresh(rs, S, o, t) THEN {"WF.D.forces_fresh"} ELSE {})
  \cup (IF ~PressuresFresh(rs, S, o, t) THEN {"WF.D.pressures_fresh"} ELSE {})
\* P2: after the four calls were re-issued the frame shows exactly the fresh session's numbers for the options used
RecomputedFails(rs, S, o, t) ==
  IF S.redo[t] # 4 \/ ~S.forces[t].has THEN {}
  ELSE LET k == [S.forces[t] EXCEPT !.gen = S.gen[t], !.ver = S.ver[t], !.rv = IF @ = -1 THEN -1 ELSE S.ver[t]] IN
       IF ~HasRef(rs, t, k) \/ Ref(rs, t, k).raised # "" \/ Ref(rs, t, k).praised # "" THEN {}
       ELSE LET r == Ref(rs, t, k) IN
            (IF ~CloseSeq(o.bt, r.bt) THEN {"WF.D.recomputed_table"} ELSE {})
            \cup (IF ~CloseSeq(o.forces.x, r.x) THEN {"WF.D.recomputed_forces"} ELSE {})
            \cup (IF ~CloseSeq(o.cp, r.cp) THEN {"WF.D.recomputed_pressures"} ELSE {})

(* ---- known-finding triage of the failing clauses of frame t --------------------------------------- *)
Triage(S, t, fails) ==
  LET dcl == {"WF.D.table_fresh", "WF.D.forces_fresh", "WF.D.pressures_fresh", "WF.D.recomputed_table", "WF.D.recomputed_forces",
              "WF.D.recomputed_pressures"}
      oldmap == {c \in fails : c \in dcl /\ VelThroughOldMapping(S, t)}
      r0 == fails \ oldmap
      stale == {c \in r0 : c \in {"WF.D.table_fresh", "WF.D.forces_fresh", "WF.D.pressures_fresh"} /\ KF_EditKeepsResults(S, t)}
      r1 == r0 \ stale
      border == {c \in r1 : c \in {"WF.D.recomputed_table"} /\ KF_StaleBorderRows(S, t)}
      r2 == r1 \ border
      cache == {c \in r2 : c \in {"WF.D.recomputed_pressures"} /\ KF_FilterKeepsCache(S, t)}
      r3 == r2 \ cache
      regs == {c \in r3 : c = "WF.fm_numbers" /\ KF_StaleRegistry(S, t)}
  IN  [fails |-> r3 \ regs,
       kf |-> {"KF_MappingNeverRebuilt:" \o c : c \in oldmap} \cup {"KF_EditKeepsResults:" \o c : c \in stale} \cup {"KF_StaleBorderRows:" \o c : c \in border}
              \cup {"KF_FilterKeepsCache:" \o c : c \in cache} \cup {"KF_StaleRegistry:" \o c : c \in regs}]

(* ---- the query results ----------------------------------------------------------------------------- *)
ResultFails(e, o) ==
  IF e.raised # "" THEN {}
  ELSE IF e.op = "GetTensions" THEN
         LET rows == e.res.rows
             want == IF e.res.wb THEN {i \in DOMAIN o.bt : TRUE} ELSE {i \in DOMAIN o.bt : ~o.ext[i]}
         IN  IF /\ {rows[j][1] : j \in DOMAIN rows} = want /\ Len(rows) = Cardinality(want)
                /\ \A j \in DOMAIN rows : rows[j][1] \in DOMAIN o.bt /\ CloseV(rows[j][2], o.bt[rows[j][1]])
             THEN {} ELSE {"WF.result"}
  ELSE IF e.op = "GetPressures" THEN
         LET rows == e.res.rows IN
         IF Len(rows) = Len(o.cp) /\ \A j \in DOMAIN rows : rows[j][1] = o.cids[j] /\ CloseV(rows[j][2], o.cp[j])
         THEN {} ELSE {"WF.result"}
  ELSE IF e.op = "LogForce" THEN (IF CloseSeq(e.res.x, o.forces.x) THEN {} ELSE {"WF.result"})
  ELSE {}
\* get_system_velocity_per_frame: the mean speeds a fresh session on the current meshes reports (it may refuse the pair)
SysVelFails(e) ==
  IF e.op # "SystemVelocity" \/ e.raised # "" THEN {}
  ELSE IF e.res.refraised # "" \/ ~CloseSeq(e.res.x, e.res.ref) THEN {"WF.D.sysvel_fresh"} ELSE {}

Call(e) == [op |-> e.op, t |-> e.t, a |-> e.a,
            n |-> e.pre.nflag,
            nd |-> CASE e.op \in {"RemoveCell", "RemoveOutermost"} -> (e.t + 1 \in DOMAIN e.obs /\ e.obs[e.t + 1].regclean)
                     [] e.op \in {"SolveStress", "BuildForce", "SystemVelocity"} -> (IF e.op = "SolveStress" THEN e.raised # "" ELSE e.raised = "")
                     [] OTHER -> FALSE]
\* RemoveCell: the kind of the cell is a recorded fact (number of vertices that belong to it alone)
CallK(e) == IF e.op = "RemoveCell" THEN [Call(e) EXCEPT !.a = (IF e.pre.priv > 0 THEN "border" ELSE "interior") \o (IF e.pre.in0 THEN "" ELSE "_absent")]
            ELSE IF e.op = "RemoveOutermost" /\ e.t # 0 /\ e.pre.nflag > 0 /\ e.pre.priv = 0 THEN [Call(e) EXCEPT !.op = "Unmodelled"]
            ELSE Call(e)

Next ==
  /\ l <= Len(TR)
  /\ LET e == TR[l] IN
     IF e.ev = "Begin" THEN
        LET rs == e.refs
            S == InitState
            raw == IF Len(e.obs) # NF THEN {}
                   ELSE UNION {FrameFails(rs, S, e.obs[t + 1], t, {}, {}) : t \in Frames}
                        \cup (IF e.dangling # 0 THEN {"WF.D.mapping_current"} ELSE {})
        IN  /\ EmitV(e, raw, {}, {"WF.Begin"}, {}, Len(e.obs) # NF)
            /\ st' = S /\ refs' = rs /\ poisoned' = FALSE
     ELSE IF poisoned \/ Len(e.obs) # NF \/ e.t \notin Frames \/ CallK(e).op = "Unmodelled" THEN
        EmitV(e, {}, {}, {"WF.poisoned"}, {}, TRUE) /\ UNCHANGED <<st, refs>> /\ poisoned' = TRUE
     ELSE
        LET rs == refs \o e.refs
            c == CallK(e)
            res == Step(st, c)
            S == res.s
            accepted == e.raised = ""
            refusal == IF (e.raised # "") # res.raised THEN {"WF.raised:" \o e.op} ELSE {}
            \* a refusal that the model attributes to a known finding
            refKF == IF e.raised # "" /\ res.raised
                     THEN (IF e.op \in {"BuildForce", "SystemVelocity"} /\ (\E u \in Frames : KF_StaleRegistry(st, u))
                           THEN {"KF_StaleRegistry:WF.D.rebuild_possible"} ELSE {})
                          \cup (IF e.op \in {"RemoveCell", "RemoveOutermost"} /\ e.t # 0 /\ S.dmg[e.t] THEN {"KF_FrameZeroWF:WF.D.refusal_changes_nothing"} ELSE {})
                          \cup (IF e.op = "SolveStress" /\ st.fm[e.t].has THEN {"KF_EditKeepsResults:WF.D.refusal_changes_nothing"} ELSE {})
                     ELSE IF e.op \in {"RemoveCell", "RemoveOutermost"} /\ e.t # 0 /\ S.dmg[0] THEN {"KF_FrameZeroWF:WF.D.isolated"} ELSE {}
            per == [t \in Frames |->
                      IF \E u \in Frames : S.dmg[u] THEN [fails |-> {}, kf |-> {}]
                      ELSE LET o == e.obs[t + 1] IN
                           Triage(S, t, FrameFails(rs, S, o, t, res.fbuilt, res.pbuilt) \cup StaleFails(rs, S, o, t)
                                        \cup RecomputedFails(rs, S, o, t)
                                        \cup (IF t = e.t THEN ResultFails(e, o) ELSE {}))]
            sysvel == IF SysVelFails(e) = {} THEN [fails |-> {}, kf |-> {}]
                      ELSE IF \E t \in Frames : ~MappingDescribes(S, t)
                      THEN [fails |-> {}, kf |-> {"KF_MappingNeverRebuilt:" \o cl : cl \in SysVelFails(e)}]
                      ELSE [fails |-> SysVelFails(e), kf |-> {}]
            mapping == IF e.dangling # 0 THEN (IF KF_MappingNeverRebuilt(S) THEN [fails |-> {}, kf |-> {"KF_MappingNeverRebuilt:WF.D.mapping_current"}]
                                               ELSE [fails |-> {"WF.D.mapping_current"}, kf |-> {}])
                       ELSE [fails |-> {}, kf |-> {}]
            fails == refusal \cup UNION {per[t].fails : t \in Frames} \cup mapping.fails
                     \cup (IF \E u \in Frames : S.dmg[u] THEN {} ELSE sysvel.fails)
            kf == refKF \cup UNION {per[t].kf : t \in Frames} \cup mapping.kf \cup (IF \E u \in Frames : S.dmg[u] THEN {} ELSE sysvel.kf)
            hits == {"WF." \o e.op} \cup (IF res.raised THEN {"WF.refused"} ELSE {})
                    \cup (IF \E t \in Frames : S.gen[t] > 0 THEN {"WF.after_removal"} ELSE {})
                    \cup (IF \E t \in Frames : S.redo[t] = 4 THEN {"WF.recomputed"} ELSE {})
        IN  /\ EmitV(e, fails, kf, hits, {}, FALSE)
            /\ st' = S /\ refs' = rs
            /\ poisoned' = (\E t \in Frames : S.dmg[t])
  /\ l' = l + 1

Spec == Init /\ [][Next]_<<l, st, refs, poisoned>>
Done == TLCGet("stats").diameter - 1 = Len(TR)
=============================================================================

SPECIFICATION Spec
CONSTANT KS = {0, 1}
CONSTANT MaxDepth = 2
CONSTANT Frames = 2
INVARIANT InitOK
INVARIANT DeviationsKnown
INVARIANT AcceptedIsSubMesh
INVARIANT Emit
CHECK_DEADLOCK FALSE

SPECIFICATION Spec
CONSTANT KS = {0, 1, 2, 4, 7, 16}
INVARIANT ModelMeshConsistent
INVARIANT ImplSatisfiesD
INVARIANT ThreeCopiesAgree
INVARIANT Emit
CHECK_DEADLOCK FALSE

------------------------------ MODULE Workflow ------------------------------
(***************************************************************************)
(* WHICH OBJECT GENERATION every result of a ForSys session belongs to.     *)
(* Refinement of Pipeline.tla (which knows only availability flags) for the *)
(* part of the protocol after `ForSys(frames)`: every object carries the    *)
(* generation / mesh version it was made from.                              *)
(*                                                                         *)
(* What the code does (forsys.py, frames.py, fmatrix.py, pmatrix.py,        *)
(* general_matrix.py, time_series.py, edge.py), transcribed:                *)
(*  * a frame's three dictionaries and the Vertex / SmallEdge / Cell        *)
(*    objects in them are SHARED by all Frame objects ever built for that   *)
(*    frame; `ver[t]` counts the edits of that shared mesh (remove_cell     *)
(*    deletes entries, filter_edges moves vertices in place);               *)
(*  * ForSys.remove_cell(t, c) builds a NEW Frame object on the surviving   *)
(*    primitives and stores it under frames[t] (`gen[t]` counts them): new  *)
(*    BigEdge objects (tension 0.0, coordinates cached at construction =    *)
(*    `fver[t]`), no `forces`, `stress_tensor`, `principal_stress`          *)
(*    attributes; nothing else of the session is touched: force / pressure  *)
(*    matrices keep a reference to the Frame object they were built from,   *)
(*    forces[t] / pressures[t] keep the old lists, SmallEdge.tension and    *)
(*    Cell.pressure stay on the shared objects, the TimeSeries keeps the    *)
(*    mapping made at construction (its `time_series` IS the frames dict,   *)
(*    so it sees the new Frame);                                            *)
(*  * BigEdge registers its id in Vertex.own_big_edges and never            *)
(*    deregisters: after a rebuild the registry mixes ids of two            *)
(*    generations (`reg[t] = "stale"`), which ForceMatrix reads;            *)
(*  * ForceMatrix.solve writes xres onto the mesh edges of the interfaces   *)
(*    of ITS frame (the generation it was built from) through the shared    *)
(*    dictionaries, then ForSys stores the list under forces[t], sets it    *)
(*    as attribute of the CURRENT Frame object and lets the current Frame   *)
(*    average the mesh-edge tensions over ITS interfaces;                   *)
(*  * PressureMatrix reads, at construction, BigEdge.tension and the cached *)
(*    coordinates of the current Frame's interfaces; solve_pressure assigns *)
(*    the solution of whatever matrix is stored to the cells of the current *)
(*    Frame;                                                                *)
(*  * `del self.frames[0].cells[cell_id]`: for frame_number # 0 the cell is *)
(*    deleted from frame 0 (edits2 / KF_FrameZero).                         *)
(*                                                                         *)
(* The state is ONE record so that MC_Workflow (variables) and              *)
(* Trace_Workflow (a record threaded through the recorded events) use the   *)
(* same successor function `Step`.                                          *)
(***************************************************************************)
EXTENDS Integers, Sequences, FiniteSets, TLC

CONSTANTS NF,       \* frames 0..NF-1 (NF >= 2: a one-frame session has no TimeSeries)
          MaxGen    \* Frame generations 0..MaxGen are tracked

Frames == 0..(NF - 1)
Gens == 0..MaxGen
\* calculate_velocity: forward difference, backward at the last frame
Partner(t) == IF t = NF - 1 THEN t - 1 ELSE t + 1
BuildOpts == {"pi", "lim"}          \* build_force_matrix(angle_limit = default | a limit that excludes junctions)
SolveOpts == {"static", "vel"}      \* solve_stress() | solve_stress(b_matrix="velocity", adimensional_velocity=True)

(* ---- provenance records --------------------------------------------------------------- *)
\* a solution of the force system: matrix built from Frame generation `gen` when the mesh had version `ver`, options,
\* and (velocity right-hand side: positions are read from the live vertices at solve time) the versions `rv` of the frame's
\* own mesh and `pv` of the partner frame's mesh at solve time
NoSol == [has |-> FALSE, gen |-> -1, ver |-> -1, opt |-> "", sopt |-> "", pv |-> -1, rv |-> -1]
Sol(g, v, o, s, pv, rv) == [has |-> TRUE, gen |-> g, ver |-> v, opt |-> o, sopt |-> s, pv |-> pv, rv |-> rv]
NoFM == [has |-> FALSE, gen |-> -1, ver |-> -1, opt |-> ""]
FM(g, v, o) == [has |-> TRUE, gen |-> g, ver |-> v, opt |-> o]
\* a pressure matrix / pressure solution: Frame generation, version of the coordinates cached in that Frame's BigEdges
\* (curvature), mesh version at build (area sign), and the interface tensions read at build: zero table (tz), or the
\* top write `top` of the mesh-edge layer with `tclean` = the layer held nothing but that write
NoPM == [has |-> FALSE, gen |-> -1, cver |-> -1, ver |-> -1, tz |-> TRUE, top |-> NoSol, tclean |-> TRUE]
NoTensor == [has |-> FALSE, gen |-> -1, ver |-> -1, ok |-> FALSE]

EmptyLayer == [g \in Gens |-> NoSol]

InitState ==
  [gen    |-> [t \in Frames |-> 0],          \* generation of the Frame object stored under frames[t]
   ver    |-> [t \in Frames |-> 0],          \* version of the shared mesh of frame t (cells present + positions)
   fver   |-> [t \in Frames |-> 0],          \* mesh version when the current Frame object was constructed (BigEdge.xs/ys cache)
   reg    |-> [t \in Frames |-> "clean"],    \* Vertex.own_big_edges: exactly the current Frame's interfaces | "stale"
   dmg    |-> [t \in Frames |-> FALSE],      \* the mesh was changed under the live Frame object (no new generation)
   fm     |-> [t \in Frames |-> NoFM],       \* force_matrices[t]
   pm     |-> [t \in Frames |-> NoPM],       \* pressure_matrices[t]
   forces |-> [t \in Frames |-> NoSol],      \* forces[t]
   fattr  |-> [t \in Frames |-> NoSol],      \* frames[t].forces (attribute of the current Frame object; log_force reads it)
   ew     |-> [t \in Frames |-> EmptyLayer], \* SmallEdge.tension layer: per matrix generation the latest solve written through it
   junk   |-> [t \in Frames |-> FALSE],      \* a solve died half way: some mesh edges rewritten, nothing stored
   tabz   |-> [t \in Frames |-> TRUE],       \* BigEdge.tension of the current Frame is the constructor's 0.0 everywhere
   cp     |-> [t \in Frames |-> NoPM],       \* Cell.pressure (objects shared by all generations)
   pstore |-> [t \in Frames |-> NoPM],       \* pressures[t]
   tensor |-> [t \in Frames |-> NoTensor],   \* principal_stress (attribute of a Frame object)
   redo   |-> [t \in Frames |-> 0]]          \* ghost: progress of build_force, solve_stress, build_pressure, solve_pressure
                                             \*        re-issued in this order since the last edit that concerns frame t

(* ---- currency: computed from the mesh as it is now -------------------------------------- *)
\* (a velocity right-hand side goes through the vertex mapping, which is that of generation 0 for ever)
MappingDescribes(S, t) == S.gen[t] = 0 /\ S.gen[Partner(t)] = 0
CurSol(S, t, r) == r.has => /\ r.gen = S.gen[t] /\ r.ver = S.ver[t]
                            /\ r.sopt = "vel" => (r.pv = S.ver[Partner(t)] /\ r.rv = S.ver[t] /\ MappingDescribes(S, t))
Writes(S, t) == {g \in Gens : S.ew[t][g].has}
Top(S, t) == IF Writes(S, t) = {} THEN NoSol
             ELSE S.ew[t][CHOOSE g \in Writes(S, t) : \A h \in Writes(S, t) : h <= g]
\* the tension table of the current Frame (get_tensions(with_border=True)): zero, or the mean of the mesh-edge layer
InternalRowsCurrent(S, t) == S.tabz[t] \/ (~S.junk[t] /\ Top(S, t).gen = S.gen[t] /\ CurSol(S, t, Top(S, t)))
BorderRowsClean(S, t) == S.tabz[t] \/ (~S.junk[t] /\ Writes(S, t) \subseteq {S.gen[t]})
TabCurrent(S, t) == InternalRowsCurrent(S, t) /\ BorderRowsClean(S, t)
CurP(S, t, p) == p.has => /\ p.gen = S.gen[t] /\ p.cver = S.ver[t] /\ p.ver = S.ver[t]
                          /\ p.tz \/ (p.tclean /\ p.top.gen = S.gen[t] /\ CurSol(S, t, p.top))
CurTensor(S, t) == S.tensor[t].has => S.tensor[t].ok /\ S.tensor[t].gen = S.gen[t] /\ S.tensor[t].ver = S.ver[t]

(* ---- calls ------------------------------------------------------------------------------ *)
\* c = [op, t, a, n, nd]: a = option (BuildForce: build option, SolveStress: solve option, RemoveCell: "border" = the cell
\* has vertices of its own | "interior", with suffix "_absent" when frames[0] has no cell of that id);
\* n = RemoveOutermost: number of flagged cells; nd = outcome that depends on data the abstraction does not carry
\* (RemoveCell / RemoveOutermost: the registry comes out clean; SolveStress on a matrix two or more generations old: a
\* vertex of one of its interfaces is gone and the solve dies with KeyError half way; BuildForce / SystemVelocity on a
\* stale registry: the build goes through all the same)
Ops == {"BuildForce", "SolveStress", "BuildPressure", "SolvePressure", "SystemVelocity", "RemoveCell", "RemoveOutermost",
        "FilterEdges", "LogForce", "GetTensions", "GetPressures", "StressTensor"}
Queries == {"LogForce", "GetTensions", "GetPressures"}
Edits == {"RemoveCell", "RemoveOutermost", "FilterEdges"}

Args(op) == CASE op = "BuildForce" -> BuildOpts
              [] op = "SolveStress" -> SolveOpts
              [] op = "RemoveCell" -> {"border", "interior", "border_absent", "interior_absent"}
              [] OTHER -> {""}

\* an edit of frame t concerns t and every frame whose velocity partner is t
Concerned(t) == {u \in Frames : u = t \/ Partner(u) = t}
ResetRedo(S, t) == [u \in Frames |-> IF u \in Concerned(t) THEN 0 ELSE S.redo[u]]

\* ForceMatrix looks the interfaces of a junction up by the ids in Vertex.own_big_edges: with a stale registry the build
\* raises (KeyError / AssertionError) unless the ids at the junctions it visits happen to be right (`lucky`)
BuildForceOK(S, t) == ~S.dmg[t] /\ S.reg[t] = "clean"
BuildForceGoes(S, t, lucky) == ~S.dmg[t] /\ (S.reg[t] = "clean" \/ lucky)
BuildForceEff(S, t, o) == [S EXCEPT !.fm[t] = FM(S.gen[t], S.ver[t], o), !.redo[t] = 1]

\* a new Frame object for frame t on the mesh as it is now
NewFrame(S, t, clean) ==
  [S EXCEPT !.gen[t] = @ + 1, !.fver[t] = S.ver[t], !.reg[t] = IF clean THEN "clean" ELSE "stale",
            !.tabz[t] = TRUE, !.fattr[t] = NoSol, !.tensor[t] = NoTensor, !.redo = ResetRedo(S, t)]
\* remove_cell(0, c): the shared mesh loses the cell (and what belonged to it alone), then a new Frame
RemoveCell0(S, clean) ==
  LET S1 == [S EXCEPT !.ver[0] = @ + 1, !.redo = ResetRedo(S, 0)] IN NewFrame(S1, 0, clean)
RECURSIVE RemoveMany(_, _, _)
RemoveMany(S, n, clean) == IF n = 0 THEN S ELSE RemoveMany(RemoveCell0(S, clean), n - 1, clean)

Damage(S, t) == [S EXCEPT !.dmg = [u \in Frames |-> S.dmg[u] \/ u = t \/ u = 0]]
DamageOnly(S, t) == [S EXCEPT !.dmg[t] = TRUE]

\* result of a call: successor state, whether the call raised, and the frames whose force / pressure matrix object was replaced
RB(S, raised, fb, pb) == [s |-> S, raised |-> raised, fbuilt |-> fb, pbuilt |-> pb]
R(S, raised) == RB(S, raised, {}, {})

Step(S, c) ==
  LET t == c.t IN
  CASE c.op = "BuildForce" ->
         IF BuildForceGoes(S, t, c.nd) THEN RB(BuildForceEff(S, t, c.a), FALSE, {t}, {}) ELSE R(S, TRUE)
    [] c.op = "SolveStress" ->
         IF ~S.fm[t].has THEN R(S, TRUE)                                   \* KeyError
         ELSE IF S.gen[t] - S.fm[t].gen >= 2 /\ c.nd
         THEN R([S EXCEPT !.junk[t] = TRUE], TRUE)                         \* KeyError after part of the write-back
         ELSE LET f == S.fm[t]
                  r == Sol(f.gen, f.ver, f.opt, c.a, IF c.a = "vel" THEN S.ver[Partner(t)] ELSE -1, IF c.a = "vel" THEN S.ver[t] ELSE -1)
              IN  R([S EXCEPT !.ew[t] = [g \in Gens |-> IF g = f.gen THEN r ELSE IF g > f.gen THEN NoSol ELSE @[g]],
                              !.forces[t] = r, !.fattr[t] = r, !.tabz[t] = FALSE,
                              !.redo[t] = IF @ >= 1 THEN 2 ELSE @], FALSE)
    [] c.op = "BuildPressure" ->
         IF S.dmg[t] THEN R(S, TRUE)
         ELSE RB([S EXCEPT !.pm[t] = [has |-> TRUE, gen |-> S.gen[t], cver |-> S.fver[t], ver |-> S.ver[t], tz |-> S.tabz[t],
                                      top |-> IF S.tabz[t] THEN NoSol ELSE Top(S, t),
                                      tclean |-> S.tabz[t] \/ (~S.junk[t] /\ Cardinality(Writes(S, t)) = 1)],
                          !.redo[t] = IF @ >= 2 THEN 3 ELSE @], FALSE, {}, {t})
    [] c.op = "SolvePressure" ->
         IF ~S.pm[t].has THEN R(S, TRUE)                                   \* KeyError
         ELSE R([S EXCEPT !.cp[t] = S.pm[t], !.pstore[t] = S.pm[t], !.redo[t] = IF @ = 3 THEN 4 ELSE @], FALSE)
    [] c.op = "SystemVelocity" ->
         \* for time in range(len(frames)): build_force_matrix(time, angle_limit=inf); set_velocity_matrix(...)
         LET bad == {u \in Frames : ~BuildForceGoes(S, u, c.nd)}
             stop == IF bad = {} THEN NF ELSE CHOOSE u \in bad : \A w \in bad : u <= w
         IN  RB([S EXCEPT !.fm = [u \in Frames |-> IF u < stop THEN FM(S.gen[u], S.ver[u], "inf") ELSE @[u]],
                          !.redo = [u \in Frames |-> IF u < stop THEN 1 ELSE @[u]]], stop < NF, {u \in Frames : u < stop}, {})
    [] c.op = "RemoveCell" ->
         IF S.dmg[t] THEN R(S, TRUE)
         ELSE IF t = 0 THEN R(RemoveCell0(S, c.nd), FALSE)
         ELSE IF c.a = "border" THEN R(Damage(S, t), TRUE)                 \* private vertices deleted in t, cell deleted in 0, KeyError
         ELSE IF c.a = "border_absent" THEN R(DamageOnly(S, t), TRUE)      \* private vertices deleted in t, KeyError at frames[0].cells
         ELSE IF c.a = "interior_absent" THEN R(S, TRUE)                   \* KeyError at frames[0].cells before anything is touched
         ELSE R(Damage(NewFrame(S, t, c.nd), 0), FALSE)                    \* cell deleted in frame 0, new Frame on the unchanged mesh of t
    [] c.op = "RemoveOutermost" ->
         \* the cells flagged is_border in frames[0], one remove_cell(t, c) each
         IF c.n = 0 THEN R(S, FALSE)
         ELSE IF S.dmg[t] THEN R(S, TRUE)
         ELSE IF t = 0 THEN R(RemoveMany(S, c.n, c.nd), FALSE)
         ELSE R(Damage(S, t), TRUE)
    [] c.op = "FilterEdges" ->
         \* every interface's CACHED coordinates are filtered and written to its vertices: changes the positions once per
         \* Frame generation (the cache is never refreshed)
         IF S.fver[t] = S.ver[t] THEN R([S EXCEPT !.ver[t] = @ + 1, !.redo = ResetRedo(S, t)], FALSE) ELSE R(S, FALSE)
    [] c.op = "LogForce" -> R(S, ~S.fattr[t].has)                          \* AttributeError: the current Frame has no `forces`
    [] c.op = "GetTensions" -> R(S, FALSE)
    [] c.op = "GetPressures" -> R(S, FALSE)
    [] c.op = "StressTensor" ->
         IF ~S.cp[t].has \/ S.dmg[t] THEN R(S, TRUE)                       \* TypeError: None * area
         ELSE R([S EXCEPT !.tensor[t] = [has |-> TRUE, gen |-> S.gen[t], ver |-> S.ver[t],
                                         ok |-> TabCurrent(S, t) /\ CurP(S, t, S.cp[t]) /\ S.fver[t] = S.ver[t]]], FALSE)
    [] OTHER -> R(S, TRUE)

(***************************************************************************)
(* What a user relies on (declarative; on states and on steps).             *)
(***************************************************************************)
\* P1  no silent staleness: every stored or reported result of frame t was computed from the mesh of frame t as it is
\*     now (current Frame generation, current positions, current partner positions), or is empty / zero
ResultsCurrent(S, t) ==
  /\ TabCurrent(S, t) /\ CurSol(S, t, S.forces[t]) /\ CurSol(S, t, S.fattr[t])
  /\ CurP(S, t, S.cp[t]) /\ CurP(S, t, S.pstore[t]) /\ CurTensor(S, t)
NoSilentStaleness(S) == \A t \in Frames : S.dmg[t] \/ ResultsCurrent(S, t)

\* P2  recomputation restores: once build_force_matrix, solve_stress, build_pressure_matrix, solve_pressure were
\*     re-issued (in this order, all accepted) after the last edit, the frame shows what a fresh session shows
Recomputed(S) == \A t \in Frames : (S.redo[t] = 4 /\ ~S.dmg[t]) =>
                    /\ TabCurrent(S, t) /\ CurSol(S, t, S.forces[t]) /\ CurSol(S, t, S.fattr[t])
                    /\ CurP(S, t, S.cp[t]) /\ CurP(S, t, S.pstore[t])

\* P3  a session can always be re-analysed: build_force_matrix is never refused
RebuildPossible(S) == \A t \in Frames : BuildForceOK(S, t)

\* P4  a call on frame t changes nothing that belongs to another frame (get_system_velocity_per_frame is documented to
\*     rebuild every force matrix)
FrameView(S, u) == <<S.gen[u], S.ver[u], S.fver[u], S.reg[u], S.dmg[u], S.fm[u], S.pm[u], S.forces[u], S.fattr[u],
                     S.ew[u], S.junk[u], S.tabz[u], S.cp[u], S.pstore[u], S.tensor[u]>>
Isolated(S, c, S2) == c.op # "SystemVelocity" => \A u \in Frames \ {c.t} : FrameView(S, u) = FrameView(S2, u)

\* P5  a refused call changes nothing
StateView(S) == [u \in Frames |-> FrameView(S, u)]
RefusalSafe(S, res) == res.raised => StateView(res.s) = StateView(S)

\* P6  queries are pure
QueryPure(S, c, res) == c.op \in Queries => StateView(res.s) = StateView(S)

\* P7  the vertex mapping of the TimeSeries describes the frames as they are: it is built once, from generation 0
MappingCurrent(S) == \A t \in Frames : S.gen[t] = 0 \/ S.dmg[t]

(***************************************************************************)
(* Known findings: matcher predicates (instance level).                     *)
(***************************************************************************)
\* an edit (remove_cell / remove_outermost_edges / filter_edges) leaves every earlier result, store and matrix in place;
\* later solve calls use the old matrices without complaint.  Instance: frame t shows a result that is not current and
\* the frame has been edited (its own mesh, or - velocity right-hand side - the partner's)
Edited(S, t) == S.ver[t] > 0 \/ S.gen[t] > 0 \/ S.ver[Partner(t)] > 0
KF_EditKeepsResults(S, t) == Edited(S, t) /\ ~ResultsCurrent(S, t)
\* BigEdge ids of an earlier generation stay in Vertex.own_big_edges: build_force_matrix looks interfaces up by them
KF_StaleRegistry(S, t) == S.reg[t] = "stale"
\* `self.frames[0]` where frame_number is meant
KF_FrameZeroWF(S, t) == S.dmg[t]
\* BigEdge.xs / ys are cached at construction: after filter_edges the curvature (pressure right-hand side, stress tensor)
\* is that of the unfiltered shape while the tangents (force matrix) follow the moved vertices
KF_FilterKeepsCache(S, t) == S.fver[t] # S.ver[t]
\* mesh edges that were internal in an earlier generation keep the tension written then: border rows of the new table
KF_StaleBorderRows(S, t) == ~BorderRowsClean(S, t)
\* the TimeSeries keeps the mapping of generation 0: it names vertices that are gone, and velocity right-hand sides of an
\* edited pair of frames go through it (a fresh session on the edited frames maps afresh or refuses: DifferentTissue)
KF_MappingNeverRebuilt(S) == ~MappingCurrent(S)
VelThroughOldMapping(S, t) == ~MappingDescribes(S, t) /\ (S.forces[t].sopt = "vel" \/ Top(S, t).sopt = "vel" \/ S.cp[t].top.sopt = "vel")

\* the properties, relative to the known findings
RecomputedX(S) == \A t \in Frames : (S.redo[t] = 4 /\ ~S.dmg[t]) =>
                     \/ KF_FilterKeepsCache(S, t) \/ KF_StaleBorderRows(S, t) \/ VelThroughOldMapping(S, t)
                     \/ /\ TabCurrent(S, t) /\ CurSol(S, t, S.forces[t]) /\ CurSol(S, t, S.fattr[t])
                        /\ CurP(S, t, S.cp[t]) /\ CurP(S, t, S.pstore[t])
NoSilentStalenessX(S) == \A t \in Frames : S.dmg[t] \/ ResultsCurrent(S, t) \/ KF_EditKeepsResults(S, t)
RebuildPossibleX(S) == \A t \in Frames : BuildForceOK(S, t) \/ KF_StaleRegistry(S, t) \/ KF_FrameZeroWF(S, t)
IsolatedX(S, c, S2) == Isolated(S, c, S2) \/ (c.t # 0 /\ c.op \in {"RemoveCell", "RemoveOutermost"} /\ S2.dmg[0])
RefusalSafeX(S, c, res) ==
  \/ RefusalSafe(S, res)
  \/ c.op \in {"RemoveCell", "RemoveOutermost"} /\ c.t # 0 /\ res.s.dmg[c.t]                     \* KF_FrameZeroWF
  \/ c.op = "SolveStress" /\ S.gen[c.t] - S.fm[c.t].gen >= 2                                     \* KF_EditKeepsResults (old matrix)
  \/ c.op = "SystemVelocity" /\ \E u \in Frames : KF_StaleRegistry(S, u) \/ KF_FrameZeroWF(S, u) \* partial rebuild
=============================================================================

SPECIFICATION Spec
CONSTANT KS = {0}
CONSTANT MaxDepth = 1
CONSTANT Frames = 2
INVARIANT ISatisfiesD
CHECK_DEADLOCK FALSE

---------------------------- MODULE MC_Reporting ----------------------------
(***************************************************************************)
(* Bounded exploration of the reporting state machine (Reporting.tla) over *)
(* three tiny abstract frames:                                             *)
(*   frame 1  3 cells in a chain: internal interface with an interior      *)
(*            point (2 mesh edges, unequal ground truth), border           *)
(*            interface, internal two-point interface, border interface    *)
(*            with 2 mesh edges; built with gt=True; cells 1 and 3 share   *)
(*            nothing; position in the internal list # id                  *)
(*   frame 2  border interface FIRST, two cells that share TWO interfaces  *)
(*            (one with, one without interior point); gt=False             *)
(*   frame 3  three cells around one junction, only two-point interfaces,  *)
(*            no border; gt=True                                           *)
(* Every public call with every flag combination and two value patterns    *)
(* (three for Solve: one with an interface excluded by the angle limit) is *)
(* an action; the implementation-shaped step IStep is explored and, for    *)
(* every transition (pre, call, result, post):                             *)
(*   Conform        the declarative Judge finds only instances explained   *)
(*                  by a known-finding matcher (I => D except KF matchers) *)
(*   QueriesPure    queries never change the state (also as the action     *)
(*                  property PureQueries)                                  *)
(*   GTMean         with gt=True the ground truth of an interface stays    *)
(*                  the mean of its mesh edges' ground truth               *)
(*   SolveTable     after Solve(x) the tension table lists exactly x on    *)
(*                  the internal interfaces in order (0 where x = -1) and  *)
(*                  zero on the border ones unless the legacy              *)
(*                  assign_tensions wrote there                            *)
(*   AssignGTTable  after AssignGT(g) the ground-truth table lists g       *)
(*   PressureTable  after AssignPressures(p, m) the table shows p[m[c]]    *)
(*   RoundTrip      the declarative export is the table, column by column  *)
(*   TablesAgree    GT / EdgeProps / CellProps / Pressures / without-border*)
(*                  tables are projections of one another                  *)
(*   Symmetric      ByCells does not depend on the order of its arguments  *)
(* VIEW hides the history: the distinct states are the transitions (pre,   *)
(* call, post) of the reachable graph; `hist` is one call sequence that    *)
(* reaches the transition. A hash-selected sample of them (all of those    *)
(* that end in a known-finding instance: EMITKF) is printed as `EJ {json}` *)
(* and replayed on real forsys objects (harness/props/reporting.py).       *)
(***************************************************************************)
EXTENDS Reporting, Json

CONSTANTS MaxDepth,      \* number of calls (CONSTRAINT on the BFS level)
          EMITMOD        \* 1 of EMITMOD transitions is printed

\* ---- the abstract frames ------------------------------------------------------------------
V(k) == Num(12 * k)
Raw1 == [nb |-> 4, nc |-> 3, ne |-> 6, ext |-> <<FALSE, TRUE, FALSE, TRUE>>, inl |-> <<TRUE, FALSE, TRUE, FALSE>>,
         edges |-> <<<<1, 2>>, <<3>>, <<4>>, <<5, 6>>>>, npt |-> <<3, 2, 2, 3>>,
         touch |-> <<<<1, 2>>, <<1>>, <<2, 3>>, <<3>>>>, gtflag |-> TRUE,
         geom |-> FALSE, ifx |-> <<>>, ify |-> <<>>, cx |-> <<>>, cy |-> <<>>]
Raw2 == [nb |-> 4, nc |-> 2, ne |-> 5, ext |-> <<TRUE, FALSE, FALSE, TRUE>>, inl |-> <<FALSE, TRUE, TRUE, FALSE>>,
         edges |-> <<<<1>>, <<2, 3>>, <<4>>, <<5>>>>, npt |-> <<2, 3, 2, 2>>,
         touch |-> <<<<1>>, <<1, 2>>, <<2, 1>>, <<2>>>>, gtflag |-> FALSE,
         geom |-> FALSE, ifx |-> <<>>, ify |-> <<>>, cx |-> <<>>, cy |-> <<>>]
Raw3 == [nb |-> 3, nc |-> 3, ne |-> 3, ext |-> <<FALSE, FALSE, FALSE>>, inl |-> <<TRUE, TRUE, TRUE>>,
         edges |-> <<<<1>>, <<2>>, <<3>>>>, npt |-> <<2, 2, 2>>,
         touch |-> <<<<1, 2>>, <<2, 3>>, <<3, 1>>>>, gtflag |-> TRUE,
         geom |-> FALSE, ifx |-> <<>>, ify |-> <<>>, cx |-> <<>>, cy |-> <<>>]
Raws == <<Raw1, Raw2, Raw3>>
EGT0 == <<<<V(1), V(3), V(0), V(2), V(1), V(1)>>, <<V(1), V(1), V(2), V(3), V(0)>>, <<V(1), V(2), V(3)>>>>
CGT0 == <<<<V(1), V(2), V(3)>>, <<NoneV, NoneV>>, <<V(2), NoneV, V(1)>>>>

VARIABLES fi, F, pre, cur, last, ret, legacy, hist
vars == <<fi, F, pre, cur, last, ret, legacy, hist>>

\* ---- the calls -----------------------------------------------------------------------------------
Pat(p, i) == CASE p = "a" -> V(i)
               [] p = "b" -> V(7 - i)
               [] p = "x" -> IF i = 2 THEN MinusOne ELSE V(i + 3)     \* the second internal interface is excluded
PatVec(p, n) == [i \in 1..n |-> Pat(p, i)] \o <<>>
MapOf(m, n) == IF m = "id" THEN [c \in 1..n |-> c] \o <<>> ELSE [c \in 1..n |-> n + 1 - c] \o <<>>
Call(op, wb, isgt, g, map, a, b, pat, mp) ==
  [op |-> op, wb |-> wb, isgt |-> isgt, g |-> g, map |-> map, a |-> a, b |-> b, pat |-> pat, mp |-> mp]
C0(op) == Call(op, FALSE, FALSE, <<>>, <<>>, 0, 0, "", "")
NoCall == C0("none")
Calls(f) ==
  {Call("AssignGT", wb, FALSE, PatVec(p, Len(Listed(f, wb))), <<>>, 0, 0, p, "") : wb \in BOOLEAN, p \in {"a", "b"}}
  \cup {Call("AssignGTSmall", wb, FALSE, <<>>, <<>>, 0, 0, "", "") : wb \in BOOLEAN}
  \cup {Call("AssignPressures", FALSE, FALSE, PatVec(p, f.nc), MapOf(m, f.nc), 0, 0, p, m) : p \in {"a", "b"}, m \in {"id", "rev"}}
  \cup {Call("AssignSmall", FALSE, FALSE, PatVec(p, f.nb), <<>>, 0, 0, p, "") : p \in {"a", "b"}}
  \cup {C0("ToBig")}
  \cup {Call("Solve", FALSE, FALSE, PatVec(p, Len(f.inlist)), <<>>, 0, 0, p, "") : p \in {"a", "x"}}
  \cup {Call("SolveP", FALSE, FALSE, PatVec("b", f.nc), MapOf("id", f.nc), 0, 0, "b", "id")}
  \cup {Call(op, wb, FALSE, <<>>, <<>>, 0, 0, "", "") : op \in {"BigEdges", "Tensions", "GT"}, wb \in BOOLEAN}
  \cup {C0(op) : op \in {"External", "ExternalIds", "Pressures", "EdgeProps", "LogForce"}}
  \cup {Call("CellProps", TRUE, FALSE, <<>>, <<>>, 0, 0, "", "")}
  \cup {Call("Export", wb, g, <<>>, <<>>, 0, 0, "", "") : wb \in BOOLEAN, g \in BOOLEAN}
  \cup {Call("ByCells", FALSE, FALSE, <<>>, <<>>, a, b, "", "") : a \in 1..f.nc, b \in 1..f.nc}
  \cup {Call(op, FALSE, FALSE, <<>>, <<>>, j, 0, "", "") : op \in {"EdgesId", "EdgeForce"}, j \in 1..f.nb}

Init == /\ fi \in 1..Len(Raws)
        /\ F = MkFrame(Raws[fi])
        /\ cur = InitState(MkFrame(Raws[fi]), EGT0[fi], CGT0[fi])
        /\ pre = cur /\ last = NoCall /\ ret = Res0 /\ legacy = FALSE /\ hist = <<>>
Next == \E c \in Calls(F) :
          \E x \in {IStep(F, cur, c)} :
            /\ pre' = cur /\ cur' = x.post /\ ret' = x.res /\ last' = c
            /\ legacy' = (legacy \/ c.op = "AssignSmall")
            /\ hist' = Append(hist, c)
            /\ UNCHANGED <<fi, F>>
Spec == Init /\ [][Next]_vars

View == <<fi, pre, cur, last, legacy>>
DepthOK == TLCGet("level") <= MaxDepth + 1

\* ---- I => D except the recorded findings ----------------------------------------------------------
\* (symmetry of ByCells is judged against the lookup with the arguments swapped on the same state)
Memo == IF last.op = "ByCells" THEN LET r == IByCells(F, last.b, last.a) IN
                                     {<<last.b, last.a, IF r.raised # "" THEN -1 ELSE r.j>>}
        ELSE {}
Inst == IF last = NoCall THEN JudgeFrame(F, cur) ELSE Judge(F, pre, last, ret, cur, Memo)
Conform == Fails(Inst) = {}
\* the raw property (EXPECTED to be violated: vacuity guard, the matchers are reachable)
ConformRaw == Inst = {}

QueriesPure == last.op \in Queries => cur = pre
PureQueries == [][last'.op \in Queries => cur' = cur]_vars
GTMean == F.gtflag => GTIsMean(F, cur)

Done(op) == last.op = op /\ ret.raised = ""
\* after Solve(x): exactly x on the internal interfaces, in order; zero on the border ones
SolveTable ==
  Done("Solve") =>
    LET t  == DTensions(F, cur, FALSE)
        tb == DTensions(F, cur, TRUE)
    IN  /\ Len(t) = Len(last.g)
        /\ \A i \in 1..Len(t) : t[i][3] = Written(last.g[i])
        /\ \A i \in 1..Len(tb) : F.ext[tb[i][1]] => (legacy \/ tb[i][3] = Zero)
        /\ cur.hasF /\ DLogForce(cur) = [i \in 1..Len(last.g) |-> <<i - 1, last.g[i], 0>>]
AssignGTTable ==
  Done("AssignGT") =>
    LET t == DGT(F, cur, last.wb) IN
    /\ Len(t) = Len(last.g) /\ \A i \in 1..Len(t) : t[i][2] = last.g[i]
    \* nothing else moved
    /\ \A j \in 1..F.nb : ListPos(F, last.wb)[j] = 0 => cur.igt[j] = pre.igt[j]
PressureTable ==
  (Done("AssignPressures") \/ Done("SolveP")) =>
    LET t == DPressures(F, cur) IN \A c \in 1..F.nc : t[c][1] = c /\ t[c][3] = last.g[last.map[c]] /\ t[c][2] = pre.cgt[c]
RoundTrip ==
  \A wb \in BOOLEAN :
    /\ DExport(F, cur, TRUE, wb) = [i \in 1..Len(DGT(F, cur, wb)) |-> <<DGT(F, cur, wb)[i][1], DGT(F, cur, wb)[i][2]>>]
    /\ DExport(F, cur, FALSE, wb) = [i \in 1..Len(DTensions(F, cur, wb)) |->
                                       <<DTensions(F, cur, wb)[i][1], DTensions(F, cur, wb)[i][3]>>]
TablesAgree ==
  /\ \A wb \in BOOLEAN : DGT(F, cur, wb) = [i \in 1..Len(DTensions(F, cur, wb)) |->
                                              <<DTensions(F, cur, wb)[i][1], DTensions(F, cur, wb)[i][2]>>]
  /\ DTensions(F, cur, FALSE) = SelectSeq(DTensions(F, cur, TRUE), LAMBDA row : ~F.ext[row[1]])
  /\ DEdgeProps(F, cur) = [j \in 1..F.nb |-> <<j, DTensions(F, cur, TRUE)[j][3], DTensions(F, cur, TRUE)[j][2]>>]
  /\ \A c \in 1..F.nc : AsNaN(DCellProps(F, cur)[c][2]) = DPressures(F, cur)[c][3]
Symmetric ==
  \A a, b \in 1..F.nc : /\ Between(F, a, b) = Between(F, b, a)
                        /\ IByCells(F, a, b) = IByCells(F, b, a)

\* ---- emission ---------------------------------------------------------------------------------------
OpCode(op) == CASE op = "AssignGT" -> 1 [] op = "AssignGTSmall" -> 2 [] op = "AssignPressures" -> 3
                [] op = "AssignSmall" -> 4 [] op = "ToBig" -> 5 [] op = "Solve" -> 6 [] op = "SolveP" -> 7
                [] op = "BigEdges" -> 8 [] op = "External" -> 9 [] op = "ExternalIds" -> 10 [] op = "Tensions" -> 11
                [] op = "GT" -> 12 [] op = "Pressures" -> 13 [] op = "Export" -> 14 [] op = "ByCells" -> 15
                [] op = "CellProps" -> 16 [] op = "EdgeProps" -> 17 [] op = "EdgesId" -> 18 [] op = "LogForce" -> 19
                [] op = "EdgeForce" -> 20 [] OTHER -> 0
CallCode(c) == OpCode(c.op) * 64 + (IF c.wb THEN 1 ELSE 0) + (IF c.isgt THEN 2 ELSE 0) + 4 * c.a + 16 * c.b
               + (IF c.pat \in {"b", "x"} THEN 32 ELSE 0) + (IF c.mp = "rev" THEN 3 ELSE 0)
RECURSIVE HistHash(_, _)
HistHash(h, k) == IF k > Len(h) THEN 0 ELSE ((CallCode(h[k]) * (31 + 2 * k)) % 100003 + 7 * HistHash(h, k + 1)) % 100003
Slim(c) == [op |-> c.op, wb |-> c.wb, isgt |-> c.isgt, a |-> c.a, b |-> c.b, pat |-> c.pat, mp |-> c.mp]
Emit == (Len(hist) > 0 /\ ((HistHash(hist, 1) + fi) % EMITMOD = 0 \/ Known(Inst) # {})) =>
          PrintT("EJ " \o ToJson([frame |-> fi, n |-> Len(hist), kf |-> Known(Inst),
                                  hist |-> [k \in 1..Len(hist) |-> Slim(hist[k])]]))
=============================================================================

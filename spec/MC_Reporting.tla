---------------------------- MODULE MC_Reporting ----------------------------
(***************************************************************************)
(* Bounded exploration of the reporting state machine (Reporting.tla) over *)
(* tiny abstract frames (quick: 1..3, thorough: 1..4):                     *)
(*   frame 1  3 cells in a chain: internal interface with an interior      *)
(*            point (2 mesh edges, unequal ground truth), border           *)
(*            interface, internal two-point interface, border interface    *)
(*            with 2 mesh edges; built with gt=True; cells 1 and 3 share   *)
(*            nothing; position in the internal list # id                  *)
(*   frame 2  border interface FIRST, two cells that share TWO interfaces  *)
(*            (one with, one without interior point); gt=False             *)
(*   frame 3  three cells around one junction, only two-point interfaces,  *)
(*            no border; gt=True                                           *)
(*   frame 4  4 cells, six interfaces, a three-edge interface; gt=True     *)
(* Every public call with every flag combination and the value patterns    *)
(* Pats (Solve: one pattern with an interface excluded by the angle limit) *)
(* is an action; the implementation-shaped step IStep is explored. VIEW    *)
(* hides the history and the last call: the distinct states are the        *)
(* reachable abstract frames (the graph is finite and explored completely, *)
(* MaxDepth is only a safety bound), and every invariant quantifies over   *)
(* ALL calls leaving the state, so every transition (pre, call, result,    *)
(* post) of the reachable graph is judged:                                 *)
(*   Conform        the declarative Judge finds only instances explained   *)
(*                  by a known-finding matcher (I => D except KF matchers) *)
(*   QueriesPure    queries never change the state (also as the action     *)
(*                  property PureQueries)                                  *)
(*   GTMean         with gt=True the ground truth of an interface stays    *)
(*                  the mean of its mesh edges' ground truth               *)
(*   SolveTable     after Solve(x) the tension table lists exactly x on    *)
(*                  the internal interfaces in order (0 where x = -1) and  *)
(*                  zero on the border ones unless the legacy              *)
(*                  assign_tensions wrote there; log_force lists x         *)
(*   AssignGTTable  after AssignGT(g) the ground-truth table lists g       *)
(*   PressureTable  after AssignPressures(p, m) the table shows p[m[c]]    *)
(*   RoundTrip      the declarative export is the table, column by column  *)
(*   TablesAgree    GT / EdgeProps / CellProps / Pressures / without-border*)
(*                  tables are projections of one another                  *)
(*   Symmetric      ByCells does not depend on the order of its arguments  *)
(* MC_Reporting_guard.cfg: ConformRaw (no matcher) is EXPECTED to be       *)
(* violated - the matchers are reachable.                                  *)
(* `hist` is the first call sequence found for the state; for a hash-      *)
(* selected sample of the transitions (denser among those that end in a    *)
(* known-finding instance) `hist` followed by the call is printed as       *)
(* `EJ {json}` and replayed on real forsys objects                         *)
(* (harness/props/reporting.py).                                           *)
(***************************************************************************)
EXTENDS Reporting, Json

CONSTANTS NFRAMES,       \* the abstract frames 1..NFRAMES are explored
          Pats,          \* value patterns of the assignment calls ("a", "b", "c")
          MaxDepth,      \* number of calls (CONSTRAINT on the BFS level)
          EMITMOD,       \* 1 of EMITMOD transitions is printed
          EMITKF         \* 1 of EMITKF transitions that end in a known-finding instance

\* ---- the abstract frames ------------------------------------------------------------------
V(k) == Num(12 * k)
Raw1 == [nb |-> 4, nc |-> 3, ne |-> 6, ext |-> <<FALSE, TRUE, FALSE, TRUE>>, inl |-> <<TRUE, FALSE, TRUE, FALSE>>,
         edges |-> <<<<1, 2>>, <<3>>, <<4>>, <<5, 6>>>>, npt |-> <<3, 2, 2, 3>>,
         touch |-> <<<<1, 2>>, <<1>>, <<2, 3>>, <<3>>>>, gtflag |-> TRUE,
         geom |-> FALSE, ifx |-> <<>>, ify |-> <<>>, cx |-> <<>>, cy |-> <<>>]
Raw2 == [nb |-> 4, nc |-> 2, ne |-> 5, ext |-> <<TRUE, FALSE, FALSE, TRUE>>, inl |-> <<FALSE, TRUE, TRUE, FALSE>>,
         edges |-> <<<<1>>, <<2, 3>>, <<4>>, <<5>>>>, npt |-> <<2, 3, 2, 2>>,
         touch |-> <<<<1>>, <<1, 2>>, <<2, 1>>, <<2>>>>, gtflag |-> FALSE,
         geom |-> FALSE, ifx |-> <<>>, ify |-> <<>>, cx |-> <<>>, cy |-> <<>>]
Raw3 == [nb |-> 3, nc |-> 3, ne |-> 3, ext |-> <<FALSE, FALSE, FALSE>>, inl |-> <<TRUE, TRUE, TRUE>>,
         edges |-> <<<<1>>, <<2>>, <<3>>>>, npt |-> <<2, 2, 2>>,
         touch |-> <<<<1, 2>>, <<2, 3>>, <<3, 1>>>>, gtflag |-> TRUE,
         geom |-> FALSE, ifx |-> <<>>, ify |-> <<>>, cx |-> <<>>, cy |-> <<>>]
\* frame 4 (thorough tier): 4 cells in a ring-like patch, six interfaces, a three-edge interface
Raw4 == [nb |-> 6, nc |-> 4, ne |-> 9, ext |-> <<FALSE, TRUE, FALSE, FALSE, TRUE, FALSE>>,
         inl |-> <<TRUE, FALSE, TRUE, TRUE, FALSE, TRUE>>,
         edges |-> <<<<1, 2, 3>>, <<4>>, <<5>>, <<6, 7>>, <<8>>, <<9>>>>, npt |-> <<4, 2, 2, 3, 2, 2>>,
         touch |-> <<<<1, 2>>, <<1>>, <<2, 3>>, <<3, 4>>, <<4>>, <<4, 1>>>>, gtflag |-> TRUE,
         geom |-> FALSE, ifx |-> <<>>, ify |-> <<>>, cx |-> <<>>, cy |-> <<>>]
Raws == <<Raw1, Raw2, Raw3, Raw4>>
EGT0 == <<<<V(1), V(3), V(0), V(2), V(1), V(1)>>, <<V(1), V(1), V(2), V(3), V(0)>>, <<V(1), V(2), V(3)>>,
          <<V(1), V(2), V(6), V(0), V(2), V(1), V(5), V(1), V(4)>>>>
CGT0 == <<<<V(1), V(2), V(3)>>, <<NoneV, NoneV>>, <<V(2), NoneV, V(1)>>, <<V(4), V(3), V(2), V(1)>>>>

VARIABLES fi, F, cur, last, legacy, hist
vars == <<fi, F, cur, last, legacy, hist>>

\* ---- the calls -----------------------------------------------------------------------------------
Pat(p, i) == CASE p = "a" -> V(i)
               [] p = "b" -> V(7 - i)
               [] p = "c" -> V(2 * i + 1)
               [] p = "x" -> IF i = 2 THEN MinusOne ELSE V(i + 3)     \* the second internal interface is excluded
PatVec(p, n) == [i \in 1..n |-> Pat(p, i)] \o <<>>
MapOf(m, n) == IF m = "id" THEN [c \in 1..n |-> c] \o <<>> ELSE [c \in 1..n |-> n + 1 - c] \o <<>>
Call(op, wb, isgt, g, map, a, b, pat, mp) ==
  [op |-> op, wb |-> wb, isgt |-> isgt, g |-> g, map |-> map, a |-> a, b |-> b, pat |-> pat, mp |-> mp]
C0(op) == Call(op, FALSE, FALSE, <<>>, <<>>, 0, 0, "", "")
NoCall == C0("none")
Calls(f) ==
  {Call("AssignGT", wb, FALSE, PatVec(p, Len(Listed(f, wb))), <<>>, 0, 0, p, "") : wb \in BOOLEAN, p \in Pats}
  \cup {Call("AssignGTSmall", wb, FALSE, <<>>, <<>>, 0, 0, "", "") : wb \in BOOLEAN}
  \cup {Call("AssignPressures", FALSE, FALSE, PatVec(p, f.nc), MapOf(m, f.nc), 0, 0, p, m) : p \in Pats, m \in {"id", "rev"}}
  \cup {Call("AssignSmall", FALSE, FALSE, PatVec(p, f.nb), <<>>, 0, 0, p, "") : p \in Pats}
  \cup {C0("ToBig")}
  \cup {Call("Solve", FALSE, FALSE, PatVec(p, Len(f.inlist)), <<>>, 0, 0, p, "") : p \in {"a", "x"}}
  \cup {Call("SolveP", FALSE, FALSE, PatVec("b", f.nc), MapOf("id", f.nc), 0, 0, "b", "id")}
  \cup {Call(op, wb, FALSE, <<>>, <<>>, 0, 0, "", "") : op \in {"BigEdges", "Tensions", "GT"}, wb \in BOOLEAN}
  \cup {C0(op) : op \in {"External", "ExternalIds", "Pressures", "EdgeProps", "LogForce"}}
  \cup {Call("CellProps", TRUE, FALSE, <<>>, <<>>, 0, 0, "", "")}
  \cup {Call("Export", wb, g, <<>>, <<>>, 0, 0, "", "") : wb \in BOOLEAN, g \in BOOLEAN}
  \cup {Call("ByCells", FALSE, FALSE, <<>>, <<>>, a, b, "", "") : a \in 1..f.nc, b \in 1..f.nc}
  \cup {Call(op, FALSE, FALSE, <<>>, <<>>, j, 0, "", "") : op \in {"EdgesId", "EdgeForce"}, j \in 1..f.nb}

Init == /\ fi \in 1..NFRAMES
        /\ F = MkFrame(Raws[fi])
        /\ cur = InitState(MkFrame(Raws[fi]), EGT0[fi], CGT0[fi])
        /\ last = NoCall /\ legacy = FALSE /\ hist = <<>>
Next == \E c \in Calls(F) :
          \E x \in {IStep(F, cur, c)} :
            /\ cur' = x.post /\ last' = c
            /\ legacy' = (legacy \/ c.op = "AssignSmall")
            /\ hist' = Append(hist, c)
            /\ UNCHANGED <<fi, F>>
Spec == Init /\ [][Next]_vars

\* the history and the last call are hidden: the distinct states are the reachable abstract frames; every invariant
\* below quantifies over ALL calls leaving the state, so every transition of the reachable graph is judged
View == <<fi, cur, legacy>>
DepthOK == TLCGet("level") <= MaxDepth + 1

\* ---- I => D except the recorded findings ----------------------------------------------------------
\* (symmetry of ByCells is judged against the lookup with the arguments swapped on the same state)
Memo(c) == IF c.op = "ByCells" THEN LET r == IByCells(F, c.b, c.a) IN {<<c.b, c.a, IF r.raised # "" THEN -1 ELSE r.j>>}
           ELSE {}
Inst(c, x) == Judge(F, cur, c, x.res, x.post, Memo(c))
Conform == /\ hist = <<>> => JudgeFrame(F, cur) = {}
           /\ \A c \in Calls(F) : Fails(Inst(c, IStep(F, cur, c))) = {}
\* the raw property (EXPECTED to be violated: vacuity guard, the matchers are reachable)
ConformRaw == \A c \in Calls(F) : Inst(c, IStep(F, cur, c)) = {}

QueriesPure == \A c \in Calls(F) : c.op \in Queries => IStep(F, cur, c).post = cur
PureQueries == [][last'.op \in Queries => cur' = cur]_vars
GTMean == F.gtflag => GTIsMean(F, cur)

\* after Solve(x): exactly x on the internal interfaces, in order (0 where x = -1); zero on the border ones unless the
\* legacy assign_tensions wrote there; log_force lists x
SolveTable ==
  \A c \in Calls(F) : c.op = "Solve" =>
    LET nx == IStep(F, cur, c).post
        t  == DTensions(F, nx, FALSE)
        tb == DTensions(F, nx, TRUE)
    IN  /\ Len(t) = Len(c.g)
        /\ \A i \in 1..Len(t) : t[i][3] = Written(c.g[i])
        /\ \A i \in 1..Len(tb) : F.ext[tb[i][1]] => (legacy \/ tb[i][3] = Zero)
        /\ nx.hasF /\ DLogForce(nx) = [i \in 1..Len(c.g) |-> <<i - 1, c.g[i], 0>>]
\* after AssignGT(g) the ground-truth table lists g in order, nothing else moved (the code serves use_all = FALSE only)
AssignGTTable ==
  \A c \in Calls(F) : (c.op = "AssignGT" /\ ~c.wb) =>
    LET nx == IStep(F, cur, c).post
        t == DGT(F, nx, c.wb)
    IN  /\ Len(t) = Len(c.g) /\ \A i \in 1..Len(t) : t[i][2] = c.g[i]
        /\ \A j \in 1..F.nb : ListPos(F, c.wb)[j] = 0 => nx.igt[j] = cur.igt[j]
PressureTable ==
  \A c \in Calls(F) : c.op \in {"AssignPressures", "SolveP"} =>
    LET t == DPressures(F, IStep(F, cur, c).post) IN
    \A k \in 1..F.nc : t[k][1] = k /\ t[k][3] = c.g[c.map[k]] /\ t[k][2] = cur.cgt[k]
RoundTrip ==
  \A wb \in BOOLEAN :
    /\ DExport(F, cur, TRUE, wb) = [i \in 1..Len(DGT(F, cur, wb)) |-> <<DGT(F, cur, wb)[i][1], DGT(F, cur, wb)[i][2]>>]
    /\ DExport(F, cur, FALSE, wb) = [i \in 1..Len(DTensions(F, cur, wb)) |->
                                       <<DTensions(F, cur, wb)[i][1], DTensions(F, cur, wb)[i][3]>>]
TablesAgree ==
  /\ \A wb \in BOOLEAN : DGT(F, cur, wb) = [i \in 1..Len(DTensions(F, cur, wb)) |->
                                              <<DTensions(F, cur, wb)[i][1], DTensions(F, cur, wb)[i][2]>>]
  /\ DTensions(F, cur, FALSE) = SelectSeq(DTensions(F, cur, TRUE), LAMBDA row : ~F.ext[row[1]])
  /\ DEdgeProps(F, cur) = [j \in 1..F.nb |-> <<j, DTensions(F, cur, TRUE)[j][3], DTensions(F, cur, TRUE)[j][2]>>]
  /\ \A c \in 1..F.nc : AsNaN(DCellProps(F, cur)[c][2]) = DPressures(F, cur)[c][3]
Symmetric ==
  \A a, b \in 1..F.nc : /\ Between(F, a, b) = Between(F, b, a)
                        /\ IByCells(F, a, b) = IByCells(F, b, a)

\* ---- emission ---------------------------------------------------------------------------------------
OpCode(op) == CASE op = "AssignGT" -> 1 [] op = "AssignGTSmall" -> 2 [] op = "AssignPressures" -> 3
                [] op = "AssignSmall" -> 4 [] op = "ToBig" -> 5 [] op = "Solve" -> 6 [] op = "SolveP" -> 7
                [] op = "BigEdges" -> 8 [] op = "External" -> 9 [] op = "ExternalIds" -> 10 [] op = "Tensions" -> 11
                [] op = "GT" -> 12 [] op = "Pressures" -> 13 [] op = "Export" -> 14 [] op = "ByCells" -> 15
                [] op = "CellProps" -> 16 [] op = "EdgeProps" -> 17 [] op = "EdgesId" -> 18 [] op = "LogForce" -> 19
                [] op = "EdgeForce" -> 20 [] OTHER -> 0
CallCode(c) == OpCode(c.op) * 64 + (IF c.wb THEN 1 ELSE 0) + (IF c.isgt THEN 2 ELSE 0) + 4 * c.a + 16 * c.b
               + (IF c.pat \in {"b", "x"} THEN 32 ELSE IF c.pat = "c" THEN 48 ELSE 0) + (IF c.mp = "rev" THEN 3 ELSE 0)
RECURSIVE HistHash(_, _)
HistHash(h, k) == IF k > Len(h) THEN 0 ELSE (((CallCode(h[k]) * (31 + 2 * k)) % 100003) + 7 * HistHash(h, k + 1)) % 100003
Slim(c) == [op |-> c.op, wb |-> c.wb, isgt |-> c.isgt, a |-> c.a, b |-> c.b, pat |-> c.pat, mp |-> c.mp]
\* one call sequence per transition of the graph: the first history found for the state, followed by the call
Sampled(h, kf) == LET x == HistHash(h, 1) + fi IN x % EMITMOD = 0 \/ (kf # {} /\ x % EMITKF = 0)
Emit == \A c \in Calls(F) :
          LET h  == Append(hist, c)
              kf == Known(Inst(c, IStep(F, cur, c)))
          IN  Sampled(h, kf) =>
                PrintT("EJ " \o ToJson([frame |-> fi, n |-> Len(h), kf |-> kf, hist |-> [k \in 1..Len(h) |-> Slim(h[k])]]))
=============================================================================

SPECIFICATION Spec
CONSTANT TFull = {}
CONSTANT TList = {1, 2, 3, 4, 5, 6, 7}
INVARIANT PremiseHolds
INVARIANT LineMachineOK
INVARIANT SectionFinderOK
INVARIANT ImplSatisfiesD
INVARIANT KFExactlyWhenTriggered
INVARIANT ImplHasNoDrift
INVARIANT Emit
CHECK_DEADLOCK FALSE

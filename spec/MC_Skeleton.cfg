SPECIFICATION Spec
CONSTANT N = 2
INVARIANT DrawnIsSuperset
INVARIANT CleanKeepsTopology
INVARIANT CleanIsMinimal
INVARIANT MinimalIsThin
INVARIANT JunctionSurvives
INVARIANT Emit
CHECK_DEADLOCK FALSE

SPECIFICATION Spec
CONSTANT NFRAMES = 3
CONSTANT Pats = {"a", "b"}
CONSTANT MaxDepth = 30
CONSTANT EMITMOD = 199
CONSTANT EMITKF = 47
INVARIANT ConformRaw
INVARIANT QueriesPure
INVARIANT GTMean
INVARIANT SolveTable
INVARIANT AssignGTTable
INVARIANT PressureTable
INVARIANT RoundTrip
INVARIANT TablesAgree
INVARIANT Symmetric
PROPERTY PureQueries
CONSTRAINT DepthOK
VIEW View
CHECK_DEADLOCK FALSE

SPECIFICATION Spec
CONSTANT N = 4
CONSTANT SITES <- Sites4v
CONSTANT STENCIL1 <- StV1x
CONSTANT STENCIL2 <- StV2
CONSTANT VANISH <- Vanish4x
CONSTANT ALLORDERS = TRUE
CONSTANT EMITMOD = 2999
INVARIANT InvAccel
INVARIANT InvTotal
INVARIANT InvSame
INVARIANT InvRhs
INVARIANT InvEdges
INVARIANT Emit
CHECK_DEADLOCK FALSE

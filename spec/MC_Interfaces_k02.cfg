SPECIFICATION Spec
CONSTANT KS = {0, 2}
INVARIANT ModelMeshConsistent
INVARIANT ImplSatisfiesD
INVARIANT ThreeCopiesAgree
INVARIANT Emit
CHECK_DEADLOCK FALSE
